"""Real autobahn WebSocket endpoints wired to recording fake transports (framework chosen by VERIF_FW)."""
import base64
import hashlib
import struct

from harness import fw

if fw.NAME == "tx":
    from autobahn.twisted.websocket import (WebSocketClientFactory, WebSocketClientProtocol,
                                            WebSocketServerFactory, WebSocketServerProtocol)
else:
    from autobahn.asyncio.websocket import (WebSocketClientFactory, WebSocketClientProtocol,
                                            WebSocketServerFactory, WebSocketServerProtocol)
from autobahn.websocket.protocol import WebSocketProtocol as WSP

STATE = {WSP.STATE_CLOSED: "CLOSED", WSP.STATE_CONNECTING: "CONNECTING", WSP.STATE_CLOSING: "CLOSING",
         WSP.STATE_OPEN: "OPEN", WSP.STATE_PROXY_CONNECTING: "CONNECTING"}
GUID = b"258EAFA5-E914-47DA-95CA-C5AB0DC85B11"


class LogTransport(fw.Transport):
    def __init__(self, log, who, **kw):
        super().__init__(**kw)
        self.log, self.who = log, who
        self.read_pos = 0

    def write(self, data):
        before = len(self.chunks)
        super().write(data)
        if len(self.chunks) > before:
            self.log.append(("write", self.who, bytes(data)))
        else:
            self.log.append(("write_after_abort", self.who, len(data)))

    # only the names of the framework in use exist (the adapters look the methods up by name)
    if fw.NAME == "tx":
        def loseConnection(self):
            super().loseConnection()
            self.log.append(("drop", self.who, False))

        def abortConnection(self):
            super().abortConnection()
            self.log.append(("drop", self.who, True))
    else:
        def close(self):
            super().close()
            self.log.append(("drop", self.who, False))

        def abort(self):
            super().abort()
            self.log.append(("drop", self.who, True))

    def unread(self):
        return bytes(self.written[self.read_pos:])

    def take(self, k=None):
        d = self.written[self.read_pos:] if k is None else self.written[self.read_pos:self.read_pos + k]
        self.read_pos += len(d)
        return bytes(d)


class RecMixin:
    """records every application-visible callback into self.vlog (shared with the transport log)"""
    vlog = None
    who = "?"

    def onConnect(self, x):
        self.vlog.append(("onConnect", self.who))
        f = getattr(self.factory, "v_onconnect", None)
        if f is not None:
            return f(self, x)
        return super().onConnect(x)

    def onOpen(self):
        self.vlog.append(("onOpen", self.who))

    # the frame-level receive API: record the bracket structure, then let the default implementation assemble the message
    _cbs = None

    def _cb(self, tag, n=0):
        if self._cbs is None:
            self._cbs = []
        self._cbs.append([tag, n])

    def onMessageBegin(self, isBinary):
        self._cb("mb", 1 if isBinary else 0)
        super().onMessageBegin(isBinary)

    def onMessageFrameBegin(self, length):
        self._cb("fb", int(length))
        super().onMessageFrameBegin(length)

    def onMessageFrameData(self, payload):
        self._cb("fd", len(payload))
        super().onMessageFrameData(payload)

    def onMessageFrameEnd(self):
        self._cb("fe")
        super().onMessageFrameEnd()

    def onMessageEnd(self):
        self._cb("me")
        super().onMessageEnd()

    def onMessage(self, payload, isBinary):
        cbs, self._cbs = (self._cbs or []), None
        self.vlog.append(("onMessage", self.who, bytes(payload), bool(isBinary), cbs))
        f = getattr(self.factory, "v_onmessage", None)
        if f is not None:
            f(self, payload, isBinary)

    def onPing(self, payload):
        self.vlog.append(("onPing", self.who, bytes(payload)))
        super().onPing(payload)

    def onPong(self, payload):
        self.vlog.append(("onPong", self.who, bytes(payload)))
        super().onPong(payload)

    def onClose(self, wasClean, code, reason):
        self.vlog.append(("onClose", self.who, bool(wasClean), code, reason))


class RecServer(RecMixin, WebSocketServerProtocol):
    who = "S"


class RecClient(RecMixin, WebSocketClientProtocol):
    who = "C"


def _build(factory, cls):
    factory.protocol = cls
    if fw.NAME == "tx":
        p = factory.buildProtocol(None)
    else:
        p = factory()
    return p


def _configure(factory, opts, cls):
    """opts: keyword arguments for setProtocolOptions, plus two ways of configuring that must come to the same thing:
    "_pre": an earlier setProtocolOptions call whose values the main call then replaces (e.g. a limit lifted again with 0),
    "_attrs": option values set as class attributes of the protocol subclass instead of on the factory"""
    opts = dict(opts or {})
    pre, attrs = opts.pop("_pre", None), opts.pop("_attrs", None)
    if pre:
        factory.setProtocolOptions(**pre)
    if opts:
        factory.setProtocolOptions(**opts)
    if attrs:
        cls = type(cls.__name__ + "Cfg", (cls,), dict(attrs))
    return cls


def make_server(log=None, url="ws://localhost:9000", protocols=None, opts=None, onconnect=None, cls=RecServer,
                factory_kw=None, factory=None):
    log = [] if log is None else log
    if factory is None:
        factory = WebSocketServerFactory(url, protocols=protocols, **(factory_kw or {}))
        cls = _configure(factory, opts, cls)
    if onconnect:
        factory.v_onconnect = onconnect
    p = _build(factory, cls)
    p.vlog = log
    t = LogTransport(log, "S", peer_port=40000, host_port=9000)
    fw.connect(p, t)
    return p, t


def make_client(log=None, url="ws://localhost:9000", protocols=None, opts=None, cls=RecClient, factory_kw=None, factory=None):
    log = [] if log is None else log
    if factory is None:
        factory = WebSocketClientFactory(url, protocols=protocols, **(factory_kw or {}))
        cls = _configure(factory, opts, cls)
    p = _build(factory, cls)
    p.vlog = log
    t = LogTransport(log, "C", peer_port=9000, host_port=40000)
    fw.connect(p, t)
    return p, t


class Pair:
    """A real client and a real server joined by an in-memory byte pipe with explicit segmentation."""

    def __init__(self, sopts=None, copts=None, sproto=None, cproto=None, onconnect=None, skw=None, ckw=None,
                 url="ws://localhost:9000"):
        self.log = []
        self.s, self.st = make_server(self.log, url=url, protocols=sproto, opts=sopts, onconnect=onconnect, factory_kw=skw)
        self.c, self.ct = make_client(self.log, url=url, protocols=cproto, opts=copts, factory_kw=ckw)
        self.escaped = []
        self.lost = {"S": False, "C": False}

    def proto(self, who):
        return self.s if who == "S" else self.c

    def tr(self, who):
        return self.st if who == "S" else self.ct

    def deliver(self, to, k=None, burst=None):
        """move k (all) unread octets written by the other side into `to`; burst = cut positions: the octets arrive as
        several reads without an event-loop turn in between"""
        src = self.ct if to == "S" else self.st
        d = src.take(k)
        if not d or self.lost[to]:
            return 0
        if burst:
            cuts = sorted(set(c for c in burst if 0 < c < len(d)))
            chunks = [d[a:b] for a, b in zip([0] + cuts, cuts + [len(d)])]
            e = fw.feed_burst(self.proto(to), chunks)
        else:
            e = fw.feed(self.proto(to), d)
        if e is not None:
            self.escaped.append((to, type(e).__name__, str(e)[:200]))
            self.log.append(("escape", to, type(e).__name__))
        return len(d)

    def handshake(self):
        fw.settle()
        self.deliver("S")
        self.deliver("C")
        fw.settle()
        return self.s.state == WSP.STATE_OPEN and self.c.state == WSP.STATE_OPEN

    def flush(self, rounds=50):
        """deliver everything in both directions until quiescent (pumping send queues)"""
        for _ in range(rounds):
            fw.pump()
            n = self.deliver("S") + self.deliver("C")
            fw.settle()
            if n == 0 and fw.pump() == 0 and not self.st.unread() and not self.ct.unread():
                break

    def lose(self, who, clean=True):
        if not self.lost[who]:
            self.lost[who] = True
            fw.lose(self.proto(who), clean)


# ---- frame level helpers ---------------------------------------------------------------------

def split_frames(buf):
    """Split octets into frames: returns (frames, rest); frame = dict(hdr=[octets], plen, payload (unmasked bytes), raw)
    Purely structural (length fields); all *judging* of headers is done in TLC (WsFrame.tla)."""
    frames = []
    i = 0
    n = len(buf)
    while True:
        if n - i < 2:
            break
        b1 = buf[i + 1]
        l1 = b1 & 0x7F
        hl = 2 + (2 if l1 == 126 else 8 if l1 == 127 else 0) + (4 if b1 & 0x80 else 0)
        if n - i < hl:
            break
        if l1 == 126:
            pl = struct.unpack("!H", buf[i + 2:i + 4])[0]
        elif l1 == 127:
            pl = struct.unpack("!Q", buf[i + 2:i + 10])[0]
        else:
            pl = l1
        if n - i < hl + pl:
            break
        hdr = bytes(buf[i:i + hl])
        raw = bytes(buf[i + hl:i + hl + pl])
        if b1 & 0x80:
            key = hdr[-4:]
            payload = bytes(raw[j] ^ key[j & 3] for j in range(len(raw))) if pl < 4096 else _unmask(raw, key)
        else:
            payload = raw
        frames.append(dict(hdr=list(hdr), plen=pl, payload=payload))
        i += hl + pl
    return frames, bytes(buf[i:])


def _unmask(raw, key):
    k = (key * (len(raw) // 4 + 1))[:len(raw)]
    return (int.from_bytes(raw, "big") ^ int.from_bytes(k, "big")).to_bytes(len(raw), "big")


def build_frame(opcode, payload=b"", fin=True, rsv=0, mask=None, len_form=None, declared_len=None):
    """Raw frame builder for the *peer played by the driver* (can build illegal frames).
    len_form: None=minimal, 16 -> force 2-octet length, 64 -> force 8-octet length."""
    b0 = (0x80 if fin else 0) | ((rsv & 7) << 4) | (opcode & 0x0F)
    pl = len(payload) if declared_len is None else declared_len
    if len_form is None:
        len_form = 7 if pl <= 125 else 16 if pl <= 0xFFFF else 64
    mbit = 0x80 if mask is not None else 0
    if len_form == 7:
        h = bytes([b0, mbit | pl])
    elif len_form == 16:
        h = bytes([b0, mbit | 126]) + struct.pack("!H", pl)
    else:
        h = bytes([b0, mbit | 127]) + struct.pack("!Q", pl)
    if mask is not None:
        h += bytes(mask)
        payload = _unmask(payload, bytes(mask)) if payload else payload
    return h + payload


def accept_for(key):
    return base64.b64encode(hashlib.sha1(key + GUID).digest())


CLIENT_REQUEST = (b"GET / HTTP/1.1\r\nHost: localhost:9000\r\nUpgrade: websocket\r\nConnection: Upgrade\r\n"
                  b"Sec-WebSocket-Key: dGhlIHNhbXBsZSBub25jZQ==\r\nSec-WebSocket-Version: 13\r\n%s\r\n")


def open_server(opts=None, log=None, extra_headers=b"", **kw):
    """a real server brought to OPEN by a canned client request written by the driver"""
    p, t = make_server(log=log, opts=opts, **kw)
    e = fw.feed(p, CLIENT_REQUEST % extra_headers)
    fw.settle()
    assert e is None, e
    assert p.state == WSP.STATE_OPEN, (p.state, bytes(t.written))
    t.take()  # discard handshake response
    return p, t


def open_client(opts=None, log=None, extra_headers=b"", **kw):
    """a real client brought to OPEN by a server response computed by the driver from the client's key"""
    p, t = make_client(log=log, opts=opts, **kw)
    fw.settle()
    req = t.take()
    key = None
    for line in req.split(b"\r\n"):
        if line.lower().startswith(b"sec-websocket-key:"):
            key = line.split(b":", 1)[1].strip()
    assert key is not None, req
    resp = (b"HTTP/1.1 101 Switching Protocols\r\nUpgrade: websocket\r\nConnection: Upgrade\r\n"
            b"Sec-WebSocket-Accept: " + accept_for(key) + b"\r\n" + extra_headers + b"\r\n")
    e = fw.feed(p, resp)
    fw.settle()
    assert e is None, e
    assert p.state == WSP.STATE_OPEN, p.state
    return p, t
