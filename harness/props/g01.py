"""G01 (growth, not a listed property) - explicit HTTP proxy phase of the WebSocket client.

M: spec/WsProxy.tla - Proceed(version class, status class).
T: a real client with proxy=... against a scripted proxy answering every (version, status) class under random segmentation,
   with non-ASCII octets in header values, followed (or not) by a valid opening handshake; WsProxyTrace.tla demands: the
   CONNECT request first and exact, the Upgrade request exactly when the proxy said 2xx on HTTP/1.0 or 1.1, otherwise nothing
   more written and the connection dropped; no exception escapes.
"""
from harness import common, tlc


def run(res):
    r = tlc.run_tlc("WsProxy", "MC_WsProxy.cfg", workers=2)
    res.add_model("WsProxy", r)
    reps = 12 if res.tier == "thorough" else 3
    outs = common.run_drivers_parallel([("wsproxy_drv", [], common.driver_env(fw=f, seed=res.seed + i), dict(reps=reps)) for i, f in enumerate(("tx", "aio"))])
    traces, meta = [], []
    for o in outs:
        res.count(o["cases"])
        for t in o["traces"]:
            traces.append(t)
            meta.append(o["fw"])
            res.distinct_key([o["fw"], t[0]["v"], t[0]["c"], t[0]["follow"], t[0]["ncuts"]])
    v = tlc.validate_traces("WsProxyTrace", "WsProxyTrace.cfg", traces, shards=2)
    res.traces += v["n"]
    for idx, l in v["rejected"][:20]:
        res.classify("g01-%s-%d" % (meta[idx], idx), dict(fw=meta[idx], event=traces[idx][0], spec="WsProxyTrace"))
    res.sample(traces[0][0])
    res.exhaustive = False
    res.assumptions = ["growth check: not one of the 20 listed properties, not in MANIFEST.json"]
