"""Shared runner for WAMP session histories validated by WampSessionTrace.tla (C04, C06, C10, C11)."""
from harness import common, tlc


def run_profile(res, profile, n_per_job, jobs_per_fw, label, mc_cfg="MC_WampSession.cfg"):
    r = tlc.run_tlc("WampSession", mc_cfg, workers=16, timeout=3400)
    res.add_model("WampSession", r)
    if (r["distinct"] or 0) < 10000:
        raise common.MachineryError("WampSession model unexpectedly small")
    jobs = []
    for fwn in ("tx", "aio"):
        env = common.driver_env(fw=fwn, seed=res.seed)
        for sh in range(jobs_per_fw):
            jobs.append(("wampsess_drv", [], env, dict(n=n_per_job, shard=sh + (0 if fwn == "tx" else 300), profile=profile)))
    outs = common.run_drivers_parallel(jobs)
    traces, meta = [], []
    for o in outs:
        res.count(o["cases"])
        for t in o["traces"]:
            traces.append(t)
            meta.append(o["fw"])
    for t in traces:
        res.distinct_key([(e["ev"], e.get("name"), (e.get("m") or {}).get("t"), e.get("beh"), e["re"]["exc"], len(e["re"]["done"])) if "re" in e
                          else (e["ev"], str(e.get("base")), e.get("n")) for e in t])
    v = tlc.validate_traces("WampSessionTrace", "WampSessionTrace.cfg", traces, shards=8, timeout=3000)
    res.traces += v["n"]
    for k, c in v["coverage"].items():
        res.actions["WampSessionTrace:" + k] = res.actions.get("WampSessionTrace:" + k, 0) + c[1]
    for idx, l in v["rejected"][:25]:
        t = traces[idx]
        e = t[l - 1] if l <= len(t) else None
        res.classify("%s-%s-trace-%d" % (label, meta[idx], idx),
                     dict(fw=meta[idx], events=[(x["ev"], x.get("name") or (x.get("m") or {}).get("t")) for x in t[:l]],
                          rejected_event=e, state_before=t[l - 2].get("obs") if l >= 2 else None, rejected_at=l, spec="WampSessionTrace", trace=t))
    if not v["rejected"]:
        for a in ("TOpen", "TRx", "TLost", "TApi") + (("TResolve", "TProgress") if profile == "c10" else ()) + (("TIdWrap",) if profile == "c04" else ()):
            if res.actions.get("WampSessionTrace:" + a, 0) == 0:
                raise common.MachineryError("vacuity: %s never taken" % a)
    res.sample([dict(ev=e["ev"], name=e.get("name"), m=e.get("m"), re=e.get("re")) for e in traces[0][:6]])
    res.sample([dict(ev=e["ev"], name=e.get("name"), m=e.get("m"), exc=(e.get("re") or {}).get("exc"), base=e.get("base"), wires=e.get("wires")) for e in traces[-1]])
    res.extra["rule"] = "one case = one seeded history (open, optional challenge/illegal messages, WELCOME, 4-16 API / router / endpoint steps, loss, one API call afterwards) on one framework"
    res.trusted = ["value comparison of payloads in the harness (faithful / valuesOk / argsOk flags)", "recording ITransport with a JSON serializer and a 2000 octet limit standing in for a real transport"]
    return traces
