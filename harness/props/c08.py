"""C08 - untrusted WAMP input is either a valid message or a protocol error.

M: spec/WampMsg.tla - the grammar of the 25 message types as data (positional field kinds, interpreted option keys with kinds),
   a three-valued Verdict(kind, value class) and the case table: every single-position / single-option substitution by
   each of 26 value classes, every wrong element count, the valid base message (4 264 cases, enumerated and exported by TLC).
R: every case is concretised and handed to <Class>.parse() and, encoded independently with json / msgpack / cbor2, to each
   serializer's unserialize(); WampMsgTrace.tla re-judges: Total (Message | ProtocolError | InvalidUriError, never another
   exception type), reject => an own error, accept => a message whose marshal() preserves the value and is idempotent.
   Unknown / non-integer type codes and non-list top levels must be own errors.
T: arbitrary and mutated octet strings per serializer (random, bit flips, truncation, concatenation, deep nesting, huge
   numbers, batch delimiter games), batched and unbatched: Total.
"""
from harness import common
from harness.props import msg_common


def run(res):
    thorough = res.tier == "thorough"
    tab = msg_common.export_table(res)
    jobs = []
    env = common.driver_env(fw="tx", seed=res.seed)
    ns = 4
    for sh in range(ns):
        jobs.append(("wampmsg_drv", [], env, dict(mode="cases", table=tab, shard=sh, nshards=ns)))
    jobs.append(("wampmsg_drv", [], env, dict(mode="codes", table=None)))
    for k in range(8 if thorough else 2):
        jobs.append(("wampmsg_drv", [], common.driver_env(fw="aio" if k % 2 else "tx", seed=res.seed), dict(mode="fuzz", n=20000 if thorough else 3000, shard=50 + k)))
    outs = common.run_drivers_parallel(jobs)
    traces = []
    for o in outs:
        res.count(o["cases"])
        traces += o["traces"]
    v = msg_common.validate(res, traces, "c08")
    for a in ("TCase", "TCode", "TFuzz"):
        if not v["rejected"] and res.actions.get("WampMsgTrace:" + a, 0) == 0:
            raise common.MachineryError("vacuity: %s never taken" % a)
    res.sample(traces[0][0])
    res.sample(traces[len(traces) // 2][0])
    res.sample(traces[-1][0])
    res.exhaustive = True
    res.extra["rule"] = "one case = one cell of the exported grammar table, one type-code case, or one fuzz input for one serializer"
    res.assumptions = ["'either' cells: args/kwargs given as str/bytes (router pass-through), null option values (= absent), empty strings for optional string details, ids inside options outside 0..2^53 (type-checked only), keys only valid in combination (request 0 / resume_token), unknown extra keys",
                       "FlatBuffers serializer not importable in this image"]
    res.trusted = ["json / msgpack / cbor2 encoders used to put raw structures on the wire independently of autobahn's marshal()"]
