"""C16 third clause: with a decompression size limit (permessage-deflate max_message_size) configured at a receiver, an
over-limit compressed message is never delivered truncated or altered and never corrupts later messages.  Pair scenarios
(profile c16d) with messages of decompressed size limit-1 / limit / limit+1 / 3*limit; WsChannelTrace accepts, for an
over-limit message, delivery of the identical message or a 1009 failure - never a delivery that is not byte-identical."""
from harness.props import chan_common


def run(res):
    chan_common.run_pair_profile(res, "c16d", 300 if res.tier == "thorough" else 120, 2, label="c16decomp")
