"""Shared runner for the client/server pair scenarios validated by WsChannelTrace.tla (C01, C12, C15 policy, C16 send)."""
from harness import common, tlc


def run_pair_profile(res, profile, n_per_job, jobs_per_fw, fws=("tx", "aio"), lens=None, label=None):
    jobs = []
    # masking / UTF-8 validation run through the NVX C modules rebuilt from /repo on even shards and through the pure-Python
    # implementations on odd shards
    nvx_dir = common.build_nvx()
    for fwn in fws:
        for sh in range(jobs_per_fw):
            use_nvx = (sh % 2 == 0)
            env = common.driver_env(fw=fwn, seed=res.seed, nvx=use_nvx, nvx_dir=nvx_dir if use_nvx else None)
            jobs.append(("wschan_drv", [], env, dict(n=n_per_job, shard=sh + (0 if fwn == "tx" else 1000), profile=profile, lens=lens)))
    outs = common.run_drivers_parallel(jobs)
    traces, meta, policy = [], [], []
    for o in outs:
        res.count(o["cases"])
        base = len(traces)
        for t in o["traces"]:
            traces.append(t)
            meta.append(o["fw"])
        for pr in o["problems"]:
            ti = pr.get("trace_index")
            res.classify("%s-%s-scenario-problem-%s" % (label or profile, o["fw"], pr.get("scenario")),
                         dict(problem=pr["problem"], fw=o["fw"], trace=traces[base + ti] if ti is not None else None))
        policy += o.get("policy") or []
    for t in traces:
        res.distinct_key(t)
    v = tlc.validate_traces("WsChannelTrace", "WsChannelTrace.cfg", traces, shards=8, timeout=3000)
    res.traces += v["n"]
    for k, c in v["coverage"].items():
        res.actions["WsChannelTrace:" + k] = res.actions.get("WsChannelTrace:" + k, 0) + c[1]
    # second pass for rejected traces: only the deviation actions of recorded findings enabled (DESIGN 3.5)
    explained = set()
    if v["rejected"]:
        rej = [traces[idx] for idx, _ in v["rejected"]]
        v2 = tlc.validate_traces("WsChannelTrace", "WsChannelTrace_dev.cfg", rej, shards=min(8, len(rej)), timeout=3000)
        still = {i for i, _ in v2["rejected"]}
        explained = {v["rejected"][i][0] for i in range(len(rej)) if i not in still}
    shown = 0
    for idx, l in v["rejected"]:
        t = traces[idx]
        keys = []
        if idx in explained:
            # which recorded deviation explains it: a refused compressed send (F16) or a message over the peer's decompression limit (F10)
            keys = ["F10"] if any(e.get("ev") == "open" and any(e.get("dlimit", {}).values()) for e in t[:1]) else ["F16"]
        if not keys and shown >= 25:
            continue
        r = res.classify("%s-%s-trace-%d" % (label or profile, meta[idx], idx),
                         dict(fw=meta[idx], trace=_short(t), rejected_at=l, event=_short([t[l - 1]])[0] if l <= len(t) else None,
                              spec="WsChannelTrace", explained_by_deviation=keys), keys)
        if r == "violation":
            shown += 1
    if traces:
        res.sample(_short(traces[0]))
        res.sample(_short(traces[len(traces) // 2]))
    return traces, policy


def _short(t):
    out = []
    for e in t:
        e = dict(e)
        if e.get("ev") == "wire" and len(e["frames"]) > 6:
            e["frames"] = e["frames"][:6] + ["... %d frames" % len(e["frames"])]
        out.append(e)
    return out
