"""C17 - silent peers are dropped on time, responsive peers never.

M: spec/WsConn.tla with the discrete clock (half seconds) and the batched-timer quantisation floor(now + delay):
   OpenHandshakeDeadline, BoundedClose, PongDeadline, PingLoopAlive, PingTimeoutGuardsPending, NoTimerEffectAfterClosed,
   TimeoutReasonMatchesState, and ASSUME NeverEarlyByMoreThanGranularity (a batched timer fires less than one second
   before its nominal deadline and never after it).
T: profile c17 of the lifecycle driver (time-heavy sequences, auto-ping grids, scenarios starting on whole and half
   seconds): the due time of every timer after every event and the exact tick at which a timeout drops the connection
   must equal the spec's.
"""
from harness import tlc
from harness.props import conn_common


def run(res):
    thorough = res.tier == "thorough"
    r = tlc.run_tlc("MC_WsConn", "MC_WsConn.cfg" if thorough else "MC_WsConn_quick.cfg", workers=16, timeout=3400)
    res.add_model("WsConn", r, require_actions=["AOpened", "APeerPong", "APeerData", "AAdvance"])
    conn_common.run_profile(res, "c17", 3000 if thorough else 700, 6 if thorough else 3, "c17")
    res.extra["rule"] = "one case = one seeded event sequence with clock advances on one endpoint; distinct by (config, event/state sequence)"
    res.assumptions = ["time advances in half-second ticks; reactions are placed on ticks", "timer granularity = txaio batched timer (whole seconds)"]
