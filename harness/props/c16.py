"""C16 - configured payload limits are enforced early and never by truncation.

M: WsRecv (MC_WsRecv: contexts with maxFrame / maxMsg, Header action fails with 1009 before any payload step;
   DeliveredWithinLimits) and WsChannel (MC_WsChannel_limit: OverLimitRefused, RefusedNeverOnWire).
T (receive): messages of size limit-1 / limit / limit+1 / x100 for limits {1,125,126,65535,65536}, frame / message /
   both limits, spread over 1-4 fragments, payload of the offending frame withheld in 30 % of the cases, compression
   on and off (wire sizes counted), both roles and fail modes: WsRecvTrace demands the 1009 failure in the *header*
   event, no delivery, and unaffected delivery of in-limit messages and of the follow-up message.
T (send): pair scenarios (profile c16) where the limited endpoint sends messages around its limit: WsChannelTrace
   demands PayloadExceededError iff over the limit (uncompressed), nothing written for a refused send, and every
   accepted message delivered intact afterwards.
T (decompression limit): see decompress_limit() below.
"""
from harness import common, tlc
from harness.props import c02, chan_common


def run(res):
    thorough = res.tier == "thorough"
    r = tlc.run_tlc("MC_WsRecv", "MC_WsRecv_limits.cfg", workers=16, timeout=1800)
    res.add_model("WsRecv(limits)", r, require_actions=["Header", "Payload"])
    r = tlc.run_tlc("WsChannel", "MC_WsChannel_limit.cfg" if thorough else "MC_WsChannel_limit2.cfg", workers=16, timeout=3400)
    res.add_model("WsChannel(limit)", r, require_actions=["SendMessage", "Pump", "Recv"])
    # receive side
    jobs = []
    for fwn in ("tx", "aio"):
        env = common.driver_env(fw=fwn, seed=res.seed)
        for sh in range(4 if thorough else 1):
            jobs.append(("wsrecv_drv", [], env, dict(mode="limits", limits=[1, 125, 126, 65535, 65536], reps=3 if thorough else 1, shard=sh)))
    outs = common.run_drivers_parallel(jobs)
    traces, meta = [], []
    for o in outs:
        res.count(o["cases"])
        for mm in o["seg_mismatch"]:
            res.classify("segmentation-dependent-%s" % o["fw"], mm)
        for t in o["traces"]:
            traces.append(t)
            meta.append(o["fw"] + "-limits")
    c02.validate(res, traces, meta, "c16recv", lambda t, l: [])
    res.sample(traces[0])
    # send side
    chan_common.run_pair_profile(res, "c16", 400 if thorough else 150, 4 if thorough else 2, label="c16send")
    decompress_limit(res)
    res.extra["rule"] = "one case = one (limit, kind, size, fragment spread, role, fail mode, compression) receive scenario or one send scenario"
    res.assumptions = ["with compression the receive limits are compared with frame (wire) payload sizes",
                       "the send-side check belongs to sendMessage(); the streaming API does not know the total length up front"]


def decompress_limit(res):
    try:
        from harness.props import c16_decomp
    except ImportError:
        res.extra["decompression_limit"] = "not bound yet"
        return
    c16_decomp.run(res)
