"""Shared pieces of C03 / C08: export of the grammar case table from spec/WampMsg.tla, trace validation."""
import json
import os

from harness import common, tlc


def export_table(res):
    out = os.path.join(common.WORK, "wampmsg-%d.json" % os.getpid())
    r = tlc.run_tlc("WampMsgExport", "WampMsgExport.cfg", workers=1, env={"OUT_FILE": out}, coverage=False)
    if not r["ok"] or not os.path.exists(out):
        raise common.MachineryError("WampMsgExport failed:\n" + r["out"][-2500:])
    t = json.load(open(out))
    os.unlink(out)
    if len(t["cases"]) < 3000 or len(t["types"]) != 25:
        raise common.MachineryError("grammar table unexpectedly small")
    res.states += len(t["cases"])
    res.transitions += len(t["cases"])
    res.models.append(dict(model="WampMsg case table", cases=len(t["cases"]), types=len(t["types"]), wall_s=r["wall_s"]))
    return t


def validate(res, traces, label):
    for t in traces:
        res.distinct_key(t)
    v = tlc.validate_traces("WampMsgTrace", "WampMsgTrace.cfg", traces, shards=8, timeout=3000)
    res.traces += v["n"]
    for k, c in v["coverage"].items():
        res.actions["WampMsgTrace:" + k] = res.actions.get("WampMsgTrace:" + k, 0) + c[1]
    for idx, l in v["rejected"][:30]:
        res.classify("%s-%d" % (label, idx), dict(event=traces[idx][0], spec="WampMsgTrace"))
    return v
