"""C20 - end-to-end encrypted payloads are recovered exactly or rejected.

M: spec/E2ee.tla - Expect(direction, keyring layout, fault) for 5 directions (incl. progressive results) x 4 layouts x 4 faults (TLC: NeverAltered,
   FaultNeverSucceeds on all 80 cells).
R/T: every cell x 4 payload shapes is executed with two real sessions (real PyNaCl boxes) joined by a scripted router that
   relays PUBLISH->EVENT, CALL->INVOCATION, YIELD->RESULT, ERROR->ERROR through a real serializer and injects the fault: one
   ciphertext octet altered (every octet position of nonce and body in thorough mode, sampled in quick), a receiver with a
   non-matching key, the ciphertext delivered under the envelope of another equally keyed URI.  E2eeTrace.tla demands:
   ciphertext and no clear args/kwargs on the wire iff the keyring covers the URI, exact recovery without fault, handler /
   endpoint never invoked and calls failing with wamp.error.encryption.* under any fault, both sessions alive.
"""
from harness import common, tlc


def run(res):
    thorough = res.tier == "thorough"
    r = tlc.run_tlc("E2ee", "MC_E2ee.cfg", workers=4)
    res.add_model("E2ee", r)
    jobs = [("e2ee_drv", [], common.driver_env(fw=fwn, seed=res.seed + i), dict(tamper_positions="all" if thorough else 24))
            for i, fwn in enumerate(("tx", "aio"))]
    outs = common.run_drivers_parallel(jobs)
    traces, meta = [], []
    for o in outs:
        res.count(o["cases"])
        for t in o["traces"]:
            traces.append(t)
            meta.append(o["fw"])
            res.distinct_key([o["fw"], t[0]["dir"], t[0]["layout"], t[0]["fault"], t[0]["pos"], t[0]["shape"]])
    v = tlc.validate_traces("E2eeTrace", "E2eeTrace.cfg", traces, shards=8)
    res.traces += v["n"]
    for idx, l in v["rejected"][:25]:
        res.classify("c20-%s-%d" % (meta[idx], idx), dict(fw=meta[idx], event=traces[idx][0], spec="E2eeTrace"))
    keyed_fault = [t for t in traces if t[0]["layout"] != "nokey" and t[0]["fault"] != "none"]
    if len(keyed_fault) < 100:
        raise common.MachineryError("too few fault cases")
    res.sample(traces[0][0])
    res.sample(keyed_fault[0][0])
    res.sample(keyed_fault[-1][0])
    res.exhaustive = thorough
    res.extra["rule"] = "one case = (direction, keyring layout, fault, tamper position, payload shape, framework)"
    res.trusted = ["PyNaCl (libsodium) boxes", "value comparison of recovered payloads in the harness"]
    res.assumptions = ["a RESULT carries no URI of its own, so the envelope-swap fault does not apply to the yield/result direction"]
