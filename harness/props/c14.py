"""C14 - components reconnect within their retry budget and finish exactly once.

M: spec/Component.tla - the reconnect loop, one action per callback (Start, Check = transport_check, Fire = attempt_connect,
   Fail(fatal), Join, Leave, MainFails, Stop); configurations (1..3 transports, max_retries in {-1,0,1,2}, with / without
   main) are chosen in Init so one TLC run covers them all.  TLC: Budget, NoAttemptAfterFatal, PermIsForever, RoundRobin,
   FirstImmediate, RetryWhileBudgetLeft, ExhaustedMeansError, DoneOnce, DoneOkOnlyBy, DoneErrOnlyBy, and the liveness
   property EventuallyDone (finite budgets, every attempt failing, weak fairness: start() completes).
R: behaviours simulated by TLC from that model are turned into per-attempt outcome scripts (refused / transport handshake
   fails / ABORT / joined-then-lost / joined-then-leave / main returns / main raises, classifier verdicts, stop() points)
   and replayed into the real Twisted Component (fake IStreamClientEndpoint provider, task.Clock) and the real asyncio
   Component (stubbed create_connection on the virtual loop) against a scripted router speaking real WebSocket / RawSocket.
T: every run (simulated, enumerated and random scripts; both transport kinds; grids of max_retries / initial / growth /
   jitter / max delay) is logged (start, attempt with virtual delay and the connect_attempts counters, connectfailure with
   the classifier's verdict, joined, left, stop, done, final listener log and counters) and validated by
   ComponentTrace.tla, which applies Component.tla's actions and demands equality with the logged projection.
Known finding F26 (main raises => reconnect, not an error completion) is a deviation action enabled only in the second
pass over rejected traces.
"""
import itertools
import random

from harness import common, tlc

ALPHA = ["refused", "hsfail", "abort", "joined_lost", "joined_leave", "main_returns", "main_raises"]


def tr(kind="websocket", mr=1, initial=1.5, growth=1.5, jitter=0.1, maxdelay=10):
    return dict(kind=kind, max_retries=mr, initial=initial, growth=growth, jitter=jitter, maxdelay=maxdelay)


def script_from_behaviour(beh, rng):
    """TLC behaviour of Component.tla -> scenario for the driver (None if it has nothing to replay)"""
    if len(beh) < 3:
        return None
    st0 = beh[0][1]
    n, mr, has_main = st0["T"], st0["MaxRetries"], st0["HasMain"]
    outcomes, fatal_seq, stop = [], [], None
    cur = None        # outcome under construction for the attempt in flight
    prev_phase = "init"
    for act, st in beh[1:]:
        name = act.split("(")[0]
        if name == "Fire":
            if cur is not None:
                outcomes.append(cur)
            cur = "pending"
        elif name == "Join":
            cur = "joined_idle"
        elif name == "Fail":
            fatal_seq.append(act.endswith("(TRUE)"))
            if cur == "joined_idle":
                cur = "joined_lost"
            else:
                cur = rng.choice(["refused", "hsfail", "abort"])
            outcomes.append(cur)
            cur = None
        elif name == "MainFails":
            fatal_seq.append(act.endswith("(TRUE)"))
            outcomes.append("main_raises")
            cur = None
        elif name == "Leave":
            if stop is None:
                outcomes.append("main_returns" if has_main else "joined_leave")
            else:
                outcomes.append("joined_idle")
            cur = None
        elif name == "Stop":
            if prev_phase == "delay":
                stop = dict(at=len(outcomes) + (1 if cur is not None else 0), point="delay")
            elif prev_phase == "connecting":
                stop = dict(at=len(outcomes), point="connecting")
            elif prev_phase == "joined":
                stop = dict(at=len(outcomes), point="joined")
            else:
                break          # stop() before start / between a failure and the zero-delay re-check: not drivable from outside
        prev_phase = st["phase"]
    if cur is not None:
        outcomes.append("joined_idle" if cur == "joined_idle" else "hang")
    if not outcomes:
        return None
    kinds = [rng.choice(["websocket", "rawsocket"]) for _ in range(n)]
    return dict(transports=[tr(kinds[i], mr[i], initial=rng.choice([0.5, 1.5]), growth=rng.choice([1.0, 1.5, 3.0]),
                               jitter=rng.choice([0.0, 0.1]), maxdelay=rng.choice([1, 2, 10])) for i in range(n)],
                main=("none" if not has_main else rng.choice(["sync", "async"])), fatal="seq", fatal_seq=fatal_seq,
                outcomes=outcomes, stop=stop, seed=rng.randrange(1000), src="tlc")


def enumerated(rng, thorough):
    out = []
    # every outcome sequence up to length 3 (4 in thorough mode) on one transport of each kind, with and without main
    maxlen = 4 if thorough else 3
    for L in range(1, maxlen + 1):
        for seq in itertools.product(ALPHA, repeat=L):
            for main in ("none", "sync"):
                if main == "none" and any(o.startswith("main_") for o in seq):
                    continue
                if main != "none" and "joined_leave" in seq:
                    continue
                # only sequences whose proper prefixes do not already end the component
                if any(o in ("joined_leave", "main_returns") for o in seq[:-1]):
                    continue
                kind = rng.choice(["websocket", "rawsocket"])
                mr = rng.choice([-1, 0, 1, 2, 3])
                out.append(dict(transports=[tr(kind, mr, maxdelay=rng.choice([1, 3, 10]))], main=main, fatal="none",
                                outcomes=list(seq), stop=None, seed=rng.randrange(1000), src="enum"))
    return out


def randomised(rng, n):
    out = []
    for _ in range(n):
        nt = rng.choice([1, 2, 2, 3, 3])
        main = rng.choice(["none", "none", "sync", "async"])
        alpha = [a for a in ALPHA if (main != "none" or not a.startswith("main_")) and (main == "none" or a != "joined_leave")]
        w = [4 if a in ("refused", "hsfail", "abort", "joined_lost") else 1 for a in alpha]
        L = rng.randrange(1, 9)
        seq = rng.choices(alpha, weights=w, k=L)
        stop = None
        if rng.random() < 0.3:
            stop = dict(at=rng.randrange(0, L + 1), point=rng.choice(["delay", "connecting", "joined"]))
        out.append(dict(transports=[tr(rng.choice(["websocket", "rawsocket"]), rng.choice([-1, 0, 1, 2]), initial=rng.choice([0.1, 1.5, 5]),
                                       growth=rng.choice([1.0, 1.5, 4.0]), jitter=rng.choice([0.0, 0.1, 0.3]), maxdelay=rng.choice([1, 2, 10, 300]))
                                    for _ in range(nt)],
                        main=main, fatal=rng.choice(["none", "none", "all", "oserror", "apperror", "main"]), outcomes=seq, stop=stop,
                        seed=rng.randrange(1000), src="random"))
    return out


def run(res):
    thorough = res.tier == "thorough"
    rng = random.Random(res.seed * 7919 + 14)
    for cfg in ("MC_Component.cfg", "MC_Component_dev.cfg", "MC_Component_live.cfg"):      # _live: liveness EventuallyDone under fairness
        r = tlc.run_tlc("MC_Component", cfg, workers=8)
        res.add_model("Component/" + cfg, r)
    sim = tlc.simulate("MC_Component", "MC_Component_dev.cfg", num=(3000 if thorough else 400), depth=24, seed=res.seed + 1)
    if sim["exit"] != 0 or not sim["files"]:
        raise common.MachineryError("TLC simulation failed: " + sim["out"][-400:])
    scen, seen = [], set()
    for text in sim["files"]:
        sc = script_from_behaviour(tlc.parse_behaviour(text), rng)
        if sc is None:
            continue
        key = repr((sc["outcomes"], sc["fatal_seq"], sc["stop"], [t["max_retries"] for t in sc["transports"]], sc["main"] != "none"))
        if key in seen:
            continue
        seen.add(key)
        scen.append(sc)
    res.extra["tlc_behaviours_replayed"] = len(scen)
    scen += enumerated(rng, thorough)
    scen += randomised(rng, 3000 if thorough else 500)
    jobs = []
    nshard = 4
    for fwn in ("tx", "aio"):
        for k in range(nshard):
            jobs.append(("comp_drv", [], common.driver_env(fw=fwn, seed=res.seed), dict(scenarios=scen[k::nshard])))
    outs = common.run_drivers_parallel(jobs)
    traces, meta = [], []
    for o in outs:
        res.count(o["cases"])
        for t in o["traces"]:
            traces.append(t["log"])
            meta.append((o["fw"], t["sc"]))
            res.distinct_key([o["fw"], repr(t["sc"]["outcomes"]), repr(t["sc"]["stop"]), repr([x["max_retries"] for x in t["sc"]["transports"]]),
                              t["sc"]["main"], t["sc"]["fatal"], repr(t["sc"].get("fatal_seq"))])
    v = tlc.validate_traces("ComponentTrace", "ComponentTrace.cfg", traces, shards=8)
    res.traces += v["n"]
    rej = v["rejected"]
    if rej:
        sub = [traces[i] for i, _ in rej]
        v2 = tlc.validate_traces("ComponentTrace", "ComponentTrace_dev.cfg", sub, shards=min(8, len(sub)))
        still = {j for j, _ in v2["rejected"]}
        nviol = 0
        for j, (idx, l) in enumerate(rej):
            fwn, sc = meta[idx]
            log = traces[idx]
            main_raised = any(e["ev"] == "fail" and e.get("kind") == "main_raises" for e in log)
            if j not in still and main_raised:
                res.classify("c14-F26", dict(fw=fwn, scenario=sc, log=log), ["F26"])
            elif nviol < 25:
                nviol += 1
                res.classify("c14-%s-%d" % (fwn, idx), dict(fw=fwn, scenario=sc, rejected_at_line=l, log=log, spec="ComponentTrace",
                                                            accepted_with_deviations=(j not in still)))
    else:
        kinds = {}
        for t in traces:
            for e in t:
                kinds[e["ev"]] = kinds.get(e["ev"], 0) + 1
        for k in ("attempt", "fail", "joined", "left", "stop", "done", "end"):
            if kinds.get(k, 0) < 20:
                raise common.MachineryError("vacuous: too few %s events: %s" % (k, kinds))
    res.sample(dict(scenario=meta[0][1], log=traces[0][:6]))
    res.sample(dict(scenario=meta[-1][1], log=traces[-1][:6]))
    res.exhaustive = False
    res.extra["rule"] = "one case = one scripted run of a real Component (framework, transports, outcome script, classifier, stop point)"
    res.trusted = ["the scripted router (harness/wamprouter.py)", "virtual time (task.Clock / VLoop)"]
    res.assumptions = ["stop() is injected while a delay is pending, while a connection is being established and on a joined session; "
                       "the zero-delay window between a failure and the next transport_check is not reachable from outside",
                       "delays are measured in virtual time between the connectfailure notification (or start) and the attempt"]
