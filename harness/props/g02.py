"""G02 (growth, not a listed property) - autobahn.util.ObservableMixin: on / off / fire with a parent.

M: spec/Observable.tla (TLC: ErrorsChangeNothing, OnlyFireCalls, ParentStaysAtParent, OwnBeforeParent).
T: random operation sequences on real objects (child + parent, three events, synchronous and asynchronous handlers, invalid
   event names, every off() form) on both frameworks; ObservableTrace.tla applies the operators and demands the same handler
   calls, errors and listener tables after every step.
The model keeps one behaviour of the code that looks unintended (recorded in DESIGN 13.3): an object whose listener table was
never created fires nothing, not even its parent's listeners.
"""
from harness import common, tlc


def run(res):
    r = tlc.run_tlc("Observable", "MC_Observable.cfg", workers=4)
    res.add_model("Observable", r)
    n = 3000 if res.tier == "thorough" else 600
    outs = common.run_drivers_parallel([("obs_drv", [], common.driver_env(fw=f, seed=res.seed + i), dict(n=n)) for i, f in enumerate(("tx", "aio"))])
    traces, meta = [], []
    for o in outs:
        res.count(o["cases"])
        for t in o["traces"]:
            traces.append(t)
            meta.append(o["fw"])
            res.distinct_key([o["fw"], repr([(e["ev"], e["o"], e["e"], e["h"]) for e in t])])
    v = tlc.validate_traces("ObservableTrace", "ObservableTrace.cfg", traces, shards=4)
    res.traces += v["n"]
    for idx, l in v["rejected"][:20]:
        res.classify("g02-%s-%d" % (meta[idx], idx), dict(fw=meta[idx], rejected_at=l, trace=traces[idx][:l], spec="ObservableTrace"))
    res.sample(traces[0][:3])
    res.exhaustive = False
    res.trusted = ["handler identity bookkeeping in the driver"]
    res.assumptions = ["growth check: not one of the 20 listed properties, not in MANIFEST.json"]
