"""C15, last clause: by default every frame a client sends is masked with a per-frame key, server frames are not."""
from harness.props import chan_common


def run(res):
    traces, policy = chan_common.run_pair_profile(res, "c15", 150 if res.tier == "thorough" else 60, 2, label="c15policy")
    cm = sum(p["client_masked"] for p in policy)
    cu = sum(p["client_unmasked"] for p in policy)
    sm = sum(p["server_masked"] for p in policy)
    su = sum(p["server_unmasked"] for p in policy)
    res.extra["mask_policy"] = dict(client_masked=cm, client_unmasked=cu, server_masked=sm, server_unmasked=su,
                                    judged_by="WsChannelTrace: Masked(h) = opt.mask[w] with default options, key runs < 3")
    if cm == 0 or su == 0:
        from harness import common
        raise common.MachineryError("mask policy scenarios produced no frames (vacuous)")
