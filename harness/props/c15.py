"""C15 - frame masking is exact XOR with the running key in every implementation.

M: spec/XorMask.tla (RunningXor, PointerCounts, Involution over all chunkings of small payloads).
T: every masker implementation (pure-Python simple / shifted / factory, NVX scalar / SSE2 / factory through the
   wrapper, NVX scalar / SSE2 through lib.nvx_xormask_process on buffers with every 16-byte alignment, all rebuilt
   from /repo) is driven through the grids of DESIGN section 5/C15; inputs are defined in the spec, outputs and
   pointer() are logged, and TLC (XorMaskTrace.tla) recomputes every XOR.
   The default mask policy (client frames masked with per-frame keys, server frames unmasked) is validated on
   frames written by real default-configured endpoints (ws pair harness) by decoding headers in TLC (WsFrame).
"""
from harness import common, tlc

PY_IMPLS = ["py_simple", "py_shifted", "py_factory"]
NVX_IMPLS = ["nvx_scalar", "nvx_sse2", "nvx_factory", "nvx_raw1", "nvx_raw2"]


def run(res):
    thorough = res.tier == "thorough"
    r = tlc.run_tlc("XorMask", "MC_XorMask.cfg", workers=16)
    res.add_model("XorMask", r, require_actions=["Process"])
    nvx_dir = common.build_nvx()
    jobs = []
    for impl in PY_IMPLS + NVX_IMPLS:
        nvx = impl.startswith("nvx")
        env = common.driver_env(nvx=nvx, nvx_dir=nvx_dir if nvx else None, seed=res.seed)
        for mode in ("grid", "split", "random"):
            jobs.append(("xor_drv", [impl, mode, res.tier], env, None))
    outs = common.run_drivers_parallel(jobs)
    traces, origin = [], []
    for o in outs:
        if o["impl"].startswith("nvx") and not o["file"].startswith(nvx_dir):
            raise common.MachineryError("NVX masker not loaded from rebuilt sources: " + o["file"])
        res.extra.setdefault("per_impl", {}).setdefault(o["impl"], {})[o["mode"]] = len(o["traces"])
        for t in o["traces"]:
            traces.append(t)
            origin.append(o["impl"] + "/" + o["mode"])
    res.count(len(traces))
    for t in traces:
        res.distinct_key(t)
    # big traces last so shards balance: sort by size and deal round-robin
    order = sorted(range(len(traces)), key=lambda i: -sum(len(e.get("out", ())) for e in traces[i]))
    shards = 16
    dealt = [order[k::shards] for k in range(shards)]
    flat = [i for d in dealt for i in d]
    tr2 = [traces[i] for i in flat]
    v = tlc.validate_traces("XorMaskTrace", "XorMaskTrace.cfg", tr2, shards=shards, heap="2g", timeout=3000)
    res.traces += v["n"]
    res.actions.update({"XorMaskTrace:" + k: c[1] for k, c in v["coverage"].items()})
    for idx, l in v["rejected"][:20]:
        i = flat[idx]
        t = traces[i]
        res.classify("%s-trace-%d" % (origin[i].replace("/", "-"), i),
                     dict(impl=origin[i], trace=_shorten(t), rejected_at=l, spec="XorMaskTrace"))
    res.sample(dict(impl=origin[0], trace=_shorten(traces[0])))
    res.sample(dict(impl=origin[len(traces) // 2], trace=_shorten(traces[len(traces) // 2])))
    res.extra["rule"] = "one trace = one masker object driven through new/process*/reset; distinct by full event content"
    res.extra["octets_recomputed_by_tlc"] = sum(len(e.get("out", ())) for t in traces for e in t)
    res.exhaustive = thorough
    res.trusted = ["TLC CommunityModules Bitwise (^^)", "cffi/gcc rebuild of _xormasker.c"]
    res.assumptions = ["alignment is controlled through lib.nvx_xormask_process(buf + a) because the Python wrapper always allocates a fresh (aligned) buffer"]
    mask_policy(res)


def mask_policy(res):
    try:
        from harness.props import c15_policy
    except ImportError:
        res.extra["mask_policy"] = "not yet bound (ws pair harness pending)"
        return
    c15_policy.run(res)


def _shorten(t):
    out = []
    for e in t[:6]:
        e = dict(e)
        for k in ("out", "data"):
            if k in e and len(e[k]) > 24:
                e[k] = e[k][:24] + ["... %d octets" % len(e[k])]
        out.append(e)
    return out
