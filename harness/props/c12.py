"""C12 - per-message compression is lossless and negotiated soundly.

M: spec/Pmce.tla - the complete permessage-deflate lattice (64 offers x 384 accepts x 24 response-accepts; 117 454 states):
   InvResponseWithinOffer, InvDirectionCompatible (decompressor window >= compressor window, decompressor resets only
   if the compressor does, equality without local overrides).
R: every (offer, accept) pair (quick: every 6th) is replayed through the real PerMessageDeflateOffer / OfferAccept /
   Response / ResponseAccept / PerMessageDeflate classes via the real extension header strings, with all 24
   response-accepts; PmceTrace.tla demands raises <=> ~AcceptValid, the parsed response, and the effective parameters of
   both PerMessageDeflate objects.  The client handshake is run on responses with every extension fault (unknown
   extension, repeated / two different PMCEs, unknown / duplicated / out-of-range / malformed parameters, declined by
   policy): it must fail, and open (compressed) only without fault.
T: pair scenarios with compression always negotiated (deflate parameter grid, bzip2, brotli; vocabulary payloads reusing
   context; doNotCompress; all send APIs; fragment sizes; boundary cuts) validated by WsChannelTrace (RSV1 exactly on the
   first frame of a compressed message, never for doNotCompress; identical delivery).
   Compressed control frames / RSV1 on continuation are cells of C02's decision table in the compress contexts.
"""
from harness import common, tlc
from harness.props import chan_common


def run(res):
    thorough = res.tier == "thorough"
    r = tlc.run_tlc("Pmce", "MC_Pmce.cfg", workers=16, timeout=1800)
    res.add_model("Pmce", r, require_actions=["ChooseAccept", "ChooseCAccept"])
    stride = 1 if thorough else 6
    jobs = []
    nj = 8
    for j in range(nj):
        jobs.append(("pmce_drv", [], common.driver_env(fw="tx" if j % 2 == 0 else "aio", seed=res.seed),
                     dict(mode="lattice", stride=stride * nj, offset=(res.seed % stride) * nj + j)))
    for fwn in ("tx", "aio"):
        jobs.append(("pmce_drv", [], common.driver_env(fw=fwn, seed=res.seed), dict(mode="hs")))
    outs = common.run_drivers_parallel(jobs)
    traces = []
    for o in outs:
        res.count(o["cases"])
        traces += o["traces"]
    for t in traces:
        res.distinct_key(t[0])
    v = tlc.validate_traces("PmceTrace", "PmceTrace.cfg", traces, shards=8, timeout=3000)
    res.traces += v["n"]
    for k, c in v["coverage"].items():
        res.actions["PmceTrace:" + k] = c[1]
    for idx, l in v["rejected"][:25]:
        t = traces[idx]
        res.classify("c12-negotiation-%d" % idx, dict(first=t[0], rejected_event=t[l - 1] if l <= len(t) else None, rejected_at=l, spec="PmceTrace"))
    for a in ("TAccept", "TCAccept", "THs"):
        if res.actions.get("PmceTrace:" + a, 0) == 0:
            raise common.MachineryError("vacuity: %s never taken" % a)
    res.sample(traces[0][:3])
    res.sample(traces[-1])
    chan_common.run_pair_profile(res, "c12", 400 if thorough else 150, 4 if thorough else 2, label="c12msg")
    res.extra["rule"] = "one case = one (offer, accept) lattice point with its 24 response-accepts, one handshake fault, or one pair scenario"
    res.extra["extensions_exercised"] = ["permessage-deflate", "permessage-bzip2", "permessage-brotli"]
    res.assumptions = ["permessage-snappy is not installed in this image and is not exercised",
                       "client_no_context_takeover in an offer is a hint only (RFC 7692 7.1.1.2): a server may always request it"]
    res.trusted = ["zlib / bz2 / brotli libraries", "byte comparison of payloads in the harness"]
