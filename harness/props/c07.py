"""C07 - the opening handshake admits exactly the valid peers and never crashes.

M: spec/WsHandshake.tla - ServerOpens / ClientOpens over request / response FEATURES; TLC enumerates every case with at
   most two faulty features (718 requests, 135 responses), checks TablesSane and exports the tables.
R: every exported case is concretised into octets (header-name case, optional whitespace, header order, benign
   variants) and fed to a real server (4 configurations: any / listed origins, null origin allowed or not, connection
   limit reached, webStatus) or a real client, whole / byte-wise / randomly cut, with trailing frame octets in the same
   read in part of the cases; observed: state, status code, Sec-WebSocket-Accept (digest recomputed with hashlib),
   selected subprotocol, extensions, transport drop, escaping exception.  WsHandshakeTrace re-judges each outcome.
   Client request construction for 9 URLs x 3 spec versions; the own client x own server matrix (spec versions 10-18 x
   server version sets x subprotocol lists x extra headers x deflate offers).
T: arbitrary and mutated octet strings (random, bit flips, truncation, 200 kB headers, non-ASCII, NUL, a required header
   deleted, hostile redirect/after query strings) on both roles: NoEscape, no half state, mutations that destroy a
   required element never open.
"""
import json
import os

from harness import common, tlc


def export_tables():
    out = os.path.join(common.WORK, "hs-%d.json" % os.getpid())
    r = tlc.run_tlc("WsHandshakeExport", "WsHandshakeExport.cfg", workers=1, env={"OUT_FILE": out}, coverage=False)
    if not r["ok"] or not os.path.exists(out):
        raise common.MachineryError("WsHandshakeExport failed:\n" + r["out"][-2000:])
    t = json.load(open(out))
    os.unlink(out)
    return t, r


def run(res):
    thorough = res.tier == "thorough"
    tab, r = export_tables()
    # the tables are the exhaustive model: count them as explored states
    res.states += len(tab["req"]) + len(tab["resp"])
    res.transitions += len(tab["req"]) * 4 + len(tab["resp"])
    res.models.append(dict(model="WsHandshake tables", requests=len(tab["req"]), responses=len(tab["resp"]), wall_s=r["wall_s"]))
    if len(tab["req"]) < 500 or len(tab["resp"]) < 100:
        raise common.MachineryError("handshake tables unexpectedly small")
    jobs = []
    fws = ("tx", "aio")
    ns = 4
    for i, fwn in enumerate(fws):
        env = common.driver_env(fw=fwn, seed=res.seed)
        for sh in range(ns):
            if thorough or sh % 2 == i:          # quick: each framework takes half of the table
                jobs.append(("wshs_drv", [], env, dict(mode="server", table=tab["req"], shard=sh, nshards=ns)))
        jobs.append(("wshs_drv", [], env, dict(mode="client", table=tab["resp"], shard=0, nshards=1)))
        jobs.append(("wshs_drv", [], env, dict(mode="creq")))
        jobs.append(("wshs_drv", [], env, dict(mode="limit", reps=40 if thorough else 12, shard=11)))
        jobs.append(("wshs_drv", [], env, dict(mode="pair", shard=7)))
        for k in range(4 if thorough else 1):
            jobs.append(("wshs_drv", [], env, dict(mode="fuzz", n=3000 if thorough else 800, shard=20 + k)))
    outs = common.run_drivers_parallel(jobs)
    traces, meta = [], []
    for (m, a, e, inp), o in zip(jobs, outs):
        res.count(o["cases"])
        for t in o["traces"]:
            traces.append(t)
            meta.append(o["fw"] + "-" + inp["mode"])
    for t in traces:
        res.distinct_key(t)
    v = tlc.validate_traces("WsHandshakeTrace", "WsHandshakeTrace.cfg", traces, shards=8, timeout=3000)
    res.traces += v["n"]
    for k, c in v["coverage"].items():
        res.actions["WsHandshakeTrace:" + k] = c[1]
    for idx, l in v["rejected"][:30]:
        res.classify("c07-%s-%d" % (meta[idx], idx), dict(origin=meta[idx], event=traces[idx][0], spec="WsHandshakeTrace"))
    for a in ("TSReq", "TCResp", "TCReq", "TPair", "TFuzz"):
        if res.actions.get("WsHandshakeTrace:" + a, 0) == 0:
            raise common.MachineryError("vacuity: %s never taken" % a)
    res.sample(traces[0][0])
    res.sample([t for t, m in zip(traces, meta) if m.endswith("client")][0][0])
    res.sample([t for t, m in zip(traces, meta) if m.endswith("fuzz")][0][0])
    res.exhaustive = True
    res.extra["rule"] = "one case = one concretised request/response of the exported tables under one configuration and segmentation, one URL, one option-matrix cell, or one fuzz input"
    res.trusted = ["hashlib.sha1 / base64 for the accept digest", "the concretisation tables of harness/drivers/wshs_drv.py"]
    res.assumptions = ["an onConnect() result naming a subprotocol the client did not list is application misuse: the handshake may be ended by the opening-handshake timer instead of an immediate HTTP error",
                       "proxy CONNECT and Flash policy branches are not exercised"]
