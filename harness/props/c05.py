"""C05 - WebSocket connections close exactly once, in order, and in bounded time.

M: spec/WsConn.tla (MC_WsConn): every sequence of <= 5 (thorough 6) events over {handshake done, local close, local send x4
   APIs, peer close x3 codes, peer data / ping / pong, peer violation, transport loss, clock advance with timers firing in
   every order} for both roles x failByDrop x timeout settings x auto-ping settings: ForwardOnly, OnCloseAtMostOnce,
   OnCloseOnlyAfterTransportGone, OnCloseWhenTransportGone, NothingWrittenAfterOnClose, AtMostOneCloseFrame,
   NoDataAfterCloseFrame, CleanOnlyIfBothCloseFrames, UncleanIs1006, ClosingIsGuarded, BoundedClose, ...
T: seeded random event sequences on a real endpoint (both roles, both frameworks, virtual time) with the complete projection
   (state, flags, frames written by kind, drop, onClose log, due time of each timer) recorded after every event;
   WsConnTrace.tla applies the spec operator of each event and demands equality, plus legality of every close frame.
"""
from harness import tlc
from harness.props import conn_common


def run(res):
    thorough = res.tier == "thorough"
    r = tlc.run_tlc("MC_WsConn", "MC_WsConn.cfg" if thorough else "MC_WsConn_quick.cfg", workers=16, timeout=3400)
    res.add_model("WsConn", r, require_actions=["AOpened", "ALocalClose", "ALocalSend", "APeerClose", "APeerViolation", "AConnLost", "AAdvance"])
    conn_common.run_profile(res, "c05", 3000 if thorough else 700, 6 if thorough else 3, "c05")
    res.extra["rule"] = "one case = one seeded event sequence (3-25 events) on one endpoint; distinct by (config, event/state sequence)"
    res.trusted = ["harness frame splitter; reading of the protocol object's bookkeeping attributes and pending delayed calls"]
    res.assumptions = ["a peer sends at most one close frame", "peer violations are injected as reserved control opcodes",
                       "invalid peer close payloads are judged by C02 (WsRecv), not here"]
