"""Shared runner for endpoint-lifecycle scenarios validated by WsConnTrace.tla (C05, C17)."""
from harness import common, tlc


def run_profile(res, profile, n_per_job, jobs_per_fw, label):
    jobs = []
    for fwn in ("tx", "aio"):
        env = common.driver_env(fw=fwn, seed=res.seed)
        for sh in range(jobs_per_fw):
            jobs.append(("wsconn_drv", [], env, dict(n=n_per_job, shard=sh + (0 if fwn == "tx" else 500), profile=profile)))
    outs = common.run_drivers_parallel(jobs)
    traces, meta = [], []
    for o in outs:
        res.count(o["cases"])
        base = len(traces)
        for t in o["traces"]:
            traces.append(t)
            meta.append(o["fw"])
        for pr in o["problems"]:
            res.classify("%s-%s-%s" % (label, o["fw"], pr["problem"][:40]), dict(problem=pr["problem"], fw=o["fw"], trace=traces[base + pr["trace_index"]]))
    for t in traces:
        res.distinct_key([(e["ev"], e.get("api"), e.get("rc"), e["obs"]["st"]) for e in t] + [t[0]["cfg"]])
    v = tlc.validate_traces("WsConnTrace", "WsConnTrace.cfg", traces, shards=8, timeout=3000)
    res.traces += v["n"]
    for k, c in v["coverage"].items():
        res.actions["WsConnTrace:" + k] = res.actions.get("WsConnTrace:" + k, 0) + c[1]
    for idx, l in v["rejected"][:25]:
        t = traces[idx]
        res.classify("%s-%s-trace-%d" % (label, meta[idx], idx),
                     dict(fw=meta[idx], cfg=t[0]["cfg"], events=[(e["ev"], e.get("api", e.get("rc", ""))) for e in t[:l]],
                          before=t[l - 2]["obs"] if l >= 2 else None, rejected_event=t[l - 1] if l <= len(t) else None,
                          trace=t, rejected_at=l, spec="WsConnTrace"))
    need = {"TOpened", "TLClose", "TLBurst", "TPCloseData", "TLSend", "TPClose", "TPData", "TPPing", "TPPong", "TPViol", "TLost", "TAdv"}
    missing = [a for a in need if res.actions.get("WsConnTrace:" + a, 0) == 0]
    if missing and not v["rejected"]:
        raise common.MachineryError("vacuity: trace actions never taken: %s" % missing)
    res.sample(dict(cfg=traces[0][0]["cfg"], events=[(e["ev"], e["obs"]["st"]) for e in traces[0]]))
    res.sample(traces[1][:4])
    return traces
