"""C01 - WebSocket messages arrive intact, exactly once and in order.

M: spec/WsChannel.tla (MC_WsChannel): sendMessage with the exact fragmentation loop, streaming API, sendData's
   queueing discipline (sync / chopped / queue non-empty => enqueue), the _send pump and a piece-wise receiver, for 2
   (thorough: 3) messages of 0..3 payload units, fragment sizes {none,1,2}, chop {none,1,2}: WirePiecesInOrder,
   WireWellFormed (Framing grammar), InOrderExactlyOnce, NothingInvented, ReceiverNeverFails, AllDeliveredWhenQuiet
   and the liveness property EventuallyDelivered under fair Pump/Recv.
T: a real client and a real server (Twisted and asyncio) joined by an in-memory pipe run seeded random scenarios over
   the message / frame / streaming / prepared-message APIs, option grids (masking options, applyMask, autoFragmentSize,
   utf8 validation, compression, sync) with payload lengths across 0/125/126/65535/65536 and boundary-aware read cuts;
   WsChannelTrace.tla decodes every written frame header and runs the same Framing grammar, and checks that every
   delivery is the next fully written message of the peer with identical type, length and bytes, and that all
   accepted messages are delivered at the end.
"""
from harness import common, tlc
from harness.props import chan_common


def run(res):
    thorough = res.tier == "thorough"
    r = tlc.run_tlc("WsChannel", "MC_WsChannel3.cfg" if thorough else "MC_WsChannel.cfg", workers=16, timeout=3400)
    res.add_model("WsChannel", r, require_actions=["SendMessage", "BeginMessage", "BeginFrame", "FrameData", "EndMessage", "Pump", "Recv"])
    chan_common.run_pair_profile(res, "c01", 400 if thorough else 120, 8 if thorough else 4)
    res.extra["rule"] = "one case = one seeded scenario (2-9 API / network steps + drain) on one framework; distinct by recorded trace"
    res.trusted = ["harness frame splitter (structural; TLC re-decodes headers)", "byte comparison of delivered payloads (`same`)"]
    res.assumptions = ["option pairs are compatible as documented (DESIGN 5/C01 notes)", "payload lengths >= 2^31 not executed",
                       "prepared messages are not combined with the benchmark-only applyMask=False option"]
