"""C04 - see DESIGN.md 5/C04.  spec/WampSession.tla (TLC: all histories up to the bound) + seeded random histories of a real
ApplicationSession on Twisted Deferreds and asyncio Futures validated by spec/WampSessionTrace.tla (profile "c04")."""
from harness.props import sess_common


def run(res):
    thorough = res.tier == "thorough"
    sess_common.run_profile(res, "c04", 2500 if thorough else 700, 6 if thorough else 3, "c04",
                            "MC_WampSession_deep.cfg" if thorough else "MC_WampSession.cfg")
