"""C19 - authentication signatures interoperate and SCRAM mutual authentication is enforced.

M: spec/Auth.tla - symbolic WAMP-SCRAM exchange (client view / server view of authid, nonces, salt, cost parameters, channel
   binding, password; an adversary may alter any one field on the way or forge the signature).  TLC: the client accepts only a
   server signature over exactly its own view (AcceptOnlyIfServerSigValid), any alteration is detected (AnyAlterationDetected),
   the honest run succeeds (HonestRunSucceeds).
T: the real AuthScram / AuthWampCra / AuthCryptoSign authenticators and compute_totp / check_totp / pbkdf2 / derive_key /
   compute_wcs / util.xor are run against an independent server built from hashlib, hmac, argon2.low_level and
   cryptography's Ed25519 (none of autobahn's code), over generated secrets (incl. non-ASCII), salts, cost parameters, key
   lengths, challenges and channel ids, the RFC 6238 / 6070 / 7914 / 8032 vectors, every field alteration and every single-bit
   alteration of the server signature (all 256 in thorough mode).  AuthTrace.tla judges each exchange with Auth.tla's rule.
"""
from harness import common, tlc


def run(res):
    thorough = res.tier == "thorough"
    r = tlc.run_tlc("Auth", "MC_Auth.cfg", workers=4)
    res.add_model("Auth", r)
    jobs = [("auth_drv", [], common.driver_env(fw=fwn, seed=res.seed + i), dict(thorough=thorough)) for i, fwn in enumerate(("tx", "aio"))]
    outs = common.run_drivers_parallel(jobs)
    traces, meta = [], []
    for o in outs:
        res.count(o["cases"])
        for t in o["traces"]:
            traces.append(t)
            meta.append(o["fw"])
            e = t[0]
            res.distinct_key([o["fw"], e["ev"], e.get("kdf"), e.get("alter"), e.get("step"), e.get("t"), e.get("salted"), e.get("keylen"), e.get("binding"), e.get("name"), e.get("it"), e.get("pwlen"), e.get("hf")])
    v = tlc.validate_traces("AuthTrace", "AuthTrace.cfg", traces, shards=4)
    res.traces += v["n"]
    for idx, l in v["rejected"][:25]:
        res.classify("c19-%s-%d" % (meta[idx], idx), dict(fw=meta[idx], event=traces[idx][0], spec="AuthTrace"))
    if not v["rejected"]:
        kinds = {}
        for t in traces:
            kinds[t[0]["ev"]] = kinds.get(t[0]["ev"], 0) + 1
        for k, n in (("scram", 200), ("cra", 100), ("totp", 100), ("csign", 20), ("kdf", 50), ("vec", 10)):
            if kinds.get(k, 0) < n:
                raise common.MachineryError("too few %s cases: %s" % (k, kinds))
        neg = [t for t in traces if t[0]["ev"] == "scram" and t[0]["alter"] != "none" and not t[0]["obs"]["accepted"]]
        pos = [t for t in traces if t[0]["ev"] == "scram" and t[0]["alter"] == "none" and t[0]["obs"]["accepted"]]
        if len(neg) < 100 or len(pos) < 10:
            raise common.MachineryError("vacuous scram set")
        res.sample(pos[0][0])
        res.sample(neg[0][0])
    res.sample(traces[-1][0])
    res.exhaustive = False
    res.extra["rule"] = "one case = one exchange / function evaluation with a distinct (method, parameters, alteration, framework)"
    res.trusted = ["hashlib, hmac, argon2-cffi low_level, cryptography Ed25519 as the independent verifier", "the in-harness RFC 6238 reference (self-checked against the RFC vectors)"]
    res.assumptions = ["WAMP-SCRAM with Argon2id uses the unpadded base64 text of the Argon2 tag as salted password (the convention of this library's derive_scram_credential and of Crossbar.io), as the draft does not define it otherwise",
                       "check_totp is not exercised for clock values below 30 s after the epoch"]
