"""C02 - incoming byte streams are judged exactly as RFC 6455 prescribes.

M: spec/WsRecv.tla (MC_WsRecv): all sequences of Header/Payload steps over a 704-header x 14-payload alphabet in
   48 (quick: 8) receiver contexts, checking NoDeliveryOnceFailed, NothingAfterClosed, ForwardOnly, FailCodes,
   FailByDropNeverSendsClose, AtMostOneCloseFrame, PongEchoesPing, DeliveredWithinLimits.
R/T: every one of the 65 536 values of the first two header octets, completed minimally, is fed to a fresh real
   endpoint in each receiver context (role x failByDrop x compression x {open, closing, inside a message}) whole,
   byte-wise (1/16 sample) and coalesced; generated valid / near-valid frame sequences likewise in four
   segmentations.  The per-step observable reaction is recorded and WsRecvTrace.tla recomputes the verdict.
"""
import itertools

from harness import common, tlc


def contexts(thorough, seed):
    allc = []
    for role, fbd, comp, pre in itertools.product(["server", "client"], [True, False], [False, True], ["open", "closing", "inside"]):
        allc.append(dict(role=role, failByDrop=fbd, compress=comp, pre=pre, maxFrame=0, maxMsg=0))
    # compression negotiated, but the fragmented message the cell falls into is not compressed
    plain = [dict(role=role, failByDrop=fbd, compress=True, pre="insideplain", maxFrame=0, maxMsg=0) for role in ("server", "client") for fbd in (True, False)]
    if thorough:
        return allc + plain
    # quick: 3 of the 24 contexts covering every value of every factor, rotated by seed
    picks = [[("server", True, False, "open"), ("client", False, False, "inside"), ("server", False, True, "closing")],
             [("client", True, True, "open"), ("server", False, False, "inside"), ("client", False, False, "closing")],
             [("server", True, True, "inside"), ("client", False, True, "open"), ("client", True, False, "closing")],
             [("client", True, True, "inside"), ("server", False, False, "open"), ("server", True, True, "closing")]]
    sel = picks[seed % 4]
    # ... plus, of that fourth kind of context, the cells with RSV1 set
    return [c for c in allc if (c["role"], c["failByDrop"], c["compress"], c["pre"]) in sel] + [dict(plain[seed % 4], b0_filter="rsv1")]


def validate(res, traces, meta, label, finding_fn):
    for t in traces:
        res.distinct_key(t)
    v = tlc.validate_traces("WsRecvTrace", "WsRecvTrace.cfg", traces, shards=8, timeout=3000)
    res.traces += v["n"]
    for k, c in v["coverage"].items():
        res.actions["WsRecvTrace:" + k] = res.actions.get("WsRecvTrace:" + k, 0) + c[1]
    shown = 0
    for idx, l in v["rejected"]:
        t = traces[idx]
        keys = finding_fn(t, l)
        r = res.classify("%s-%s-%d" % (label, meta[idx], idx),
                         dict(fw=meta[idx], trace=t, rejected_at=l, event=t[l - 1] if l <= len(t) else None, spec="WsRecvTrace"), keys) \
            if (shown < 25 or keys) else None
        if r == "violation":
            shown += 1
    return v


def finding_keys(t, l):
    """specific, narrow signatures of recorded known findings (see known_findings.json)"""
    return []


def run(res):
    thorough = res.tier == "thorough"
    r = tlc.run_tlc("MC_WsRecv", "MC_WsRecv.cfg" if thorough else "MC_WsRecv_quick.cfg", workers=16, timeout=1800)
    res.add_model("WsRecv", r, require_actions=["Header", "Payload", "AfterFailure", "AfterClosed", "LocalClose"])
    ctxs = contexts(thorough, res.seed)
    fws = ["tx", "aio"]
    jobs = []
    for fwn in (fws if thorough else [fws[res.seed % 2]]):
        env = common.driver_env(fw=fwn, seed=res.seed)
        for sh in range(16):
            jobs.append(("wsrecv_drv", [], env, dict(mode="table", ctxs=ctxs, b0_range=[sh * 16, sh * 16 + 16], shard=sh, bytes_every=16)))
    seq_ctx = [dict(c, pre=p) for c in contexts(True, 0) if c["pre"] == "open" for p in ("open", "closing")]
    seq_ctx += [dict(c, autoping=True) for c in seq_ctx if c["pre"] == "open"]
    for fwn in fws:
        env = common.driver_env(fw=fwn, seed=res.seed)
        for sh in range(4 if thorough else 2):
            jobs.append(("wsrecv_drv", [], env, dict(mode="seq", ctxs=seq_ctx, n=5000 if thorough else 500, shard=100 + sh)))
    import time
    t0 = time.time()
    outs = common.run_drivers_parallel(jobs)
    res.extra["t_drivers_s"] = round(time.time() - t0, 1)
    traces, meta = [], []
    for (m, a, e, inp), o in zip(jobs, outs):
        res.count(o["cases"])
        for mm in o["seg_mismatch"]:
            res.classify("segmentation-dependent-%s" % o["fw"], mm)
        for t in o["traces"]:
            traces.append(t)
            meta.append(o["fw"] + "-" + inp["mode"])
    res.extra["contexts"] = ctxs
    res.extra["table_cells_per_context"] = 65536
    t0 = time.time()
    validate(res, traces, meta, "c02", finding_keys)
    res.extra["t_tlc_traces_s"] = round(time.time() - t0, 1)
    res.sample(traces[0])
    res.sample(traces[len(traces) // 2])
    res.sample(traces[-1])
    res.exhaustive = True
    res.extra["rule"] = ("one case = one (context, b0, b1) cell or one generated frame sequence; each case is executed in 2-4 read "
                         "segmentations; distinct = distinct recorded traces")
    res.trusted = ["harness frame splitter (structural only; TLC re-decodes every written header)", "zlib for the minimal deflate completions"]
    res.assumptions = ["frames after a peer close frame / after the first violation are only judged for 'nothing delivered, no second close frame'",
                       "close codes 1012-1014 (IANA, later than the RFC): either verdict accepted"]
