"""C06 - see DESIGN.md 5/C06.  spec/WampSession.tla (TLC: all histories up to the bound) + seeded random histories of a real
ApplicationSession on Twisted Deferreds and asyncio Futures validated by spec/WampSessionTrace.tla (profile "c06"), plus one
session life (joined, call pending, then transport lost cleanly / uncleanly / GOODBYE) on each of the four real transports and
three serializers (WampSessionTrace.TLifeReal)."""
from harness import common, tlc
from harness.props import sess_common


def real_lives(res):
    outs = common.run_drivers_parallel([("invreal_drv", [], common.driver_env(fw=f, seed=res.seed), dict(mode="life")) for f in ("tx", "aio")])
    traces, meta = [], []
    for o in outs:
        res.count(o["cases"])
        for t in o["traces"]:
            traces.append(t)
            meta.append(o["fw"])
            res.distinct_key([o["fw"], "life", t[0]["kind"], t[0]["ser"], t[0]["how"]])
    v = tlc.validate_traces("WampSessionTrace", "WampSessionTrace.cfg", traces, shards=2)
    res.traces += v["n"]
    for idx, l in v["rejected"][:20]:
        res.classify("c06-life-%s-%d" % (meta[idx], idx), dict(fw=meta[idx], event=traces[idx][0], spec="WampSessionTrace.TLifeReal"))
    if len(traces) < 30:
        raise common.MachineryError("too few real-transport session lives")


def run(res):
    thorough = res.tier == "thorough"
    sess_common.run_profile(res, "c06", 2500 if thorough else 700, 6 if thorough else 3, "c06",
                            "MC_WampSession_deep.cfg" if thorough else "MC_WampSession.cfg")
    real_lives(res)
