"""C13 - WAMP transports attach a session only after valid negotiation and fail closed.

M: spec/WampTransportRules.tla (RawSocket handshake verdicts in both roles, accept / refuse replies, length limits, WebSocket
   subprotocol choice) and spec/WampTransport.tla (two ends, a channel that may alter handshake octets, attachment, length-
   framed messages, over-limit sends and frames, injected invalid frames, loss).  TLC: AttachOnlyIfValid, SameSerializer,
   InOrderIntact, NeverOverLimit, ToldOnce, NoDeliveryUnlessOpen, RefusedNeverOpens.
R/T: (1) every value of RawSocket handshake octets 1-2 (all 2^16 in thorough mode, a stride in quick mode, always all values of
   octet 2 with the right magic) plus non-zero reserved octets, in both roles, on Twisted and asyncio, under five
   segmentations, against the real protocol classes; (2) pairs of ordered serializer lists (all ordered subsets of
   json / msgpack / cbor / ubjson and batched variants) through a real WebSocket client / server pair; (3) the message phase:
   a real RawSocket end against a scripted peer with every announced limit 2^9..2^24 and serialised lengths limit-1 / limit /
   limit+1 in both directions (over-long incoming frames must be refused on the header), and real client / server pairs of
   both transports with random message sequences, random stream segmentation and every kind of corruption (frame type,
   truncated, garbage, not-a-WAMP-message, out-of-phase message, exception in session code) at random positions, with both
   WebSocket failure styles (drop / closing handshake).  WampTransportTrace.tla judges every logged run.
"""
import itertools
import random

from harness import common, tlc

NAMES = ["json", "msgpack", "cbor", "ubjson"]
KINDS = ["frametype", "garbage", "truncated", "notwamp", "outofphase", "sessionraises", "sessionpayload", "sessionser", "baduri"]


def hs_cases(thorough, rng):
    cases = []
    stride = 1 if thorough else 16
    off = rng.randrange(stride)
    for role in "SC":
        for o1 in range(256):
            for o2 in range(256):
                if o1 == 127 or (o1 * 256 + o2) % stride == off:
                    cases.append([role, [o1, o2, 0, 0], (o1 + o2) % 5])
        for o2 in range(256):
            for segi in range(5):
                if segi != (127 + o2) % 5 and (thorough or (o2 + segi) % 4 == 0):
                    cases.append([role, [127, o2, 0, 0], segi])
        for o2 in (0x01, 0x02, 0xF1, 0x52, 0x03, 0x00):
            for r3, r4 in ((1, 0), (0, 1), (255, 255), (0, 128)):
                cases.append([role, [127, o2, r3, r4], rng.randrange(5)])
    return cases


def neg_pairs(thorough, rng):
    lists = [list(p) for r in (1, 2, 3, 4) for p in itertools.permutations(NAMES, r)]       # 64 ordered subsets
    extra = [["json.batched", "json"], ["cbor.batched"], ["msgpack", "json.batched"], ["json", "json.batched"], ["msgpack.batched", "cbor", "json"],
             ["ubjson.batched", "ubjson"]]
    pairs = [[a, b] for a in lists for b in lists] if thorough else [[a, b] for a in lists for b in rng.sample(lists, 10)]
    pairs += [[a, b] for a in extra for b in extra + lists[:8]] + [[a, b] for a in lists[:8] for b in extra]
    return pairs


def raw_offers(thorough, rng):
    """[offers, server list]: offers = subprotocol names in three parts; wamp.2.<ser> among other versions, other protocols, junk"""
    def o(p, v="", s=""):
        return dict(p=p, v=v, s=s)
    pool = [o("wamp", "2", "json"), o("wamp", "2", "msgpack"), o("wamp", "2", "cbor"), o("wamp", "2", "ubjson"), o("wamp", "1", "json"),
            o("wamp", "3", "cbor"), o("wamp", "x", "json"), o("wamp", "0", "json"), o("mqtt"), o("wamp", "2", "nosuch"), o("wamp", "22", "json"),
            o("wamp", "1", "msgpack"), o("wamp"), o("wamp", "2"), o("xwamp", "2", "json"), o("wamp", "-2", "json")]
    out = []
    for _ in range(600 if thorough else 150):
        offers = rng.sample(pool, rng.randrange(1, 5))
        sl = rng.sample(NAMES, rng.randrange(1, 5))
        out.append([offers, sl])
    for first in pool[4:]:
        for sl in (["json"], ["cbor", "json"], NAMES):
            out.append([[first, o("wamp", "2", "json")], sl])
            out.append([[first], sl])
    return out


def half_scenarios(thorough, rng):
    out = []
    exps = range(0, 16)
    for role in "SC":
        for pe in exps:
            if not thorough and pe > 11 and (pe + ord(role)) % 2:
                continue
            lim = 2 ** (9 + pe)
            big = lim >= 2 ** 24
            sends = [lim - 1, lim] + ([lim + 1] if not big else [lim + 1])
            if big:
                sends = [lim - 1, lim + 1]            # exactly 2**24 is not representable in the 24 bit length field
            own = rng.choice([9, 10, 12, 16, 20, None])
            ops = [["send", n] for n in sends] + [["send", 60]]
            out.append(dict(type="half", role=role, ser=rng.choice([1, 2, 3]), peer_exp=pe, own_exp=own, ops=ops, seed=rng.randrange(10 ** 6)))
        for own in ([9, 10, 11, 12, 13, 14, 16, 20] + ([22, 24] if thorough else [])):
            lim = 2 ** own
            recvs = [lim - 1, lim, lim + 1] if own < 24 else [lim - 1]
            ops = [["recv", n, "hdr"] for n in recvs] + [["recv", 40, "hdr"], ["send", 40]]
            out.append(dict(type="half", role=role, ser=rng.choice([1, 2, 3]), peer_exp=rng.randrange(16), own_exp=own, ops=ops, seed=rng.randrange(10 ** 6)))
        # configured maxima that are not powers of two: the announcement is rounded up, and the announced number is the limit
        for size in [513, 1000, 5000, 100000] + ([600, 3000, 70000, 2 ** 20 + 1, 2 ** 24 - 5] if thorough else [40000]):
            up = 512
            while up < size:
                up *= 2
            recvs = [size - 1, size, size + 1, up - 1, up] + ([up + 1] if up < 2 ** 24 else [])
            recvs = [n for n in recvs if n < 2 ** 24]
            ops = [["recv", n, "hdr"] for n in recvs] + [["recv", 40, "hdr"], ["send", 40]]
            out.append(dict(type="half", role=role, ser=rng.choice([1, 2, 3]), peer_exp=rng.randrange(16), own_exp=None, own_size=size, ops=ops,
                            seed=rng.randrange(10 ** 6)))
        for serid in (1, 2, 3):
            out.append(dict(type="half", role=role, ser=serid, peer_exp=rng.randrange(16), own_exp=None, openfails=True, ops=[], seed=0))
        # the prefix 01 00 00 00 (an empty PING) with every own limit, the default included
        for oe in (None, 24, 23, 12):
            out.append(dict(type="half", role=role, ser=rng.choice([1, 2, 3]), peer_exp=rng.randrange(16), own_exp=oe,
                            ops=[["inject", "ping0"], ["recv", 50, "hdr"], ["send", 50]], seed=rng.randrange(10 ** 6)))
        for kind in KINDS + ["ping0"]:
            for rep in range(3 if thorough else 2):
                pre = [rng.choice([["send", rng.randrange(30, 400)], ["recv", rng.randrange(30, 400), "hdr"]]) for _ in range(rng.randrange(0, 4))]
                inj = ["inject", kind] + ([rng.randrange(1, 8)] if kind == "frametype" else [])
                post = [["recv", 50, "hdr"], ["send", 50]]
                out.append(dict(type="half", role=role, ser=rng.choice([1, 2, 3]), peer_exp=rng.randrange(16), own_exp=rng.choice([None, 12, 24]),
                                ops=pre + [inj] + post, seed=rng.randrange(10 ** 6)))
    return out


def stream_scenarios(thorough, rng):
    out = []
    for role in "SC":
        # every way to cut the first 12 octets (handshake + start of the first frame) at one or two places
        pos = list(range(1, 13))
        combos = [[a] for a in pos] + [[a, b] for a in pos for b in pos if a < b]
        for c in combos:
            out.append(dict(type="stream", role=role, ser=rng.choice([1, 2, 3]), lens=[rng.randrange(30, 200), rng.randrange(30, 200)], cuts=c))
        for _ in range(400 if thorough else 80):
            lens = [rng.choice([30, 125, 126, 300, 4000, rng.randrange(30, 2000)]) for _ in range(rng.randrange(1, 6))]
            total = 4 + sum(lens) + 4 * len(lens)
            cuts = sorted(rng.sample(range(1, total), min(total - 1, rng.randrange(0, 9))))
            out.append(dict(type="stream", role=role, ser=rng.choice([1, 2, 3, 4]), lens=lens, cuts=cuts))
        # octet by octet
        out.append(dict(type="stream", role=role, ser=1, lens=[40, 41], cuts=list(range(1, 4 + 44 + 45))))
    return out


def pair_scenarios(thorough, rng, n):
    out = []
    for i in range(n):
        kind = rng.choice(["rs", "ws"])
        ser = rng.choice(NAMES + (["json.batched", "cbor.batched"] if kind == "ws" else []))
        ops = []
        for _ in range(rng.randrange(1, 10)):
            r = rng.random()
            if r < 0.55:
                ops.append(["send", rng.choice("CS"), rng.choice([30, 100, 125, 126, 127, 500, 4000, 65535, 65536, 70000]) if rng.random() < 0.5 else rng.randrange(30, 3000)])
            else:
                ops.append(["flush", rng.randrange(10 ** 6)])
        if rng.random() < 0.6:
            k = rng.choice([x for x in KINDS if x != "notwamp"])
            inj = ["inject", rng.choice("CS"), k] + ([rng.randrange(1, 8)] if (k == "frametype" and kind == "rs") else [])
            ops.insert(rng.randrange(len(ops) + 1), inj)
        ops += [["flush", rng.randrange(10 ** 6)], ["send", "C", 40], ["send", "S", 40], ["flush", 1]]
        sc = dict(type="pair", kind=kind, ser=ser, ops=ops, seed=rng.randrange(10 ** 6))
        if kind == "ws":
            sc["fbd"] = rng.choice([True, False, None])
        out.append(sc)
    return out


def run(res):
    thorough = res.tier == "thorough"
    rng = random.Random(res.seed * 104729 + 13)
    r = tlc.run_tlc("MC_WampTransport", "MC_WampTransport.cfg", workers=16)
    res.add_model("WampTransport", r)
    hs = hs_cases(thorough, rng)
    neg = neg_pairs(thorough, rng)
    raw = raw_offers(thorough, rng)
    half = half_scenarios(thorough, rng) + stream_scenarios(thorough, rng)
    pairs = pair_scenarios(thorough, rng, 1500 if thorough else 300)
    jobs = []
    for fwn in ("tx", "aio"):
        nsh = 4 if thorough else 2
        for k in range(nsh):
            jobs.append(("wtrans_drv", [], common.driver_env(fw=fwn, seed=res.seed), dict(mode="rs_hs", cases=hs[k::nsh])))
        jobs.append(("wtrans_drv", [], common.driver_env(fw=fwn, seed=res.seed), dict(mode="ws_neg", pairs=neg, raw=raw)))
        jobs.append(("wtrans_drv", [], common.driver_env(fw=fwn, seed=res.seed), dict(mode="link", scenarios=half)))
        jobs.append(("wtrans_drv", [], common.driver_env(fw=fwn, seed=res.seed), dict(mode="link", scenarios=pairs)))
    outs = common.run_drivers_parallel(jobs)
    traces, meta = [], []
    nev = {}
    for o in outs:
        res.count(o["cases"])
        for t in o["traces"]:
            traces.append(t)
            meta.append(o["fw"])
            for e in t:
                nev[e["ev"]] = nev.get(e["ev"], 0) + 1
                if e["ev"] == "rs_hs":
                    res.distinct_key([o["fw"], e["role"], e["o"], e["seg"]])
                elif e["ev"] == "ws_neg":
                    res.distinct_key([o["fw"], e["cl"], e["sl"]])
                elif e["ev"] == "ws_neg_raw":
                    res.distinct_key([o["fw"], str(e["offers"]), e["sl"]])
                elif e["ev"] in ("link_send", "link_recv", "link_inject", "pair_inject"):
                    res.distinct_key([o["fw"], e["ev"], e.get("n"), e.get("kind"), e.get("arg"), e.get("to"), e.get("tkind"), e.get("fbd")])
    v = tlc.validate_traces("WampTransportTrace", "WampTransportTrace.cfg", traces, shards=8)
    res.traces += v["n"]
    for idx, l in v["rejected"][:25]:
        t = traces[idx]
        at = t[l - 1] if 0 < l <= len(t) else None
        ctx = ([t[0]] + t[max(1, l - 6):l - 1]) if (at and at["ev"] not in ("rs_hs", "ws_neg")) else []
        res.classify("c13-%s-%d" % (meta[idx], idx), dict(fw=meta[idx], rejected_event=at, preceding=ctx, spec="WampTransportTrace"))
    if not v["rejected"]:
        for k, n in (("rs_hs", 5000), ("ws_neg", 500), ("link_send", 80), ("link_recv", 40), ("link_inject", 20), ("stream", 200), ("pair_rx", 300), ("pair_inject", 100)):
            if nev.get(k, 0) < n:
                raise common.MachineryError("vacuous: too few %s events: %s" % (k, nev))
    res.extra["events"] = nev
    res.sample(traces[0][0])
    res.sample(traces[-1][:3])
    res.exhaustive = thorough
    res.extra["rule"] = "one case = one handshake / negotiation / link scenario on one framework"
    res.trusted = ["the framework contract reproduced by the harness: nothing is delivered after the protocol closed or aborted its transport; "
                   "an exception escaping data_received makes the framework drop the connection and call connection_lost"]
    res.assumptions = ["client/server pairs run within one framework per process (txaio binds one framework); cross-framework pairings are "
                       "covered compositionally: each end is validated octet-for-octet against the same WampTransportRules",
                       "a message of exactly 2**24 octets is not exercised: the 24 bit RawSocket length field cannot represent it",
                       "WebSocket transports announce no message size limit of their own (C16 covers maxMessagePayloadSize)"]
