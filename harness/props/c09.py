"""C09 - UTF-8 validation equals RFC 3629, incrementally, in both implementations.

M: spec/Utf8.tla - TLC checks that the 9-state step machine computes the RFC 3629 ABNF
   (AcceptIffWellFormed, RejectIffNotPrefix, WholeVerdict, ChunkIndependent) on all strings of length
   <= 2 over all 256 bytes and <= 4 (quick: <= 3) over 24 range-boundary bytes.
R: the complete transition relation is exported from TLC (Utf8Export) and the W-method suite
   P . Sigma^{<=k+1} . W is run against the pure-Python validator and the rebuilt NVX table / unrolled
   validators (k = 0 quick, k = 1 thorough); all strings of length <= 2 / <= 3 exhaustively.
T: recorded validate() traces (the whole k = 0 suite byte-wise and whole, plus random streams under random
   chunkings) are validated by Utf8Trace.tla.
"""
import json
import os

from harness import common, tlc

IMPLS = [("py", False), ("nvx1", True), ("nvx2", True), ("nvx0", True)]


def export_table():
    out = os.path.join(common.WORK, "utf8table-%d.json" % os.getpid())
    r = tlc.run_tlc("Utf8Export", "Utf8Export.cfg", workers=1, env={"OUT_FILE": out}, coverage=False)
    if not r["ok"] or not os.path.exists(out):
        raise common.MachineryError("Utf8Export failed:\n" + r["out"][-2000:])
    t = json.load(open(out))
    os.unlink(out)
    return t


def run(res):
    thorough = res.tier == "thorough"
    # ---- M ------------------------------------------------------------------------------------
    r = tlc.run_tlc("Utf8", "MC_Utf8_full2.cfg", workers=16)
    res.add_model("Utf8/full2", r, require_actions=["Extend"])
    r = tlc.run_tlc("Utf8", "MC_Utf8_rep4.cfg" if thorough else "MC_Utf8_rep3.cfg", workers=16)
    res.add_model("Utf8/rep", r, require_actions=["Extend"])
    table = export_table()
    # ---- R/T ----------------------------------------------------------------------------------
    nvx_dir = common.build_nvx()
    jobs = []
    for impl, nvx in IMPLS:
        env = common.driver_env(nvx=nvx, nvx_dir=nvx_dir if nvx else None, seed=res.seed)
        jobs.append(("utf8_drv", [impl, "wmethod", 0], env, table))
        if thorough and impl != "nvx0":
            jobs.append(("utf8_drv", [impl, "wmethod", 1], env, table))
        jobs.append(("utf8_drv", [impl, "exhaust", 3 if (thorough and impl != "nvx0") else 2], env, table))
        jobs.append(("utf8_drv", [impl, "random", 6000 if thorough else 1500], env, table))
    outs = common.run_drivers_parallel(jobs)
    traces, origin = [], []
    files = {}
    for (m, args, env, _), o in zip(jobs, outs):
        files[o["impl"]] = o["file"]
        res.count(o["cases"])
        res.extra.setdefault("per_impl", {}).setdefault(o["impl"], {})[args[1] + str(args[2])] = o["cases"]
        for mm in o["mismatches"]:
            mm["impl"] = o["impl"]
            res.classify("%s-%s-%s" % (o["impl"], mm["kind"], "_".join(map(str, mm["seq"][:8]))), mm, _finding_keys(mm))
        for t in o["traces"]:
            traces.append(t)
            origin.append(o["impl"])
    if not files["nvx1"].startswith(nvx_dir):
        raise common.MachineryError("NVX validator not loaded from the rebuilt sources: " + files["nvx1"])
    res.extra["impl_files"] = files
    # ---- T: TLC validates the recorded traces -------------------------------------------------
    for t in traces:
        res.distinct_key(t)
    v = tlc.validate_traces("Utf8Trace", "Utf8Trace.cfg", traces, shards=16)
    res.traces += v["accepted"] + len(v["rejected"])
    res.actions.update({"Utf8Trace:" + k: c[1] for k, c in v["coverage"].items()})
    for idx, l in v["rejected"][:20]:
        t = traces[idx]
        ev = t[l - 1] if l - 1 < len(t) else None
        res.classify("%s-trace-rejected-%d" % (origin[idx], idx),
                     dict(impl=origin[idx], trace=t, rejected_at=l, event=ev, spec="Utf8Trace"),
                     _finding_keys_trace(t, l))
    res.sample(dict(impl=origin[0], trace=traces[0]))
    res.sample(dict(impl=origin[-1], trace=traces[-1]))
    res.exhaustive = True
    res.extra["rule"] = ("a case is one byte sequence under one chunking fed to one implementation; distinct = distinct "
                         "(sequence, chunking) traces validated by TLC")
    res.trusted = ["harness/drivers/utf8_drv.py Oracle (fold of the table exported from Utf8!Step)", "cffi/gcc rebuild of the NVX sources"]
    res.assumptions = ["W-method completeness assumes the implementation is a deterministic FSM with at most 9+k states (k=0 quick, k=1 thorough)",
                       "after a rejection only verdict and total index are constrained (in-chunk index is not stated by the property)"]


def _finding_keys(mm):
    return []


def _finding_keys_trace(t, l):
    return []
