"""C10 - see DESIGN.md 5/C10.  spec/WampSession.tla (TLC: all histories up to the bound) + seeded random histories of a real
ApplicationSession on Twisted Deferreds and asyncio Futures validated by spec/WampSessionTrace.tla (profile "c10"), plus every endpoint
behaviour through the four real transports against a scripted router (WampSessionTrace.TInvReal)."""
from harness import common, tlc
from harness.props import sess_common

BEHS = ("value", "callresult", "none", "unserializable", "oversize", "apperror", "bigerror", "mapped", "unmapped")


def real_transports(res):
    """every endpoint behaviour x sync/async x progress asked or not x {WebSocket, RawSocket} x {json, msgpack, cbor} x {Twisted, asyncio}:
    a real ApplicationSession on a real client transport against the scripted router; WampSessionTrace.TInvReal judges the wire"""
    cases = [[k, s, b, a, rp] for k in ("ws", "rs") for s in ("json", "msgpack", "cbor") for b in BEHS for a in (False, True) for rp in (False, True)]
    # the variant of each behaviour (which CallResult shape, which exception class, a value exactly at / one past the size limit)
    cases = [c + [i // 2 + res.seed, False] for i, c in enumerate(cases)]
    # ... and the same with the invocation arriving end-to-end encrypted (the replies must be, too; what cannot be encrypted is an ERROR)
    cases += [[k, s, b, a, rp, v, True] for k in ("ws", "rs") for s in ("json", "cbor") for b in BEHS for a in (False, True) for rp in (False, True)
              for v in (res.seed, res.seed + 1)]
    jobs = [("invreal_drv", [], common.driver_env(fw=fwn, seed=res.seed), dict(cases=cases)) for fwn in ("tx", "aio")]
    outs = common.run_drivers_parallel(jobs)
    traces, meta = [], []
    for o in outs:
        res.count(o["cases"])
        for t in o["traces"]:
            traces.append(t)
            meta.append(o["fw"])
            e = t[0]
            res.distinct_key([o["fw"], "real", e["kind"], e["ser"], e["beh"], e["isAsync"], e["rp"], e["var"] % 12, e["keyed"]])
    v = tlc.validate_traces("WampSessionTrace", "WampSessionTrace.cfg", traces, shards=4)
    res.traces += v["n"]
    for idx, l in v["rejected"][:25]:
        res.classify("c10-real-%s-%d" % (meta[idx], idx), dict(fw=meta[idx], event=traces[idx][0], spec="WampSessionTrace.TInvReal"))
    if len(traces) < 350:
        raise common.MachineryError("too few real-transport invocation cases")
    res.extra["real_transport_cases"] = len(traces)


def run(res):
    thorough = res.tier == "thorough"
    sess_common.run_profile(res, "c10", 2500 if thorough else 700, 6 if thorough else 3, "c10",
                            "MC_WampSession_deep.cfg" if thorough else "MC_WampSession.cfg")
    real_transports(res)
