"""G03 (growth, not a listed property) - autobahn.wamp.uri.Pattern: which pattern strings are accepted, exact vs wildcard, and
what match() extracts.

M: spec/UriPattern.tla (TLC on all patterns / URIs of up to 3 components over a small alphabet: BindsEachOnce, LengthMatters).
T: generated (pattern, URI) pairs - every pattern of up to 2 (thorough: 3) components over 25 component forms with fitting,
   mutated and random URIs, plus random longer ones - run through the real Pattern; UriPatternTrace.tla applies Construct /
   Match and demands the same verdict and the same extracted arguments.
Two behaviours of the code that look unintended are kept as named deviations in the spec header: an exact pattern "matches"
every URI, and <name:suffix> matches a single component.
"""
from harness import common, tlc


def run(res):
    thorough = res.tier == "thorough"
    r = tlc.run_tlc("MC_UriPattern", "MC_UriPattern.cfg", workers=4)
    res.add_model("UriPattern", r)
    outs = common.run_drivers_parallel([("uripat_drv", [], common.driver_env(fw="tx", seed=res.seed),
                                         dict(mode="sample", maxlen=3 if thorough else 2, n=20000 if thorough else 3000))])
    traces = []
    for o in outs:
        res.count(o["cases"])
        for t in o["traces"]:
            traces.append(t)
            e = t[0]
            res.distinct_key([repr(e["p"]), repr(e["u"])])
    v = tlc.validate_traces("UriPatternTrace", "UriPatternTrace.cfg", traces, shards=8)
    res.traces += v["n"]
    for idx, l in v["rejected"][:20]:
        res.classify("g03-%d" % idx, dict(event=traces[idx][0], spec="UriPatternTrace"))
    if sum(1 for t in traces if t[0]["obs"]["ok"] and t[0]["obs"]["kw"]) < 200:
        raise common.MachineryError("too few matching wildcard cases")
    res.sample(traces[0][0])
    res.exhaustive = False
    res.trusted = ["rendering of component lists into pattern / URI strings in the driver"]
    res.assumptions = ["growth check: not one of the 20 listed properties, not in MANIFEST.json"]
