"""C18 - remote exceptions arrive with their URI, arguments and class.

M: spec/WampError.tla - the table WireUri(kind) x CallerClass(registry) x traceback (24 cells, TLC enumerates them).
R/T: every cell x 6 payload shapes (nested, Unicode, bytes, None) x 4 serializers on both frameworks: a real callee session
   raises inside a real endpoint, the ERROR goes through serialize/unserialize (callee -> dealer -> caller) and completes a
   pending call of a real caller session; WampErrorTrace.tla demands exactly one ERROR, the URI class of the table, identical
   args / kwargs on the wire and on the caller side (apart from the forwarded traceback), the registered class iff it is
   constructible, the generic ApplicationError carrying the URI otherwise, and that the call always fails (NeverLost).
"""
from harness import common, tlc


def run(res):
    r = tlc.run_tlc("WampError", "MC_WampError.cfg", workers=4)
    res.add_model("WampError", r)
    jobs = [("wamperr_drv", [], common.driver_env(fw=fwn, seed=res.seed), dict()) for fwn in ("tx", "aio")]
    outs = common.run_drivers_parallel(jobs)
    traces, meta = [], []
    for o in outs:
        res.count(o["cases"])
        for t in o["traces"]:
            traces.append(t)
            meta.append(o["fw"])
            res.distinct_key([meta[-1], t[0]["kind"], t[0]["reg"], t[0]["tb"], t[0]["ser"], t[0]["shape"]])
    v = tlc.validate_traces("WampErrorTrace", "WampErrorTrace.cfg", traces, shards=4)
    res.traces += v["n"]
    for idx, l in v["rejected"][:25]:
        res.classify("c18-%s-%d" % (meta[idx], idx), dict(fw=meta[idx], event=traces[idx][0], spec="WampErrorTrace"))
    res.sample(traces[0][0])
    res.sample(traces[len(traces) // 2][0])
    res.exhaustive = True
    res.extra["rule"] = "one case = (exception kind, caller registry, traceback, serializer, payload shape, framework)"
    res.assumptions = ["kwargs named like ApplicationError's reserved keywords (enc_algo, callee, ..., traceback) are excluded from payloads",
                       "no class can be registered for an arbitrary application-error URI or the runtime-error URI in this driver ('same' registry only for decorated / defined kinds)"]
    res.trusted = ["value comparison in the harness; JSON / MessagePack / CBOR / UBJSON libraries"]
