"""C03 - WAMP messages survive every serializer unchanged.

M: spec/WampMsg.tla (the same grammar table as C08 supplies the field and option alphabet of each of the 25 types).
R: for every type: option subsets (each single option, all options; thorough: all subsets for <= 8 options, all pairs above)
   with boundary ids 0 / 1 / 2^53, payload shapes (empty, nested, Unicode incl. astral, bytes, ints up to 2^53, None, bool),
   payload-transparency triples, forward_for chains; each valid message goes parse -> serialize -> unserialize -> marshal
   through JSON, MessagePack, CBOR and UBJSON, unbatched and in batches of 1 / 2 / 7; WampMsgTrace.tla demands: no exception,
   same count and order, same type, every element and option of the raw input present with the same value in the
   re-marshalled output, text/binary flag equal to the serializer's framing (text payloads valid UTF-8).
"""
from harness import common
from harness.props import msg_common


def run(res):
    thorough = res.tier == "thorough"
    tab = msg_common.export_table(res)
    jobs = []
    ns = 5
    for fwn in ("tx", "aio") if thorough else ("tx",):
        for sh in range(ns):
            jobs.append(("wampmsg_drv", [], common.driver_env(fw=fwn, seed=res.seed), dict(mode="roundtrip", table=tab, shard=sh, nshards=ns, thorough=thorough)))
    outs = common.run_drivers_parallel(jobs)
    traces = []
    for o in outs:
        res.count(o["cases"])
        traces += o["traces"]
    v = msg_common.validate(res, traces, "c03")
    if not v["rejected"] and res.actions.get("WampMsgTrace:TRt", 0) == 0:
        raise common.MachineryError("vacuity: TRt never taken")
    types_seen = {t[0]["t"] for t in traces}
    if len(types_seen) != 25:
        raise common.MachineryError("round trips did not cover all 25 message types: %s" % sorted(types_seen))
    res.sample(traces[0][0])
    res.sample(traces[len(traces) // 3][0])
    res.extra["rule"] = "one case = one message (or batch) of one type through one serializer, batched or not"
    res.extra["serializers"] = ["json", "msgpack", "cbor", "ubjson"]
    res.assumptions = ["JSON strings starting with NUL, dict key order, tuple vs list and integral floats are outside the statement",
                       "FlatBuffers is not importable in this image and is not exercised"]
    res.trusted = ["value comparison in the harness (covers()); serializer libraries"]
