"""Entry point: python -m harness.main <Cxx> [--tier quick|thorough] [--replay PATH]"""
import argparse
import importlib
import os
import shutil
import sys
import traceback

from harness import common


def main():
    ap = argparse.ArgumentParser()
    ap.add_argument("pid")
    ap.add_argument("--tier", default=os.environ.get("VERIF_TIER", "quick"), choices=["quick", "thorough"])
    ap.add_argument("--replay", default=None)
    ap.add_argument("--selftest", action="store_true")
    a = ap.parse_args()
    seed = int(os.environ.get("VERIF_SEED", "0") or 0)
    pid = a.pid.upper()
    res = common.Result(pid, a.tier, seed)
    os.makedirs(common.WORK, exist_ok=True)
    try:
        mod = importlib.import_module("harness.props." + pid.lower())
        if a.selftest:
            return mod.selftest(res)
        if a.replay:
            mod.replay(res, a.replay)
        else:
            try:
                mod.run(res)
            except common.DriverVerdict as dv:
                path = res.write_replay("driver-died", dict(what=dv.what, detail=dv.detail[-6000:]))
                res.violation(dv.what, path)
        code = res.finish(getattr(mod, "LEVEL", "model_checking"))
    except Exception:
        traceback.print_exc()
        print("MACHINERY-FAILURE property=%s (exit 2; no verdict)" % pid)
        return 2
    finally:
        # scratch of this process only (parallel checks share .work)
        for n in os.listdir(common.WORK):
            if n.endswith("-%d" % os.getpid()):
                shutil.rmtree(os.path.join(common.WORK, n), ignore_errors=True)
    print("%s %s tier=%s seed=%d states=%d traces=%d evaluations=%d wall=%.1fs" % (
        pid, "OK" if code == 0 else "VIOLATED", a.tier, seed, res.states, res.traces, res.evaluations,
        __import__("time").time() - res.t0))
    return code


if __name__ == "__main__":
    sys.exit(main())
