"""Shared plumbing for all property checks: result collection, evidence, replays, known
findings, driver subprocesses."""
import hashlib
import json
import os
import subprocess
import sys
import time

VERIF = os.path.dirname(os.path.dirname(os.path.abspath(__file__)))
WORK = os.path.join(VERIF, ".work")
PY = "/venv/bin/python"
REPO = os.environ.get("VERIF_REPO", "/repo")
GUARD = "AUTOBAHN_VERIF"
# evidence/ and replays/ are written below OUT_DIR (default /verif); mutant evaluation redirects it
OUT_DIR = os.environ.get("VERIF_OUT_DIR", VERIF)


class MachineryError(Exception):
    """The check itself is broken (exit 2) - never a verdict about the property."""


def load_known():
    p = os.path.join(VERIF, "known_findings.json")
    if not os.path.exists(p):
        return {"known": [], "fixed": []}
    return json.load(open(p))


class Result:
    def __init__(self, pid, tier, seed):
        self.pid, self.tier, self.seed = pid, tier, seed
        self.t0 = time.time()
        self.violations = []          # [(name, replay_path)]
        self.known_hits = {}          # finding id -> count
        self.states = 0
        self.transitions = 0
        self.traces = 0               # traces_validated_against_impl
        self.evaluations = 0
        self.distinct = set()
        self.samples = []
        self.models = []              # per TLC model run summary
        self.actions = {}             # action coverage
        self.extra = {}
        self.assumptions = []
        self.trusted = []
        self.exhaustive = False
        self._known = load_known()

    # ---- model runs -------------------------------------------------------------
    def add_model(self, name, r, require_actions=None):
        """Record an exhaustive TLC run; a TLC property violation is a VIOLATION of the
        property *in the model*; a crash is machinery failure."""
        self.models.append(dict(model=name, generated=r["generated"], distinct=r["distinct"], depth=r["depth"],
                                wall_s=r["wall_s"], coverage={k: v[1] for k, v in r["coverage"].items()}))
        if r["generated"]:
            self.states += r["distinct"] or 0
            self.transitions += r["generated"] or 0
        for k, v in r["coverage"].items():
            self.actions[name + ":" + k] = v[1]
        if r["violated"]:
            path = self.write_replay("model-" + name, dict(model=name, violated=r["violated"], tlc_tail=r["out"][-6000:]))
            self.violation("model %s violates %s" % (name, r["violated"][0]), path)
            return
        if not r["ok"]:
            raise MachineryError("TLC failed on %s: %s\n%s" % (name, r["errors"][:3], r["out"][-3000:]))
        for a in (require_actions or []):
            if r["coverage"].get(a, [0, 0])[1] == 0:
                raise MachineryError("vacuity: action %s never taken in %s" % (a, name))

    # ---- cases -------------------------------------------------------------------
    def count(self, n=1):
        self.evaluations += n

    def distinct_key(self, key):
        if not isinstance(key, (str, bytes)):
            key = json.dumps(key, sort_keys=True, default=str)
        if isinstance(key, str):
            key = key.encode()
        self.distinct.add(hashlib.blake2b(key, digest_size=8).digest())

    def sample(self, s, limit=4):
        if len(self.samples) < limit:
            self.samples.append(s)

    # ---- verdicts ------------------------------------------------------------------
    def write_replay(self, name, payload):
        d = os.path.join(OUT_DIR, "replays", self.pid)
        os.makedirs(d, exist_ok=True)
        safe = "".join(c if c.isalnum() or c in "-_." else "_" for c in name)[:80]
        p = os.path.join(d, safe + ".json")
        with open(p, "w") as f:
            json.dump(payload, f, indent=1, default=str)
        return p

    def violation(self, what, replay_path):
        self.violations.append((what, replay_path))
        print("VIOLATION property=%s replay=%s" % (self.pid, replay_path))
        print("  what: %s" % what)
        sys.stdout.flush()

    def classify(self, what, payload, finding_keys=()):
        """A failing case: if one of `finding_keys` (candidate known-finding ids computed by the
        check from the *specific* input / call site) is listed as known for this property, count
        it as a known finding; otherwise report a violation."""
        for k in finding_keys:
            for f in self._known.get("known", []):
                if f["id"] == k and self.pid in f["property"]:
                    self.known_hits[k] = self.known_hits.get(k, 0) + 1
                    return "known"
        path = self.write_replay(what, payload)
        self.violation(what, path)
        return "violation"

    def finish(self, level="model_checking"):
        if ESCAPE_LOG:
            # nothing may escape a framework callback: on the unchanged tree this never happens in any driver
            path = self.write_replay("escaped-framework-callback", dict(escapes=ESCAPE_LOG[:20]))
            self.violation("exception escaped a timer / connection_lost callback: %s" % ESCAPE_LOG[0]["exc"], path)
        for f in self._known.get("known", []):
            if self.pid in f["property"] and f["id"] in self.known_hits:
                print("KNOWN-FINDING: property=%s %s %s (seen %d times)" % (self.pid, f["id"], f["what"], self.known_hits[f["id"]]))
        cov = dict(states=max(self.states, 0), transitions=max(self.transitions, 0),
                   traces_validated_against_impl=self.traces,
                   evaluations=self.evaluations, distinct_nontrivial=len(self.distinct),
                   samples=self.samples or ["(none)"], models=self.models, action_counts=self.actions,
                   exhaustive=self.exhaustive, trusted_base=self.trusted,
                   known_findings_seen=self.known_hits)
        cov.update(self.extra)
        ev = dict(property_id=self.pid, tier=self.tier, seed=self.seed, level=level, coverage=cov,
                  assumptions=self.assumptions, wall_s=round(time.time() - self.t0, 2),
                  violations=len(self.violations))
        sub = "growth" if self.pid.startswith("G") else "evidence"      # G.. = specification growth beyond the listed properties
        os.makedirs(os.path.join(OUT_DIR, sub), exist_ok=True)
        with open(os.path.join(OUT_DIR, sub, self.pid + ".json"), "w") as f:
            json.dump(ev, f, indent=1, default=str)
        return 1 if self.violations else 0


# ---- driver subprocesses --------------------------------------------------------------

_NOISE = ("numpy", "NumPy", "_ARRAY_API", "bjdata", "Traceback (most recent call last)")


def driver_env(fw=None, nvx=None, nvx_dir=None, seed=0, extra=None):
    e = dict(os.environ)
    e["PYTHONHASHSEED"] = "0"
    e["PYTHONDONTWRITEBYTECODE"] = "1"
    pp = [VERIF]
    if nvx_dir:
        pp.insert(0, nvx_dir)
    e["PYTHONPATH"] = os.pathsep.join(pp + [os.path.join(REPO, "src")])
    e[GUARD] = "1"
    e["VERIF_SEED"] = str(seed)
    if fw:
        e["VERIF_FW"] = fw
    if nvx is not None:
        e["AUTOBAHN_USE_NVX"] = "1" if nvx else "0"
    if extra:
        e.update({k: str(v) for k, v in extra.items()})
    return e


class DriverVerdict(Exception):
    """a driver died in a way that is a statement about the library, not about the machinery (see run_driver)"""

    def __init__(self, what, detail):
        Exception.__init__(self, what)
        self.what, self.detail = what, detail


ESCAPE_LOG = []      # exceptions that escaped a timer / connection_lost callback in some driver of this check (see harness/fw.py)


def run_driver(module, args=(), env=None, timeout=3600, input_obj=None):
    """Run `python -m harness.drivers.<module> args...`; the driver writes one JSON document to
    the file named by env VERIF_OUT.  Returns the parsed document."""
    os.makedirs(WORK, exist_ok=True)
    out = os.path.join(WORK, "drv-%s-%d-%d.json" % (module, os.getpid(), int(time.time() * 1e6) % 10**9))
    e = dict(env or driver_env())
    e["VERIF_OUT"] = out
    inp = None
    if input_obj is not None:
        inp = out + ".in"
        with open(inp, "w") as f:
            json.dump(input_obj, f)
        e["VERIF_IN"] = inp
    cmd = [PY, "-m", "harness.drivers." + module] + [str(a) for a in args]
    if os.environ.get("VERIF_COVERAGE_DIR"):
        # diagnostic only (tools/coverage_gap.sh): which library lines do the drivers of a check execute at all
        cmd = [PY, "-m", "coverage", "run", "--parallel-mode", "--data-file=" + os.path.join(os.environ["VERIF_COVERAGE_DIR"], ".coverage"),
               "--source=" + os.path.join(REPO, "src", "autobahn"), "-m", "harness.drivers." + module] + [str(a) for a in args]
    p = subprocess.run(cmd, cwd=VERIF, env=e, stdout=subprocess.PIPE, stderr=subprocess.PIPE, timeout=timeout)
    try:
        if p.returncode != 0 or not os.path.exists(out):
            err = p.stderr.decode("utf8", "replace")
            msg = "driver %s %s failed (exit %s):\n%s" % (module, list(args), p.returncode, err[-4000:])
            # A driver that dies is normally a machinery failure.  Two cases are verdicts about the library instead (neither
            # ever happens on the unchanged tree): the exception was raised inside the library / its C modules and nothing
            # in between handled it, or one of the driver's guard assertions about the library's behaviour failed.
            tb = err[err.rfind("Traceback (most recent call last)"):] if "Traceback (most recent call last)" in err else ""
            files = [ln.strip() for ln in tb.splitlines() if ln.strip().startswith('File "')]
            last = files[-1] if files else ""
            exc_line = tb.strip().splitlines()[-1] if tb.strip() else ""
            in_lib = (os.path.join(REPO, "src") in last) or ("_nvx_" in last)
            guard = exc_line.startswith("AssertionError") and os.path.join("harness", "drivers") in last
            if in_lib or guard:
                raise DriverVerdict(("uncaught exception from the library" if in_lib else "driver guard assertion failed") +
                                    " in %s (%s): %s" % (module, e.get("VERIF_FW"), exc_line[:300]), msg)
            raise MachineryError(msg)
        with open(out) as f:
            doc = json.load(f)
        for x in doc.get("_escapes") or []:
            ESCAPE_LOG.append(dict(driver=module, fw=e.get("VERIF_FW"), **x))
        return doc
    finally:
        for x in (out, inp):
            if x and os.path.exists(x):
                os.unlink(x)


def run_drivers_parallel(jobs, max_par=16):
    """jobs: list of (module, args, env, input_obj).  Runs them concurrently, returns results in order."""
    from concurrent.futures import ThreadPoolExecutor
    with ThreadPoolExecutor(max_workers=max_par) as ex:
        futs = [ex.submit(run_driver, m, a, e, 3600, i) for (m, a, e, i) in jobs]
        return [f.result() for f in futs]


def driver_out(obj):
    fwm = sys.modules.get("harness.fw")
    if fwm is not None and getattr(fwm, "ESCAPES", None):
        obj["_escapes"] = fwm.ESCAPES[:50]
    with open(os.environ["VERIF_OUT"], "w") as f:
        json.dump(obj, f, separators=(",", ":"), default=str)


def driver_in():
    p = os.environ.get("VERIF_IN")
    return json.load(open(p)) if p else None


def build_nvx():
    d = os.path.join(WORK, "nvx-%d" % os.getpid())
    e = dict(os.environ)
    e["PYTHONPATH"] = os.path.join(REPO, "src")
    p = subprocess.run([PY, os.path.join(VERIF, "harness", "nvx_build.py"), d], env=e,
                       stdout=subprocess.PIPE, stderr=subprocess.PIPE)
    if p.returncode != 0:
        raise MachineryError("NVX rebuild failed:\n" + p.stderr.decode("utf8", "replace")[-3000:])
    return d
