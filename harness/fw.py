"""Deterministic framework bindings: virtual time + recording fake transports for Twisted and asyncio.

txaio binds one framework per process; VERIF_FW=tx|aio selects it (import this module first).
No sockets, no wall clock, no threads.

    fw.NAME                       'tx' | 'aio'
    fw.now()                      virtual seconds
    fw.advance(dt)                run every timer due in (now, now+dt] in due order, then set time
    fw.settle()                   run ready callbacks (asyncio call_soon) without advancing time
    fw.pump(max_steps)            advance in 10 microsecond steps while zero-ish delay calls (send queue pump) are pending
    fw.timers()                   sorted due times of pending delayed calls (excluding cancelled)
    fw.Transport                  recording transport: .written (bytearray), .chunks, .lose_calls, .abort_calls
    fw.connect(proto, transport)  framework's connection_made
    fw.feed(proto, data)          framework's data_received (+ settle); returns exception or None
    fw.lose(proto, clean=True)    framework's connection_lost
"""
import os

NAME = os.environ.get("VERIF_FW", "tx")

# exceptions that escaped a framework callback driven by the harness (a timer, connection_lost): a real reactor / loop logs
# them and goes on, so does the harness - but they are reported (common.driver_out attaches them; Result.finish turns them into
# a violation) unless the driver handles them itself (TOLERATE_ESCAPES).
ESCAPES = []
TOLERATE_ESCAPES = False
LIVELOCKS = []      # virtual times at which advance() gave up because timers kept re-arming without any delay


def _escaped(where, e):
    if TOLERATE_ESCAPES:
        raise e
    import traceback
    ESCAPES.append(dict(where=where, exc=type(e).__name__ + ": " + str(e)[:200], tb=traceback.format_exc()[-1500:]))

import txaio  # noqa: E402

if NAME == "tx":
    txaio.use_twisted()
    from twisted.internet import address, error as tx_error, task
    from twisted.python import failure

    CLOCK = task.Clock()
    txaio.config.loop = CLOCK

    def now():
        return CLOCK.seconds()

    def _clock_advance(dt, where):
        for _ in range(100):
            try:
                CLOCK.advance(dt)
                return
            except Exception as e:  # noqa
                _escaped(where, e)
                dt = 0

    def settle():
        _clock_advance(0, "timer")

    def timers():
        return sorted(c.getTime() for c in CLOCK.getDelayedCalls())

    def reset():
        """forget all pending calls (end of a scenario); virtual time keeps running"""
        for c in CLOCK.getDelayedCalls():
            c.cancel()

    def advance(dt):
        target = CLOCK.seconds() + dt
        fired = 0
        while True:
            due = [c.getTime() for c in CLOCK.getDelayedCalls()]
            due = [t for t in due if t <= target]
            if not due:
                break
            fired += 1
            if fired > 5000:
                # something re-arms a zero-delay timer for ever (e.g. a reconnect loop without any delay): give the
                # driver its turn back; what happened so far is in its log and will be judged
                LIVELOCKS.append(CLOCK.seconds())
                return
            t = min(due)
            _clock_advance(max(0.0, t - CLOCK.seconds()), "timer")
        _clock_advance(max(0.0, target - CLOCK.seconds()), "timer")

    class Transport:
        """Lenient recording ITransport / ITCPTransport stand-in."""
        disconnecting = False

        def __init__(self, peer_port=40000, host_port=9000):
            self.written = bytearray()
            self.chunks = []
            self.lose_calls = 0
            self.abort_calls = 0
            self.post_drop_writes = 0
            self._peer = address.IPv4Address("TCP", "127.0.0.1", peer_port)
            self._host = address.IPv4Address("TCP", "127.0.0.1", host_port)
            self.producer = None

        def write(self, data):
            if self.lose_calls or self.abort_calls:
                self.post_drop_writes += 1
                if self.abort_calls:
                    return
            self.written += data
            self.chunks.append(bytes(data))

        def writeSequence(self, seq):
            for d in seq:
                self.write(d)

        def loseConnection(self):
            self.lose_calls += 1
            self.disconnecting = True

        def abortConnection(self):
            self.abort_calls += 1
            self.disconnecting = True

        def getPeer(self):
            return self._peer

        def getHost(self):
            return self._host

        def setTcpNoDelay(self, enabled):
            pass

        def getTcpNoDelay(self):
            return True

        def registerProducer(self, producer, streaming):
            self.producer = producer

        def unregisterProducer(self):
            self.producer = None

        def pauseProducing(self):
            pass

        def resumeProducing(self):
            pass

        def stopProducing(self):
            pass

        @property
        def dropped(self):
            return bool(self.lose_calls or self.abort_calls)

    def connect(proto, transport):
        proto.makeConnection(transport)
        settle()

    def feed(proto, data):
        """returns the exception escaping dataReceived, or None"""
        try:
            proto.dataReceived(data)
        except Exception as e:  # noqa
            return e
        return None

    def lose(proto, clean=True):
        if clean:
            r = failure.Failure(tx_error.ConnectionDone())
        else:
            r = failure.Failure(tx_error.ConnectionLost())
        try:
            proto.connectionLost(r)
        except Exception as e:  # noqa
            _escaped("connection_lost", e)
        settle()

else:
    txaio.use_asyncio()
    import asyncio
    import heapq
    from asyncio import events

    class VLoop(asyncio.AbstractEventLoop):
        """Virtual-time event loop: call_soon queue + timer heap; nothing runs unless stepped."""

        def __init__(self):
            self._t = 0.0
            self._ready = []
            self._heap = []
            self._seq = 0
            self._debug = False
            self.exceptions = []

        # -- time / scheduling
        def time(self):
            return self._t

        def call_soon(self, cb, *args, context=None):
            h = events.Handle(cb, args, self, context)
            self._ready.append(h)
            return h

        call_soon_threadsafe = call_soon

        def call_later(self, delay, cb, *args, context=None):
            return self.call_at(self._t + delay, cb, *args, context=context)

        def call_at(self, when, cb, *args, context=None):
            h = events.TimerHandle(when, cb, args, self, context)
            self._seq += 1
            heapq.heappush(self._heap, (when, self._seq, h))
            h._scheduled = True
            return h

        def _timer_handle_cancelled(self, h):
            pass

        def create_future(self):
            return asyncio.Future(loop=self)

        def create_task(self, coro, *, name=None, context=None):
            return asyncio.Task(coro, loop=self, name=name)

        def get_debug(self):
            return self._debug

        def set_debug(self, d):
            self._debug = d

        def is_running(self):
            return False

        def is_closed(self):
            return False

        def call_exception_handler(self, ctx):
            self.exceptions.append(ctx)

        def default_exception_handler(self, ctx):
            self.exceptions.append(ctx)

        # -- stepping
        def settle(self):
            prev = events._get_running_loop()
            events._set_running_loop(None)
            events._set_running_loop(self)
            try:
                n = 0
                while self._ready:
                    h = self._ready.pop(0)
                    if not h._cancelled:
                        h._run()
                    n += 1
                    if n > 100000:
                        raise RuntimeError("VLoop.settle: livelock")
            finally:
                events._set_running_loop(None)
                if prev is not None:
                    events._set_running_loop(prev)

        def advance(self, dt):
            target = self._t + dt
            self.settle()
            fired = 0
            while self._heap and self._heap[0][0] <= target:
                fired += 1
                if fired > 5000:
                    LIVELOCKS.append(self._t)
                    return
                when, _, h = heapq.heappop(self._heap)
                if h._cancelled:
                    continue
                self._t = max(self._t, when)
                h._run()
                self.settle()
            self._t = max(self._t, target)

        def timers(self):
            return sorted(w for (w, _, h) in self._heap if not h._cancelled)

    LOOP = VLoop()
    asyncio.set_event_loop(LOOP)
    txaio.config.loop = LOOP
    CLOCK = LOOP

    def now():
        return LOOP.time()

    def settle():
        LOOP.settle()

    def timers():
        return LOOP.timers()

    def advance(dt):
        LOOP.advance(dt)

    def reset():
        del LOOP._ready[:]
        del LOOP._heap[:]
        LOOP.exceptions.clear()

    class Transport(asyncio.Transport):
        def __init__(self, peer_port=40000, host_port=9000):
            super().__init__()
            self.written = bytearray()
            self.chunks = []
            self.lose_calls = 0
            self.abort_calls = 0
            self.post_drop_writes = 0
            self._extra = {"peername": ("127.0.0.1", peer_port), "sockname": ("127.0.0.1", host_port)}

        def get_extra_info(self, name, default=None):
            return self._extra.get(name, default)

        def write(self, data):
            if self.lose_calls or self.abort_calls:
                self.post_drop_writes += 1
                if self.abort_calls:
                    return
            self.written += data
            self.chunks.append(bytes(data))

        def close(self):
            self.lose_calls += 1

        def abort(self):
            self.abort_calls += 1

        def is_closing(self):
            return bool(self.lose_calls or self.abort_calls)

        def can_write_eof(self):
            return False

        def pause_reading(self):
            pass

        def resume_reading(self):
            pass

        def set_write_buffer_limits(self, high=None, low=None):
            pass

        def get_write_buffer_size(self):
            return 0

        @property
        def dropped(self):
            return bool(self.lose_calls or self.abort_calls)

    def connect(proto, transport):
        proto.connection_made(transport)
        settle()

    def feed(proto, data):
        try:
            proto.data_received(data)
            settle()
        except Exception as e:  # noqa
            return e
        if LOOP.exceptions:
            ctx = LOOP.exceptions.pop(0)
            LOOP.exceptions.clear()
            return ctx.get("exception") or RuntimeError(str(ctx.get("message")))
        return None

    def lose(proto, clean=True):
        try:
            proto.connection_lost(None if clean else ConnectionResetError("peer reset"))
        except Exception as e:  # noqa
            _escaped("connection_lost", e)
        settle()


def feed_burst(proto, chunks):
    """several reads delivered back-to-back, without an event-loop turn in between (asyncio: data_received xN, then settle)"""
    if NAME == "tx":
        for ch in chunks:
            e = feed(proto, ch)
            if e is not None:
                return e
        return None
    try:
        for ch in chunks:
            proto.data_received(ch)
        settle()
    except Exception as e:  # noqa
        return e
    if LOOP.exceptions:
        ctx = LOOP.exceptions.pop(0)
        LOOP.exceptions.clear()
        return ctx.get("exception") or RuntimeError(str(ctx.get("message")))
    return None


def pump(max_steps=10000):
    """run zero-ish delay calls (the 10 microsecond send-queue pump) until none is due within 1 ms"""
    n = 0
    while n < max_steps:
        t = timers()
        if not t or t[0] - now() > 0.001:
            break
        advance(max(0.0, t[0] - now()))
        n += 1
    return n
