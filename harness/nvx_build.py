"""Rebuild the NVX C extensions (_nvx_utf8validator, _nvx_xormasker) from /repo's current
C sources into a scratch directory, so that checks see the working tree and not the stale
.so in site-packages.  Usage: python nvx_build.py OUTDIR  (prints OUTDIR on success)."""
import importlib.util
import os
import sys

REPO_SRC = os.environ.get("VERIF_REPO_SRC", "/repo/src")


def build(outdir):
    os.makedirs(outdir, exist_ok=True)
    sys.path.insert(0, REPO_SRC)
    for name in ("_utf8validator", "_xormasker"):
        path = os.path.join(REPO_SRC, "autobahn", "nvx", name + ".py")
        spec = importlib.util.spec_from_file_location("verif_nvx_build" + name, path)
        m = importlib.util.module_from_spec(spec)
        # executing the builder module defines `ffi` (cdef + set_source reading the .c file);
        # the trailing `from _nvx_... import lib` only runs inside class constructors.
        spec.loader.exec_module(m)
        m.ffi.compile(tmpdir=outdir, verbose=False)
    return outdir


if __name__ == "__main__":
    print(build(sys.argv[1]))
