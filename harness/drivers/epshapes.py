"""What endpoints hand back or raise in the C10 drivers (shared by wampsess_drv and invreal_drv)."""
from autobahn.wamp.types import CallResult

# what an endpoint may hand back as a CallResult: positional and keyword results, either, neither
CALLRESULTS = [((1, "two"), {"k": 3}), ((), {"total": 21, "unit": "EUR"}), ((), {}), ((7,), {}), (([], {}), {}), ((None,), {"k": None})]


def callresult(i):
    a, kw = CALLRESULTS[i % len(CALLRESULTS)]
    return CallResult(*a, **kw), ([x for x in a], dict(kw))


def plain_exception(i):
    """an exception that carries no error URI of its own and is not mapped: ordinary Python ones and the library's own
    non-application errors (an endpoint that forwards to another session whose transport is gone, a nested call with a bad URI)"""
    from autobahn.wamp import exception as X
    i = i % 4
    if i == 0:
        return KeyError("u1", 2), ["u1", 2]
    if i == 1:
        return X.TransportLost("u1", 2), ["u1", 2]
    if i == 2:
        return X.InvalidUriError("u1", 2), ["u1", 2]
    return X.SerializationError("u1", 2), ["u1", 2]
