"""G03 driver: autobahn.wamp.uri.Pattern on generated (pattern, URI) pairs given as component lists.
input: {mode: "all" | "sample", maxlen: int, n: int}"""
import itertools
import os
import random

from harness.common import driver_in, driver_out

from autobahn.wamp.uri import Pattern

PC = ([dict(k="lit", v=v, t="") for v in ("a", "b", "a1", "12", "a-b_c")]
      + [dict(k="named", v=v, t="") for v in ("x", "y")]
      + [dict(k="typed", v=v, t=t) for v in ("x", "z") for t in ("str", "string", "int", "suffix", "float", "")]
      + [dict(k="empty", v="", t="")]
      + [dict(k="bad", v=v, t="") for v in ("A", "<1x>", "a b", "<x:int:int>", "#")])
UC = ["a", "b", "a1", "12", "-5", "007", "x#y", "", "A", "a b"]
TARGETS = [Pattern.URI_TARGET_ENDPOINT, Pattern.URI_TARGET_HANDLER, Pattern.URI_TARGET_EXCEPTION]


def render(p):
    return ".".join({"lit": c["v"], "bad": c["v"], "empty": "", "named": "<%s>" % c["v"], "typed": "<%s:%s>" % (c["v"], c["t"])}[c["k"]] for c in p)


def one(p, u, target):
    obs = dict(construct="", ok=False, kw=[], args=0, esc="")
    try:
        try:
            pat = Pattern(render(p), target)
        except TypeError:
            obs["construct"] = "refused"
            return dict(ev="pat", p=p, u=u, obs=obs)
        obs["construct"] = {Pattern.URI_TYPE_EXACT: "exact", Pattern.URI_TYPE_WILDCARD: "wildcard", Pattern.URI_TYPE_PREFIX: "prefix"}[pat.uri_type]
        if pat.uri() != render(p):
            obs["esc"] = "uri() %r" % pat.uri()
        try:
            args, kw = pat.match(".".join(u))
            obs["ok"] = True
            obs["args"] = len(args)
            for k, v in kw.items():
                key = "#%d" % k if isinstance(k, int) else k
                if type(v) is int:
                    obs["kw"].append([key, "int", v])
                elif type(v) is str:
                    obs["kw"].append([key, "str", v])
                else:
                    obs["kw"].append([key, type(v).__name__, repr(v)])
        except ValueError:
            obs["ok"] = False
    except Exception as e:  # noqa
        obs["esc"] = type(e).__name__ + ":" + str(e)[:60]
    return dict(ev="pat", p=p, u=u, obs=obs)


def main():
    inp = driver_in()
    rng = random.Random(int(os.environ.get("VERIF_SEED", "0")) * 31 + 5)
    maxlen = int(inp.get("maxlen", 2))
    pats = [list(c) for n in range(1, maxlen + 1) for c in itertools.product(PC, repeat=n)]
    pats = [p for p in pats if render(p) != ""]                     # (the constructor asserts a non-empty string)
    uris = [list(c) for n in range(1, maxlen + 1) for c in itertools.product(UC, repeat=n)]
    traces = []
    if inp.get("mode") == "all":
        for p in pats:
            for u in uris:
                traces.append([one(p, u, TARGETS[(len(traces)) % 3])])
    else:
        # every pattern with a few URIs: one built to match, mutations of it, random ones
        for p in pats:
            fit = [c["v"] if c["k"] == "lit" else rng.choice(["a", "12", "-5", "007", "A"]) for c in p]
            cands = [fit, fit[:-1] or ["a"], fit + ["a"]] + [rng.choice(uris) for _ in range(2)]
            k = rng.randrange(len(fit))
            cands.append(fit[:k] + [rng.choice(UC)] + fit[k + 1:])
            for u in cands:
                traces.append([one(p, u, rng.choice(TARGETS))])
        for _ in range(int(inp.get("n", 2000))):
            n = rng.randint(1, maxlen + 1)
            p = [rng.choice(PC) for _ in range(n)]
            if render(p) == "":
                continue
            u = [rng.choice(UC) for _ in range(rng.choice([n, n, n, max(1, n - 1), n + 1]))]
            traces.append([one(p, u, rng.choice(TARGETS))])
    driver_out(dict(traces=traces, cases=len(traces)))


if __name__ == "__main__":
    main()
