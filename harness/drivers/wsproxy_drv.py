"""G01 driver: a real WebSocket client configured with an explicit proxy, against a scripted proxy."""
import os
import random

from harness import fw, wsx
from harness.common import driver_in, driver_out

if fw.NAME == "tx":
    from autobahn.twisted.websocket import WebSocketClientFactory
else:
    from autobahn.asyncio.websocket import WebSocketClientFactory

VERS = {"HTTP/1.1": "HTTP/1.1", "HTTP/1.0": "HTTP/1.0", "HTTP/2.0": "HTTP/2.0", "HTTP/0.9": "HTTP/0.9", "junk": "\xffjunk", "missing": ""}
CODES = {"200": "200", "204": "204", "299": "299", "199": "199", "300": "300", "301": "301", "403": "403", "407": "407", "500": "500", "nan": "2OO",
         "missing": ""}


def one(v, c, cuts, follow, rng):
    obs = dict(esc="", connectOk=False, upgradeSent=False, dropped=False, opened=False)
    try:
        f = WebSocketClientFactory("ws://target.example.com:9000/path", proxy={"host": "10.1.1.1", "port": 3128})
        log = []
        p, t = wsx.make_client(log=log, factory=f)
        fw.settle()
        first = bytes(t.written)
        obs["connectOk"] = first == b"CONNECT target.example.com:9000 HTTP/1.1\r\nHost: target.example.com:9000\r\n\r\n"
        line = (VERS[v] + " " + CODES[c]).strip()
        if c != "missing" and v != "missing":
            line += " Whatever reason"
        resp = line.encode("latin-1") + b"\r\nVia: 1.1 proxy\r\nX-Bin: \xff\xfe\r\n\r\n"
        pos = sorted(set(int(x * len(resp)) for x in cuts))
        chunks, prev = [], 0
        for q in pos:
            if 0 < q < len(resp) and q > prev:
                chunks.append(resp[prev:q])
                prev = q
        chunks.append(resp[prev:])
        for ch in chunks:
            e = fw.feed(p, ch)
            if e is not None:
                obs["esc"] = obs["esc"] or (type(e).__name__ + ":" + str(e)[:50])
            fw.settle()
        later = bytes(t.written)[len(first):]
        obs["upgradeSent"] = later.startswith(b"GET /path HTTP/1.1\r\n") and b"Upgrade: WebSocket" in later or (b"upgrade: websocket" in later.lower() and later.startswith(b"GET /path"))
        d = t.dropped
        obs["dropped"] = bool(d() if callable(d) else d)
        if follow and obs["upgradeSent"] and not obs["dropped"]:
            key = None
            for ln in later.split(b"\r\n"):
                if ln.lower().startswith(b"sec-websocket-key:"):
                    key = ln.split(b":", 1)[1].strip()
            e = fw.feed(p, b"HTTP/1.1 101 Switching Protocols\r\nUpgrade: websocket\r\nConnection: Upgrade\r\nSec-WebSocket-Accept: " + wsx.accept_for(key) + b"\r\n\r\n")
            fw.settle()
            if e is not None:
                obs["esc"] = obs["esc"] or (type(e).__name__ + ":" + str(e)[:50])
        obs["opened"] = any(x[0] == "onOpen" for x in log)
    except Exception as e:  # noqa
        obs["esc"] = obs["esc"] or ("drv:" + type(e).__name__ + ":" + str(e)[:60])
    fw.reset()
    return dict(ev="proxy", v=v, c=c, follow=bool(follow), ncuts=len(cuts), obs=obs)


def main():
    inp = driver_in()
    rng = random.Random(int(os.environ.get("VERIF_SEED", "0")) * 13 + 1)
    traces = []
    for v in VERS:
        for c in CODES:
            for k in range(inp.get("reps", 3)):
                cuts = [rng.random() for _ in range(rng.choice([0, 1, 2, 5]))]
                traces.append([one(v, c, cuts, rng.random() < 0.6, rng)])
    driver_out(dict(fw=fw.NAME, traces=traces, cases=len(traces)))


if __name__ == "__main__":
    main()
