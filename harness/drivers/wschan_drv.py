"""C01 / C12 / C16(send) / C15(policy) driver: a real client and a real server joined by an in-memory pipe; seeded
random scenarios over the public send APIs, option grids and read segmentations; records traces for WsChannelTrace.tla.

input: {n: scenarios, shard, profile: "c01" | "c12" | "c16", lens: [...]}
"""
import os
import random
import zlib

from harness import fw, wsx
from harness.common import driver_in, driver_out
from autobahn.websocket.protocol import WebSocketProtocol as WSP
from autobahn.websocket.compress import (PerMessageDeflateOffer, PerMessageDeflateOfferAccept,
                                         PerMessageDeflateResponse, PerMessageDeflateResponseAccept)
from autobahn.exception import PayloadExceededError  # noqa

LENS = [0, 1, 2, 125, 126, 127, 128, 300, 65535, 65536, 65537, 200003]
MB = ["é".encode(), "€".encode(), "𝄞".encode(), "κ".encode(), b"a", b"Z", b"0"]


VOCAB = [b"alpha-alpha-alpha ", b"bravo_bravo_bravo ", b"charlie.charlie ", b"delta delta delta delta ", b"echo!", b"foxtrot-"]


def payload_for(mid, n, binary, vocab=False):
    rng = random.Random(mid * 1000003 + n)
    if vocab and n > 8:
        # compressible payloads sharing a vocabulary across messages (exercises compression context reuse)
        out = bytearray(("%d:" % mid).encode())
        while len(out) < n:
            out += rng.choice(VOCAB)
        return bytes(out[:n])
    if binary:
        head = mid.to_bytes(4, "big")[:n]
        return head + bytes(rng.getrandbits(8) for _ in range(min(n - len(head), 4096))) * 1 + \
            (bytes([mid & 0xFF]) * max(0, n - len(head) - 4096))
    out = bytearray()
    tag = ("%d:" % mid).encode()
    out += tag[:n]
    while len(out) < n:
        c = rng.choice(MB)
        if len(out) + len(c) <= n:
            out += c
        else:
            out += b"x" * (n - len(out))
        if len(out) > 5000:
            out += b"y" * (n - len(out))
    return bytes(out)


class Scenario:
    def __init__(self, rng, profile, lens):
        self.rng = rng
        self.profile = profile
        self.lens = lens
        self.trace = []
        self.next_id = 1
        self.undelivered = {"C": [], "S": []}      # per sender: [(id, bin, payload)]
        self.parse_pos = {"C": 0, "S": 0}
        self.keys = {"C": [], "S": []}
        self.masked_frames = {"C": 0, "S": 0}
        self.unmasked_frames = {"C": 0, "S": 0}
        self.problems = []

    # ---- setup
    def setup(self):
        rng = self.rng
        sopts, copts = {}, {}
        o = dict(compress=False, limit={"C": 0, "S": 0}, mask={"C": True, "S": False})
        r = rng.random()
        if self.profile == "c15":
            pass                                   # all defaults: the mask *policy* is what is observed
        else:
            if r < 0.15:
                copts["maskClientFrames"] = False
                sopts["requireMaskedClientFrames"] = False
                o["mask"]["C"] = False
            elif r < 0.3:
                sopts["maskServerFrames"] = True
                copts["acceptMaskedServerFrames"] = True
                o["mask"]["S"] = True
            if rng.random() < 0.15:
                sopts["applyMask"] = False
                copts["applyMask"] = False
            if rng.random() < 0.25:
                w = rng.choice(["C", "S"])
                (copts if w == "C" else sopts)["autoFragmentSize"] = rng.choice([1, 2, 125, 126, 1000, 65536])
            if rng.random() < 0.1:
                sopts["utf8validateIncoming"] = False
                copts["utf8validateIncoming"] = False
        comp = {"c01": 0.3, "c12": 1.0, "c16": 0.5, "c15": 0.0, "c16d": 1.0}[self.profile]
        self.cparams = None
        if rng.random() < comp:
            o["compress"] = True
            self.cparams = self.compression(sopts, copts)
        if o["compress"] and self.profile == "c12" and rng.random() < 0.4:
            # the client offers further compression extensions around the one the server will pick (any order)
            from autobahn.websocket.compress import PERMESSAGE_COMPRESSION_EXTENSION as X
            mine = copts["perMessageCompressionOffers"]
            decoys = [X[k]["Offer"]() for k in sorted(X) if not isinstance(mine[0], X[k]["Offer"])]
            rng.shuffle(decoys)
            offers = mine + decoys[:rng.randint(1, max(1, len(decoys)))]
            rng.shuffle(offers)
            copts["perMessageCompressionOffers"] = offers
            self.cparams["offered"] = [type(x).__name__ for x in offers]
        self.limit_who = None
        if self.profile == "c16" or (self.profile == "c01" and not o["compress"] and rng.random() < 0.15):
            w = rng.choice(["C", "S"])
            lim = rng.choice([1, 125, 126, 1000, 65535, 65536])
            (copts if w == "C" else sopts)["maxMessagePayloadSize"] = lim
            if rng.random() < 0.4:
                (copts if w == "C" else sopts)["maxFramePayloadSize"] = lim      # both limits, same value, one call
            o["limit"][w] = lim
            self.limit_who = w
            mine, other_opts = (copts, sopts) if w == "C" else (sopts, copts)
            r_ = rng.random()
            if r_ < 0.2:
                # the limits as class attributes of the protocol subclass instead of factory options
                mine["_attrs"] = {k: mine.pop(k) for k in ("maxMessagePayloadSize", "maxFramePayloadSize") if k in mine}
            elif r_ < 0.4:
                # configured in two steps: another value first
                mine["_pre"] = dict(maxMessagePayloadSize=rng.choice([0, 7, lim + 1000]))
            if rng.random() < 0.3:
                # the peer had a limit that was lifted again (0 = unlimited): it has none
                other_opts["_pre"] = dict(maxMessagePayloadSize=rng.choice([1, 5, 100]), maxFramePayloadSize=rng.choice([0, 5]))
                other_opts["maxMessagePayloadSize"] = 0
                other_opts["maxFramePayloadSize"] = 0
        # a receiver with a *frame* size limit only: fragmented messages larger than the limit must still arrive
        self.frame_limit = None
        if self.profile == "c01" and not o["compress"] and not self.limit_who and rng.random() < 0.12:
            r_ = rng.choice(["C", "S"])
            F = rng.choice([126, 1000, 65536])
            (copts if r_ == "C" else sopts)["maxFramePayloadSize"] = F
            self.frame_limit = (r_, F)
        o["dlimit"] = {"C": 0, "S": 0}
        if self.profile == "c16d":
            o["dlimit"] = dict(self.dlimit)
        self.o = o
        # the scenario may end with a closing handshake begun right behind queued sends (everything sent before must arrive)
        self.closer = ""
        if self.profile in ("c01", "c12") and not self.limit_who and not self.frame_limit and not any(o["limit"].values()) and rng.random() < 0.3:
            self.closer = rng.choice(["C", "S"])
            # (hundreds of thousands of queued one-octet frames take seconds of virtual time to drain, 10 microseconds a piece: the
            # closing-handshake timers are C05's and C17's business and are switched off here - found as a false alarm, DESIGN 15)
            sopts["closeHandshakeTimeout"] = 0
            copts["closeHandshakeTimeout"] = 0
            copts["serverConnectionDropTimeout"] = 0
        self.pair = wsx.Pair(sopts=sopts, copts=copts)
        self.only_who = None
        self.no_net = False
        if self.profile == "c01" and not self.limit_who and not self.frame_limit and rng.random() < 0.15:
            return self.setup_early()
        ok = self.pair.handshake()
        assert ok, "handshake failed"
        assert (self.pair.s._perMessageCompress is not None) == o["compress"], "compression negotiation mismatch"
        if o["compress"] and type(self.pair.s._perMessageCompress) is not type(self.pair.c._perMessageCompress):
            self.problems.append(dict(scenario=-1, problem="server runs %s, client runs %s" % (
                type(self.pair.s._perMessageCompress).__name__, type(self.pair.c._perMessageCompress).__name__)))
        self.pair.ct.take(0)
        # handshake octets are not frames
        self.parse_pos["C"] = len(self.pair.ct.written)
        self.parse_pos["S"] = len(self.pair.st.written)
        self.pair.st.read_pos = len(self.pair.st.written)
        self.pair.ct.read_pos = len(self.pair.ct.written)
        del self.pair.log[:]
        self.trace.append(dict(ev="open", compress=o["compress"], limit=o["limit"], mask=o["mask"], dlimit=o["dlimit"], closer=self.closer))

    def setup_early(self):
        """the server starts talking as soon as it has accepted the request: its first messages reach the client in the
        same read(s) as the 101 response"""
        rng, o = self.rng, self.o
        fw.settle()
        self.pair.deliver("S")
        fw.settle()
        assert self.pair.s.state == wsx.WSP.STATE_OPEN, "server did not accept the request"
        assert (self.pair.s._perMessageCompress is not None) == o["compress"], "compression negotiation mismatch"
        resp = bytes(self.pair.st.written)
        self.parse_pos["C"] = len(self.pair.ct.written)
        self.parse_pos["S"] = resp.index(b"\r\n\r\n") + 4
        self.trace.append(dict(ev="open", compress=o["compress"], limit=o["limit"], mask=o["mask"], dlimit=o["dlimit"], closer=self.closer))
        self.no_net, self.only_who = True, "S"
        for _ in range(rng.randint(1, 4)):
            self.op_send()
        self.no_net = False
        self.only_who = rng.choice([None, "C"])         # sometimes the server says nothing more afterwards
        buf = self.pair.st.unread()
        cuts = [rng.randint(1, len(buf) - 1) for _ in range(rng.choice([0, 0, 1, 2]))]
        for a, b in zip([0] + sorted(cuts), sorted(cuts) + [len(buf)]):
            if b > a:
                self.pair.deliver("C", b - a)
                fw.settle()
        assert self.pair.c.state == wsx.WSP.STATE_OPEN, "handshake failed"
        self.collect()

    def compression_other(self, sopts, copts, ext):
        """bzip2 / brotli with default parameters (generic offer -> accept -> response-accept through the extension map)"""
        from autobahn.websocket.compress import PERMESSAGE_COMPRESSION_EXTENSION as X
        cls = X[ext]
        rng = self.rng
        okw, akw, rkw = {}, (lambda of: {}), (lambda resp: {})
        if ext == "permessage-brotli" and rng.random() < 0.7:
            # context takeover negotiated per direction (also asymmetrically), with and without local overrides
            okw = dict(accept_no_context_takeover=rng.random() < 0.7, request_no_context_takeover=rng.random() < 0.4)
            s_req, s_ovr, c_ovr = rng.random() < 0.5, rng.choice([None, None, True]), rng.choice([None, None, True])
            akw = lambda of: dict(request_no_context_takeover=s_req and of.accept_no_context_takeover, no_context_takeover=s_ovr)   # noqa: E731
            rkw = lambda resp: dict(no_context_takeover=c_ovr)                                                                     # noqa: E731
        elif ext == "permessage-bzip2" and rng.random() < 0.7:
            o_req = rng.choice([0, 0, 1, 5, 9])
            okw = dict(accept_max_compress_level=rng.random() < 0.7, request_max_compress_level=o_req)
            s_req, s_lvl, c_lvl = rng.choice([0, 0, 1, 6, 9]), rng.choice([None, 1, 9]), rng.choice([None, 1, 9])
            akw = lambda of: dict(request_max_compress_level=s_req if of.accept_max_compress_level else 0,                        # noqa: E731
                                  compress_level=None if s_lvl is None else (min(s_lvl, of.request_max_compress_level) if of.request_max_compress_level else s_lvl))
            rkw = lambda resp: dict(compress_level=None if c_lvl is None else                                                      # noqa: E731
                                    (min(c_lvl, resp.client_max_compress_level) if resp.client_max_compress_level else c_lvl))

        def accept(offers):
            for of in offers:
                if isinstance(of, cls["Offer"]):
                    return cls["OfferAccept"](of, **akw(of))

        def caccept(resp):
            if isinstance(resp, cls["Response"]):
                return cls["ResponseAccept"](resp, **rkw(resp))

        sopts["perMessageCompressionAccept"] = accept
        copts["perMessageCompressionOffers"] = [cls["Offer"](**okw)]
        copts["perMessageCompressionAccept"] = caccept
        self.dlimit = {"C": 0, "S": 0}
        return dict(ext=ext, params=repr(sorted(okw.items())))

    def compression(self, sopts, copts):
        rng = self.rng
        if self.profile == "c12" and rng.random() < 0.3:
            from autobahn.websocket.compress import PERMESSAGE_COMPRESSION_EXTENSION as X
            others = sorted(k for k in X if k != "permessage-deflate")
            if others:
                return self.compression_other(sopts, copts, rng.choice(others))
        wb_req = rng.choice([0, 9, 10, 12, 15])
        offer = PerMessageDeflateOffer(accept_no_context_takeover=rng.random() < 0.5, accept_max_window_bits=rng.random() < 0.7,
                                       request_no_context_takeover=rng.random() < 0.4, request_max_window_bits=wb_req)
        s_nct = rng.random() < 0.4
        s_wb = rng.choice([0, 9, 11, 15])
        memlevel = rng.choice([None, 1, 8, 9])
        maxsz = None
        self.dlimit = {"C": 0, "S": 0}
        smax = cmax = None
        if self.profile == "c16d":
            # a decompression size limit at one receiving end
            lim = rng.choice([16, 100, 1000, 65536])
            if rng.random() < 0.5:
                smax = lim
                self.dlimit["S"] = lim
            else:
                cmax = lim
                self.dlimit["C"] = lim

        def accept(offers):
            for of in offers:
                if isinstance(of, PerMessageDeflateOffer):
                    return PerMessageDeflateOfferAccept(
                        of,
                        request_no_context_takeover=s_nct and of.accept_no_context_takeover,
                        request_max_window_bits=s_wb if of.accept_max_window_bits else 0,
                        mem_level=memlevel, max_message_size=smax)

        def caccept(resp):
            if isinstance(resp, PerMessageDeflateResponse):
                return PerMessageDeflateResponseAccept(resp, mem_level=memlevel, max_message_size=cmax)

        sopts["perMessageCompressionAccept"] = accept
        copts["perMessageCompressionOffers"] = [offer]
        copts["perMessageCompressionAccept"] = caccept
        return dict(wb_req=wb_req, s_nct=s_nct, s_wb=s_wb, memlevel=memlevel)

    # ---- observation
    def collect(self):
        """turn what happened since the last call into wire / deliver events (wire first: a frame is on the wire before
        the peer can see it)"""
        for w in ("C", "S"):
            t = self.pair.tr(w)
            buf = bytes(t.written[self.parse_pos[w]:])
            frames, rest = wsx.split_frames(buf)
            if frames:
                self.parse_pos[w] += len(buf) - len(rest)
                fl = []
                for f in frames:
                    fl.append(dict(h=f["hdr"], plen=f["plen"]))
                    if f["hdr"][1] & 0x80:
                        self.masked_frames[w] += 1
                        self.keys[w].append(bytes(f["hdr"][-4:]))
                    else:
                        self.unmasked_frames[w] += 1
                self.trace.append(dict(ev="wire", who=w, frames=fl))
        for e in self.pair.log:
            if e[0] == "onMessage":
                to = e[1]
                w = "C" if to == "S" else "S"
                payload, isbin = e[2], e[3]
                # frame-level receive callbacks that led to this onMessage: tags (runs of "fd" collapsed), frame count, data octets
                tags, nfb, fdsum, fbsum = [], 0, 0, 0
                for tag, n in (e[4] if len(e) > 4 else []):
                    if tag == "fd":
                        fdsum += n
                        if tags and tags[-1] == "fd":
                            continue
                    if tag == "fb":
                        nfb += 1
                        fbsum += n
                    tags.append(tag)
                cbk = dict(cb=tags, nfb=nfb, fdsum=fdsum)
                cand = [m for m in self.undelivered[w] if m[2] == payload and m[1] == isbin]
                if cand:
                    m = cand[0]
                    self.undelivered[w].remove(m)
                    self.trace.append(dict(ev="deliver", to=to, id=m[0], bin=isbin, len=len(payload), same=True, **cbk))
                else:
                    self.trace.append(dict(ev="deliver", to=to, id=0, bin=isbin, len=len(payload), same=False, **cbk))
            elif e[0] == "escape":
                self.trace.append(dict(ev="escape", at=e[1], exc=e[2]))
            elif e[0] == "onClose":
                self.trace.append(dict(ev="closed", at=e[1], clean=e[2], code=e[3] if isinstance(e[3], int) else 0))
        del self.pair.log[:]

    # ---- operations
    def pick_len(self, w):
        rng = self.rng
        other_ = "S" if w == "C" else "C"
        if self.o.get("dlimit", {}).get(other_):
            lim = self.o["dlimit"][other_]
            return rng.choice([lim - 1, lim, lim + 1, lim * 3, 5, lim // 2])
        if self.o["limit"][w]:
            lim = self.o["limit"][w]
            return rng.choice([max(0, lim - 1), lim, lim + 1, lim * 3 + 1, 0, 1])
        other = "S" if w == "C" else "C"
        if self.o["limit"][other]:
            return rng.choice([0, 1, min(2, self.o["limit"][other])])       # never above the receiver's own limit
        return rng.choice(self.lens)

    def op_send(self, force_sync=None):
        rng = self.rng
        w = rng.choice(["C", "S"])
        if self.only_who:
            w = self.only_who
        if self.limit_who:
            w = self.limit_who          # the peer of a limited endpoint stays silent (its frames would hit the receive limit: C16 recv side)
        p = self.pair.proto(w)
        n = self.pick_len(w)
        binary = rng.random() < 0.5
        mid = self.next_id
        self.next_id += 1
        payload = payload_for(mid, n, binary, vocab=self.o["compress"] and rng.random() < 0.7)
        dnc = self.o["compress"] and rng.random() < 0.25
        apis = ["msg", "msg", "msg", "prepared", "frames", "stream", "rawframes"]
        if self.o["limit"][w]:
            apis = ["msg"]
        api = rng.choice(apis)
        flim = None
        if self.frame_limit and self.frame_limit[0] != w:
            flim = self.frame_limit[1]       # the peer limits the size of a single frame: send in frames within that limit
            api = "msg"
        if api == "prepared" and not getattr(p, "applyMask", True):
            api = "msg"                 # prepared messages ignore the (benchmark-only) applyMask=False option
        exc = ""
        sync = rng.random() < 0.25
        if force_sync is not None:
            sync, api = force_sync, ("msg" if api in ("frames", "stream", "rawframes") else api)
        if api in ("stream", "rawframes") and self.o["compress"]:
            dnc = True              # the streaming API and sendFrame() never compress
        # the send event precedes whatever the call writes (multi-call APIs interleave with network steps)
        sev = dict(ev="send", who=w, id=mid, bin=binary, len=n, dnc=bool(dnc), api=api, exc="")
        self.trace.append(sev)
        self.undelivered[w].append((mid, binary, payload))
        try:
            if api == "msg":
                frag = rng.choice([None, None, 1, 2, 125, 126, max(1, n - 1), max(1, n), n + 1, 65536]) if n < 3000 else \
                    rng.choice([None, 125, 4096, 65535, 65536, n - 1, n, n + 1])
                if flim is not None:
                    frag = rng.choice([1 if n < 300 else 100, 125, flim - 1, flim])
                p.sendMessage(payload, isBinary=binary, fragmentSize=frag, sync=sync, doNotCompress=bool(dnc))
            elif api == "prepared":
                pm = p.factory.prepareMessage(payload, isBinary=binary, doNotCompress=bool(dnc))
                p.sendPreparedMessage(pm)
            elif api == "rawframes":
                # the low-level frame call, with write chopping: a frame goes to the transport in pieces of `chopsize` octets
                k = rng.randint(1, 3)
                cuts = sorted(rng.randint(0, n) for _ in range(k - 1))
                parts = list(zip([0] + cuts, cuts + [n]))
                for idx, (a, b) in enumerate(parts):
                    chop = rng.choice([None, 1, 2, 7, 64, 1000, b - a + 20]) if b - a < 5000 else rng.choice([None, 4096, 65536])
                    kw = {}
                    if b - a >= 2 and (b - a) % 2 == 0 and payload[a:b] == payload[a:a + 2] * ((b - a) // 2):
                        kw = dict(payload_len=b - a)         # (a repeated pattern may be given once, with the length to fill)
                    p.sendFrame(opcode=((2 if binary else 1) if idx == 0 else 0), payload=(payload[a:a + 2] if kw else payload[a:b]),
                                fin=(idx == len(parts) - 1), chopsize=chop, sync=rng.random() < 0.3, **kw)
                    if rng.random() < 0.3 and not self.no_net:
                        self.net_step()
            elif api == "frames":
                p.beginMessage(isBinary=binary, doNotCompress=bool(dnc))
                k = rng.randint(1, 4)
                cuts = sorted(rng.randint(0, n) for _ in range(k - 1))
                for a, b in zip([0] + cuts, cuts + [n]):
                    p.sendMessageFrame(payload[a:b], sync=rng.random() < 0.2)
                    if rng.random() < 0.3 and not self.no_net:
                        self.net_step()
                p.endMessage()
            else:
                # streaming API: frames fully supplied, data in arbitrary chunks (compression is not applied by this API)
                dnc = True if self.o["compress"] else dnc
                p.beginMessage(isBinary=binary, doNotCompress=True)
                k = rng.randint(1, 3)
                cuts = sorted(rng.randint(0, n) for _ in range(k - 1))
                for a, b in zip([0] + cuts, cuts + [n]):
                    if b - a == 0 and rng.random() < 0.5:
                        continue
                    p.beginMessageFrame(b - a)
                    pos = a
                    if b == a:
                        p.sendMessageFrameData(b"")        # a zero-length frame is completed by an empty data call
                    while pos < b:
                        c = min(b - pos, rng.choice([1, 2, 7, 1000, b - a]))
                        over = 0
                        if pos + c == b and rng.random() < 0.3:
                            over = rng.choice([1, 3, 50])      # a chunk that overruns the frame: only the part that fits belongs to it
                        rest = p.sendMessageFrameData(payload[pos:pos + c + over], sync=rng.random() < 0.15)
                        if over and rest is not None and rest != -min(over, n - (pos + c)) and rest != -over:
                            self.problems.append(dict(scenario=self.sid if hasattr(self, "sid") else -1, problem="sendMessageFrameData overrun returned %r" % rest))
                        pos += c
                    if rng.random() < 0.3 and not self.no_net:
                        self.net_step()
                p.endMessage()
        except Exception as e:  # noqa
            exc = type(e).__name__
        sev["exc"] = exc
        if exc != "":
            self.undelivered[w].remove((mid, binary, payload))
        self.collect()

    def final_close(self):
        """the closer sends 1-3 more messages that wait in its send queue (sync) and calls sendClose() at once; then the
        network and the send queues run until both ends are closed.  Returns whether both ends ended up closed."""
        rng, w = self.rng, self.closer
        self.only_who, self.no_net = w, True
        for _ in range(rng.randint(1, 3)):
            self.op_send(force_sync=rng.random() < 0.8)
        self.only_who, self.no_net = None, False
        self.trace.append(dict(ev="lclose", who=w))
        try:
            self.pair.proto(w).sendClose()
        except Exception as e:  # noqa
            self.problems.append(dict(scenario=-1, problem="sendClose raised %s" % type(e).__name__))
        self.collect()
        for _ in range(300):
            fw.pump()
            moved = 0
            for to in ("S", "C"):
                src = self.pair.ct if to == "S" else self.pair.st
                buf = src.unread()
                if buf:
                    k = rng.choice(self.boundaries(buf)) if rng.random() < 0.5 else len(buf)
                    moved += self.pair.deliver(to, k)
            self.collect()
            quiet = not moved and not fw.pump() and not self.pair.ct.unread() and not self.pair.st.unread()
            if quiet and (self.pair.st.dropped or self.pair.ct.dropped):
                # the TCP connection goes down once everything written has been read
                self.pair.lose("S")
                self.pair.lose("C")
                self.collect()
                break
            if quiet:
                break
        self.collect()
        return self.pair.s.state == WSP.STATE_CLOSED and self.pair.c.state == WSP.STATE_CLOSED

    def boundaries(self, buf):
        """interesting cut positions in an unread buffer"""
        pts = {1, len(buf)}
        i = 0
        n = len(buf)
        for _ in range(3):
            if n - i < 2:
                break
            l1 = buf[i + 1] & 0x7F
            hl = 2 + (2 if l1 == 126 else 8 if l1 == 127 else 0) + (4 if buf[i + 1] & 0x80 else 0)
            if n - i < hl:
                break
            pl = l1 if l1 < 126 else int.from_bytes(buf[i + 2:i + 4], "big") if l1 == 126 else int.from_bytes(buf[i + 2:i + 10], "big")
            for p in (i + 1, i + 2, i + 3, i + hl - 1, i + hl, i + hl + 1, i + hl + pl - 1, i + hl + pl, i + hl + pl + 1):
                if 0 < p <= n:
                    pts.add(p)
            i += hl + pl
        return sorted(pts)

    def net_step(self):
        rng = self.rng
        r = rng.random()
        if r < 0.25:
            fw.pump(rng.randint(1, 3))
        else:
            to = rng.choice(["C", "S"])
            src = self.pair.ct if to == "S" else self.pair.st
            buf = src.unread()
            if buf:
                k = rng.choice(self.boundaries(buf)) if rng.random() < 0.7 else len(buf)
                burst = None
                if rng.random() < 0.3:
                    burst = [rng.randint(1, max(1, k - 1)) for _ in range(rng.randint(1, 3))]     # back-to-back reads
                self.pair.deliver(to, k, burst=burst)
        self.collect()

    def run(self):
        rng = self.rng
        self.setup()
        nops = rng.randint(2, 9)
        for _ in range(nops):
            if rng.random() < 0.55:
                self.op_send()
            else:
                self.net_step()
        # drain
        for _ in range(200):
            fw.pump()
            moved = 0
            for to in ("S", "C"):
                src = self.pair.ct if to == "S" else self.pair.st
                buf = src.unread()
                if buf:
                    k = rng.choice(self.boundaries(buf)) if rng.random() < 0.5 else len(buf)
                    burst = [rng.randint(1, max(1, k - 1)) for _ in range(2)] if rng.random() < 0.3 else None
                    moved += self.pair.deliver(to, k, burst=burst)
            self.collect()
            if not moved and not fw.pump() and not self.pair.ct.unread() and not self.pair.st.unread():
                break
        self.collect()
        ok_state = self.pair.s.state == WSP.STATE_OPEN and self.pair.c.state == WSP.STATE_OPEN
        if ok_state and self.closer:
            ok_state = self.final_close()
        if not ok_state:
            self.trace.append(dict(ev="closed", at="?", clean=False, code=0))
        self.trace.append(dict(ev="end"))
        streams = {"C": bytes(self.pair.ct.written), "S": bytes(self.pair.st.written)}
        fw.reset()
        return streams


def main():
    inp = driver_in()
    seed = int(os.environ.get("VERIF_SEED", "0"))
    rng = random.Random(seed * 7907 + inp.get("shard", 0) * 104729 + 17)
    traces, problems, policy = [], [], []
    lens = inp.get("lens") or LENS
    for i in range(inp["n"]):
        # the library draws its masking keys from the global generator: seeded per scenario, so that a run is reproducible octet
        # for octet (cut positions inside masked frames depend on the octets)
        random.seed(seed * 1000003 + inp.get("shard", 0) * 7919 + i)
        sc = Scenario(rng, inp.get("profile", "c01"), lens)
        try:
            sc.run()
        except AssertionError as e:
            problems.append(dict(scenario=i, problem="harness assertion: %s" % e))
            fw.reset()
            continue
        traces.append(sc.trace)
        for pr in sc.problems:
            problems.append(dict(scenario=i, problem=pr, trace_index=len(traces) - 1))
        if inp.get("profile") == "c15":
            policy.append(dict(client_masked=sc.masked_frames["C"], client_unmasked=sc.unmasked_frames["C"],
                               server_masked=sc.masked_frames["S"], server_unmasked=sc.unmasked_frames["S"],
                               client_keys=[list(k) for k in sc.keys["C"]]))
    driver_out(dict(fw=fw.NAME, traces=traces, problems=problems, policy=policy, cases=inp["n"]))


if __name__ == "__main__":
    main()
