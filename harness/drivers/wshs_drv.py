"""C07 driver: concretises the request / response feature tables exported from spec/WsHandshake.tla into octets, feeds them
to real server / client endpoints in several spellings and read segmentations, plus client request construction, the
own-client x own-server option matrix and arbitrary / mutated octet strings.
input: {mode: "server"|"client"|"creq"|"pair"|"fuzz", table: [...], shard, nshards, n}"""
import base64
import hashlib
import os
import random
import re

import txaio
from harness import fw, wsx
from harness.common import driver_in, driver_out
from autobahn.websocket.protocol import WebSocketProtocol as WSP
from autobahn.websocket.types import ConnectionDeny

KEY_OK = b"dGhlIHNhbXBsZSBub25jZQ=="


def variants(rng, name, value):
    """header-name case and optional whitespace variants"""
    n = rng.choice([name, name.lower(), name.upper()])
    sp = rng.choice([b" ", b"", b"  ", b"\t"])
    return n + b":" + sp + value + rng.choice([b"", b" "])


def dup(rng, name, value, other=None):
    """the same header twice: names in independently chosen case (header names are case-insensitive), values equal or not"""
    n1 = rng.choice([name, name.lower(), name.upper()])
    n2 = rng.choice([name, name.lower(), name.upper(), name.title()])
    v2 = value if (other is None or rng.random() < 0.5) else other
    pair = [n1 + b": " + value, n2 + b": " + v2]
    rng.shuffle(pair)
    return pair


def build_request(r, rng):
    line = {"ok": b"GET /chat?x=1 HTTP/1.1", "post": b"POST /chat HTTP/1.1", "http10": b"GET /chat HTTP/1.0",
            "two-parts": b"GET /chat", "fragment": b"GET /chat#frag HTTP/1.1",
            "badversion": b"GET /chat HTTP/" + rng.choice([b"1.x", b"1.1junk", b"1.1.1", b"x", b"~", b"\xb9.\xb9", b"1,1", b"11"])}[r["line"]]
    h = []
    if r["host"] == "ok":
        # (every spelling of a host with the right port or with none: names, IPv4 and bracketed IPv6 literals, and the
        # unbracketed "::1:9000" that the library's own client writes for ws://[::1]:9000)
        h.append(variants(rng, b"Host", rng.choice([b"localhost:9000", b"localhost:9000", b"localhost", b"127.0.0.1:9000", b"[::1]:9000",
                                                     b"[2001:db8::1]:9000", b"[::1]", b"example.com:9000", b"::1:9000"])))
    elif r["host"] == "dup":
        h += dup(rng, b"Host", b"localhost:9000", b"otherhost:9000")
    elif r["host"] == "badport":
        h.append(b"Host: localhost:abc")
    up = {"ok": b"websocket", "ok-mixedcase": b"WebSocket", "ok-in-list": b"foo, websocket", "other": b"h2c",
          "superstring": rng.choice([b"websocket2", b"xwebsocket", b"websockets", b"not-websocket/1.0"])}.get(r["upgrade"])
    if up is not None:
        h.append(variants(rng, b"Upgrade", up))
    co = {"ok": b"Upgrade", "ok-in-list": b"keep-alive, Upgrade", "other": b"close"}.get(r["conn"])
    if co is not None:
        h.append(variants(rng, b"Connection", co))
    v = r["version"]
    if v in ("ok", "ok-8", "unsupported", "nonint"):
        h.append(variants(rng, b"Sec-WebSocket-Version", {"ok": b"13", "ok-8": b"8", "unsupported": b"99", "nonint": b"abc"}[v]))
    elif v == "dup":
        h += dup(rng, b"Sec-WebSocket-Version", b"13", b"8")
    k = r["key"]
    key = KEY_OK
    if k == "ok":
        h.append(variants(rng, b"Sec-WebSocket-Key", KEY_OK))
    elif k == "dup":
        h += dup(rng, b"Sec-WebSocket-Key", KEY_OK, b"AAAAAAAAAAAAAAAAAAAAAA==")
    elif k == "short":
        h.append(b"Sec-WebSocket-Key: dGhlIHNhbXBsZQ==")
    elif k == "badpad":
        h.append(b"Sec-WebSocket-Key: dGhlIHNhbXBsZSBub25jZQAA")
    elif k == "badchar":
        bad = bytearray(KEY_OK)
        for pos in rng.sample(range(22), rng.choice([1, 1, 2, 5])):
            bad[pos] = rng.choice(b"*!~\x7f")
        if rng.random() < 0.3:
            bad[rng.randrange(22)] = rng.choice([0x80, 0xE9, 0xFF])
        h.append(b"Sec-WebSocket-Key: " + bytes(bad))
    o = r["origin"]
    okey = b"Sec-WebSocket-Origin" if v == "ok-8" else b"Origin"
    oval = {"ok-allowed": rng.choice([b"http://good.example.com", b"http://good.example.com:80", b"HTTP://GOOD.example.com"]),
            "notallowed": rng.choice([b"http://evil.example.com", b"https://good.example.com", b"http://good.example.com.evil.org",
                                      b"http://good.example.com:0", b"http://good.example.com:00"]),      # (port 0 is a port, not "no port")
            "allowed-as-prefix": rng.choice([b"http://good.example.com:8080", b"http://good.example.com:800"]),
            "null": rng.choice([b"null", b"file:///tmp/x.html"]), "unparsable": rng.choice([b"http://", b"http://[::1", b"://x"])}.get(o)
    if oval is not None:
        h.append(variants(rng, okey, oval))
    elif o == "dup":
        h += dup(rng, okey, b"http://good.example.com", b"http://evil.example.com")
    if r["protos"] == "ok-list":
        h.append(variants(rng, b"Sec-WebSocket-Protocol", rng.choice([b"chat, superchat", b"superchat,chat", b"chat"])))
    elif r["protos"] == "dup":
        h.append(b"Sec-WebSocket-Protocol: chat, chat")
    e = r["exts"]
    if e == "ok-deflate":
        h.append(variants(rng, b"Sec-WebSocket-Extensions", b"permessage-deflate; client_max_window_bits"))
    elif e == "ok-unknown":
        h.append(variants(rng, b"Sec-WebSocket-Extensions", b"x-foo-bar; a=1"))
    elif e == "dup":
        h += dup(rng, b"Sec-WebSocket-Extensions", b"permessage-deflate")
    elif e == "emptyparam":
        h.append(b"Sec-WebSocket-Extensions: " + rng.choice([b"permessage-deflate; client_max_window_bits=", b"x-unknown-ext; foo=", b";=",
                                                              b"permessage-deflate; =", b"permessage-deflate;;"]))
    rng.shuffle(h)
    return line + b"\r\n" + b"\r\n".join(h) + b"\r\n\r\n", key


def segment(data, mode, rng):
    if mode == "whole":
        return [data]
    if mode == "bytes":
        return [data[i:i + 1] for i in range(len(data))]
    cuts = sorted(rng.sample(range(1, len(data)), min(len(data) - 1, rng.randint(1, 4)))) if len(data) > 2 else []
    return [data[a:b] for a, b in zip([0] + cuts, cuts + [len(data)])]


def deliver(p, parts, rng):
    """hand the parts to the endpoint one read at a time or - a third of the time - several reads back-to-back without an
    event-loop turn in between (on asyncio the adapter queues them); returns the name of an escaping exception or """""
    esc = ""
    i = 0
    while i < len(parts):
        k = rng.randint(2, 4) if (len(parts) - i > 1 and rng.random() < 0.35) else 1
        e = fw.feed_burst(p, parts[i:i + k]) if k > 1 else fw.feed(p, parts[i])
        if e is not None and not esc:
            esc = type(e).__name__
        i += k
    return esc


def parse_response(raw):
    m = re.match(rb"HTTP/1\.[01] (\d+)", raw)
    status = int(m.group(1)) if m else 0
    hdr = {}
    for ln in raw.split(b"\r\n\r\n")[0].split(b"\r\n")[1:]:
        if b":" in ln:
            k, v = ln.split(b":", 1)
            hdr.setdefault(k.strip().lower(), []).append(v.strip())
    return status, hdr


def run_server(inp, rng):
    traces = []
    cfgs = [dict(origins="any", allowNull=True, full=False, webStatus=True),
            dict(origins="list", allowNull=False, full=False, webStatus=False),
            dict(origins="list", allowNull=True, full=False, webStatus=True),
            dict(origins="any", allowNull=False, full=True, webStatus=True)]
    table = inp["table"]
    for idx in range(inp["shard"], len(table), inp["nshards"]):
        r = table[idx]
        for cfg in cfgs:
            if cfg["full"] and idx % 7:
                continue
            for seg in ("whole", rng.choice(["bytes", "random"])):
                data, key = build_request(r, rng)

                # every documented way an application may answer in onConnect: a subprotocol / None or a (subprotocol, headers)
                # pair, at once or through a pending result
                form = rng.choice(["plain", "plain", "tuple", "pending", "pending-tuple"])
                given_hdr = form in ("tuple", "pending-tuple")

                def onconnect(proto, request, r=r, form=form):
                    oc = r["onconn"]
                    if oc == "deny":
                        raise ConnectionDeny(403, "denied by test")
                    if oc == "raises":
                        raise RuntimeError("boom")
                    sub = {"ok-listed": "chat", "unlisted": "mqtt"}.get(oc)
                    hd = {"X-Verif-Custom": "v-%s" % form}
                    if form == "plain":
                        return sub
                    if form == "tuple":
                        return (sub, hd)
                    f = txaio.create_future()
                    fire = lambda: txaio.resolve(f, (sub, hd) if form == "pending-tuple" else sub)      # noqa: E731
                    if fw.NAME == "aio":
                        txaio.config.loop.call_soon(fire)
                    else:
                        txaio.call_later(0, fire)
                    return f
                opts = dict(webStatus=cfg["webStatus"], allowNullOrigin=cfg["allowNull"])
                if cfg["origins"] == "list":
                    opts["allowedOrigins"] = ["http://good.example.com:80"]
                if cfg["full"]:
                    opts["maxConnections"] = 1
                log = []
                from harness.wsx import WebSocketServerFactory
                factory = WebSocketServerFactory("ws://localhost:9000", protocols=["chat", "superchat", "mqtt"])
                factory.setProtocolOptions(**opts)
                if cfg["full"]:
                    factory.countConnections = 1      # one connection already counted
                p, t = wsx.make_server(log, factory=factory, onconnect=onconnect)
                esc = ""
                trailing = wsx.build_frame(1, b"hi", mask=b"\x01\x02\x03\x04") if rng.random() < 0.3 else b""
                esc = deliver(p, segment(data + trailing, seg, rng), rng)
                fw.settle()
                late = False
                if p.state == WSP.STATE_CONNECTING:
                    fw.advance(6.0)          # openHandshakeTimeout (5 s) must end a handshake left undecided
                    late = True
                raw = bytes(t.written)
                status, hdr = parse_response(raw)
                want = base64.b64encode(hashlib.sha1(key + wsx.GUID).digest())
                sp = hdr.get(b"sec-websocket-protocol", [b""])[0]
                exts = b",".join(hdr.get(b"sec-websocket-extensions", []))
                offered = r["exts"]
                within = (exts == b"") or (offered in ("ok-deflate",) and exts.startswith(b"permessage-deflate"))
                obs = dict(opened=p.state == WSP.STATE_OPEN, status=status, acceptOk=hdr.get(b"sec-websocket-accept", [b""])[0] == want,
                           proto="" if sp == b"" else ("listed" if sp == b"chat" and r["protos"] == "ok-list" else "other"),
                           extsWithinOffer=within, dropped=t.dropped, escaped=esc, state=wsx.STATE[p.state], late=late,
                           customHdrOk=(not given_hdr) or hdr.get(b"x-verif-custom", [b""])[0] == ("v-%s" % form).encode())
                traces.append([dict(ev="sreq", req=r, cfg=cfg, seg=seg, obs=obs)])
                fw.reset()
    return traces


def build_response(p_, key, other_key, rng):
    st = {"ok": b"HTTP/1.1 101 Switching Protocols", "200": b"HTTP/1.1 200 OK", "404": b"HTTP/1.1 404 Not Found",
          "malformed": rng.choice([b"HTTP/1.1", b"FOO 101", b"HTTP/1.1 abc Switching", b"HTTP/1.1 10\xb9 Switching Protocols",
                                   b"HTTP/1.1 \xb2\xb3 OK", b"HTTP/1.1 1O1 Switching Protocols"])}[p_["status"]]
    h = []
    up = {"ok": b"websocket", "ok-mixedcase": b"WebSocket", "other": b"h2c",
          "superstring": rng.choice([b"websocket2", b"xwebsocket", b"websockets", b"not-websocket/1.0"])}.get(p_["upgrade"])
    if up is not None:
        h.append(variants(rng, b"Upgrade", up))
    co = {"ok": b"Upgrade", "other": b"close"}.get(p_["conn"])
    if co is not None:
        h.append(variants(rng, b"Connection", co))
    a = p_["accept"]
    good = wsx.accept_for(key)
    if a == "ok":
        h.append(variants(rng, b"Sec-WebSocket-Accept", good))
    elif a == "dup":
        h += dup(rng, b"Sec-WebSocket-Accept", good, b"AAAAAAAAAAAAAAAAAAAAAAAAAAA=")
    elif a == "wrong":
        bad = bytearray(good)
        bad[rng.randrange(len(bad) - 1)] ^= 1
        h.append(b"Sec-WebSocket-Accept: " + bytes(bad))
    elif a == "wrong-case":
        # base64 is case sensitive: the same letters in another case are the digest of something else
        bad = rng.choice([good.lower(), good.upper(), good.swapcase(), good[:k_] + good[k_:k_ + 1].swapcase() + good[k_ + 1:]
                          if (k_ := rng.choice([i for i in range(len(good)) if good[i:i + 1].isalpha()] or [0])) is not None else good])
        if bad == good:
            bad = good.swapcase()
        h.append(b"Sec-WebSocket-Accept: " + bad)
    elif a == "other-key":
        h.append(b"Sec-WebSocket-Accept: " + wsx.accept_for(other_key))
    pr = p_["proto"]
    if pr == "ok-requested":
        h.append(variants(rng, b"Sec-WebSocket-Protocol", rng.choice([b"wamp.2.json", b"wamp.2.msgpack"])))
    elif pr == "notrequested":
        h.append(b"Sec-WebSocket-Protocol: mqtt")
    elif pr == "substring-of-requested":
        h.append(b"Sec-WebSocket-Protocol: " + rng.choice([b"wamp.2", b"json", b"wamp.2.json,wamp.2.msgpack", b",", b"wamp.2.js"]))
    elif pr == "dup":
        h += dup(rng, b"Sec-WebSocket-Protocol", b"wamp.2.json", b"wamp.2.msgpack")
    if p_["exts"] == "unknown":
        h.append(b"Sec-WebSocket-Extensions: x-foo-bar")
    elif p_["exts"] == "emptyparam":
        h.append(b"Sec-WebSocket-Extensions: " + rng.choice([b"permessage-deflate; server_max_window_bits=", b"x-foo; a=", b";="]))
    rng.shuffle(h)
    return st + b"\r\n" + b"\r\n".join(h) + b"\r\n\r\n"


def client_key(t):
    req = bytes(t.written)
    for ln in req.split(b"\r\n"):
        if ln.lower().startswith(b"sec-websocket-key:"):
            return ln.split(b":", 1)[1].strip()
    raise AssertionError("no key in request")


def run_client(inp, rng):
    traces = []
    table = inp["table"]
    for idx in range(inp["shard"], len(table), inp["nshards"]):
        p_ = table[idx]
        for seg in ("whole", "bytes", "random"):
            log = []
            p, t = wsx.make_client(log, protocols=["wamp.2.json", "wamp.2.msgpack"])
            fw.settle()
            key = client_key(t)
            other = base64.b64encode(bytes(rng.getrandbits(8) for _ in range(16)))
            data = build_response(p_, key, other, rng)
            if rng.random() < 0.3:
                data += wsx.build_frame(1, b"hi")
            esc = deliver(p, segment(data, seg, rng), rng)
            fw.settle()
            obs = dict(opened=p.state == WSP.STATE_OPEN, dropped=t.dropped, escaped=esc, state=wsx.STATE[p.state])
            traces.append([dict(ev="cresp", resp=p_, seg=seg, obs=obs)])
            fw.reset()
    return traces


def run_limit(inp, rng):
    """sequences of connections on ONE server factory with maxConnections = L"""
    from harness.wsx import WebSocketServerFactory
    traces = []
    for L in (1, 2, 3):
        for rep in range(inp.get("reps", 12)):
            factory = WebSocketServerFactory("ws://localhost:9000")
            factory.setProtocolOptions(maxConnections=L)
            tr = [dict(ev="lstart", max=L)]
            live = []
            for _ in range(rng.randint(4, 14)):
                if live and rng.random() < 0.4:
                    p, t = live.pop(rng.randrange(len(live)))
                    esc = ""
                    try:
                        fw.lose(p, clean=rng.random() < 0.5)
                    except Exception as e:  # noqa
                        esc = type(e).__name__
                    tr.append(dict(ev="lclose", obs=dict(escaped=esc)))
                    continue
                log = []
                p, t = wsx.make_server(log, factory=factory)
                data, key = build_request(dict(line="ok", host="ok", upgrade="ok", conn="ok", version="ok", key="ok", origin="ok-absent",
                                               protos="ok-none", exts="ok-none", onconn="ok-none"), rng)
                esc = deliver(p, segment(data, rng.choice(["whole", "random"]), rng), rng)
                fw.settle()
                status, _ = parse_response(bytes(t.written))
                admitted = any(x[0] == "onOpen" for x in log)
                d = t.dropped
                dropped = bool(d() if callable(d) else d)
                tr.append(dict(ev="lopen", obs=dict(admitted=admitted, status=status, dropped=dropped, escaped=esc)))
                if admitted:
                    live.append((p, t))
                else:
                    try:
                        fw.lose(p, clean=False)          # the refused connection goes away
                    except Exception as e:  # noqa
                        tr[-1]["obs"]["escaped"] = type(e).__name__
            for p, t in live:
                fw.lose(p, clean=True)
            fw.reset()
            traces.append(tr)
    return traces


def run_creq(inp, rng):
    traces = []
    urls = [("ws://localhost:9000", "localhost", 9000, "/"), ("ws://example.com/", "example.com", 80, "/"),
            ("ws://example.com:80/a/b", "example.com", 80, "/a/b"), ("ws://example.com:8080/a?x=1&y=%20z", "example.com", 8080, "/a?x=1&y=%20z"),
            ("wss://sec.example.org/ws", "sec.example.org", 443, "/ws"), ("wss://sec.example.org:8443/ws?token=abc", "sec.example.org", 8443, "/ws?token=abc"),
            ("ws://127.0.0.1:1/x", "127.0.0.1", 1, "/x"),
            # percent-encoded octets of the resource go out exactly as given (decoding them would change the resource)
            ("ws://example.com/chat%20room", "example.com", 80, "/chat%20room"), ("ws://example.com/user%3Fadmin=1", "example.com", 80, "/user%3Fadmin=1"),
            ("ws://example.com/a%2Fb/c", "example.com", 80, "/a%2Fb/c"), ("ws://example.com/%C3%A4%E2%82%AC", "example.com", 80, "/%C3%A4%E2%82%AC"),
            ("ws://example.com/p%20q?x=%26&y=%3D", "example.com", 80, "/p%20q?x=%26&y=%3D"), ("ws://example.com/a%23b", "example.com", 80, "/a%23b"), ("ws://[::1]:9000/ip6", "::1", 9000, "/ip6"), ("ws://h.example:65535", "h.example", 65535, "/"),
            # an explicit port that is the *other* scheme's default is not a default port
            ("ws://example.com:443/x", "example.com", 443, "/x"), ("wss://sec.example.org:80/y", "sec.example.org", 80, "/y"),
            ("wss://sec.example.org:443/z", "sec.example.org", 443, "/z"), ("ws://example.com:8/x", "example.com", 8, "/x")]
    for url, host, port, resource in urls:
        for version in (10, 13, 18):
            log = []
            try:
                p, t = wsx.make_client(log, url=url, opts=dict(version=version))
                fw.settle()
                req = bytes(t.written)
                esc = ""
            except Exception as e:  # noqa
                req, esc = b"", type(e).__name__
            line = req.split(b"\r\n")[0].decode("latin1")
            hdr = {}
            for ln in req.split(b"\r\n")[1:]:
                if b":" in ln:
                    k, v = ln.split(b":", 1)
                    hdr.setdefault(k.strip().lower(), []).append(v.strip().decode("latin1"))
            hostv = hdr.get(b"host", [""])[0]
            default = 443 if url.startswith("wss") else 80
            hostname = "[%s]" % host if ":" in host else host
            host_ok = hostv in (hostname, "%s:%d" % (hostname, port)) or hostv in (host, "%s:%d" % (host, port))
            port_ok = (":%d" % port in hostv) if port != default else (hostv.endswith(":%d" % port) or ":" not in hostv.replace("[::1]", ""))
            key = hdr.get(b"sec-websocket-key", [""])[0]
            try:
                key_ok = len(base64.b64decode(key)) == 16 and len(hdr.get(b"sec-websocket-key", [])) == 1
            except Exception:  # noqa
                key_ok = False
            obs = dict(hostOk=host_ok, portOk=port_ok, resourceOk=line == "GET %s HTTP/1.1" % resource, keyOk=key_ok,
                       versionOk=hdr.get(b"sec-websocket-version", [""])[0] == {10: "8", 13: "13", 18: "13"}[version], escaped=esc)
            traces.append([dict(ev="creq", url=url, version=version, line=line, host=hostv, obs=obs)])
            fw.reset()
    return traces


def run_pair(inp, rng):
    from autobahn.websocket.compress import (PerMessageDeflateOffer, PerMessageDeflateOfferAccept, PerMessageDeflateResponse,
                                             PerMessageDeflateResponseAccept)
    traces = []
    spec_versions = list(WSP.SUPPORTED_SPEC_VERSIONS)
    proto_versions = list(WSP.SUPPORTED_PROTOCOL_VERSIONS)
    for cv in spec_versions:
        for sv in ([proto_versions] + [[v] for v in proto_versions]):
            for cprot, sprot in ((None, None), (["a", "b"], None), (["a", "b"], ["b"]), (None, ["b"]), (["a"], ["b"])):
                for ext in (False, True):
                    hdrs = {"X-Custom": "v1", "x-other": "1"} if rng.random() < 0.5 else None
                    copts = dict(version=cv)
                    sopts = dict(versions=sv)
                    if ext:
                        copts["perMessageCompressionOffers"] = [PerMessageDeflateOffer()]
                        copts["perMessageCompressionAccept"] = lambda r: PerMessageDeflateResponseAccept(r) if isinstance(r, PerMessageDeflateResponse) else None
                        if rng.random() < 0.7:
                            sopts["perMessageCompressionAccept"] = lambda offers: PerMessageDeflateOfferAccept(offers[0]) if offers else None
                    esc = ""
                    try:
                        pair = wsx.Pair(sopts=sopts, copts=copts, sproto=sprot, cproto=cprot, skw=dict(headers=hdrs) if hdrs else None,
                                        ckw=dict(headers=hdrs) if hdrs else None,
                                        url=rng.choice(["ws://localhost:9000", "ws://localhost:9000", "ws://[::1]:9000", "ws://127.0.0.1:9000/a",
                                                        "ws://[2001:db8::1]:9000/x", "ws://example.com"]))
                        # segmentation: deliver the request byte-wise half of the time
                        if rng.random() < 0.5:
                            while pair.ct.unread():
                                pair.deliver("S", 1)
                        opened = pair.handshake()
                        esc = ";".join(x[1] for x in pair.escaped)
                        pv = WSP.SPEC_TO_PROTOCOL_VERSION[cv]
                        proto_ok = getattr(pair.c, 'websocket_protocol_in_use', None) == getattr(pair.s, 'websocket_protocol_in_use', None)
                        raw = bytes(pair.ct.written)
                        headers_ok = (hdrs is None) or all(("%s: %s" % (k, v)).encode() in raw for k, v in hdrs.items())
                    except Exception as e:  # noqa
                        opened, proto_ok, headers_ok = False, False, False
                        esc = "harness:" + type(e).__name__ + ":" + str(e)[:80]
                        pv = WSP.SPEC_TO_PROTOCOL_VERSION[cv]
                    traces.append([dict(ev="pair", m=dict(clientVersionSupported=pv in sv, cv=cv, sv=sv, cprot=cprot or [], sprot=sprot or [], ext=ext),
                                        obs=dict(opened=opened, protoOk=proto_ok, headersOk=headers_ok, escaped=esc))])
                    fw.reset()
    return traces


def run_fuzz(inp, rng):
    traces = []
    base, _ = build_request(dict(line="ok", host="ok", upgrade="ok", conn="ok", version="ok", key="ok", origin="ok-absent",
                                 protos="ok-none", exts="ok-none", onconn="ok-none"), random.Random(1))
    for i in range(inp["n"]):
        role = rng.choice(["server", "client"])
        kind = rng.choice(["random", "bitflip", "truncate", "oversize", "nonascii", "nul", "delete-required", "webstatus-query", "flash"])
        log = []
        must_not = False
        if kind == "flash":
            role = "server"
        if role == "server":
            # (the Flash socket policy branch: a policy request is answered with the policy file and a drop, never with an
            # open connection; a server not configured for it just never completes a handshake)
            p, t = wsx.make_server(log, opts=(dict(serveFlashSocketPolicy=rng.random() < 0.6) if kind == "flash" else None))
            src = base
        else:
            p, t = wsx.make_client(log)
            fw.settle()
            key = client_key(t)
            src = b"HTTP/1.1 101 Switching Protocols\r\nUpgrade: websocket\r\nConnection: Upgrade\r\nSec-WebSocket-Accept: " + wsx.accept_for(key) + b"\r\n\r\n"
        if kind == "random":
            data = bytes(rng.getrandbits(8) for _ in range(rng.randint(1, 300))) + rng.choice([b"", b"\r\n\r\n"])
            must_not = True
        elif kind == "bitflip":
            d = bytearray(src)
            for _ in range(rng.randint(1, 3)):
                d[rng.randrange(len(d))] ^= 1 << rng.randrange(8)
            data = bytes(d)
        elif kind == "truncate":
            data = src[:rng.randrange(len(src) - 4)]
            must_not = True
        elif kind == "oversize":
            data = src[:-2] + b"X-Pad: " + b"a" * rng.choice([10000, 70000, 200000]) + b"\r\n\r\n"
        elif kind == "nonascii":
            pos = rng.randrange(len(src) - 4)
            data = src[:pos] + bytes([rng.choice([0x80, 0xC3, 0xFF, 0xE9])]) + src[pos:]
        elif kind == "nul":
            pos = rng.randrange(len(src) - 4)
            data = src[:pos] + b"\x00" + src[pos:]
        elif kind == "flash":
            data = rng.choice([b"<policy-file-request/>\x00", b"<policy-file-request/>\x00GET / HTTP/1.1\r\n\r\n", b"<policy-file-request/>",
                               b"xx<policy-file-request/>\x00\r\n\r\n"])
            must_not = True
        elif kind == "delete-required":
            lines = src.split(b"\r\n")
            req = [i for i, ln in enumerate(lines) if ln.lower().startswith((b"upgrade", b"connection", b"sec-websocket-key", b"sec-websocket-accept", b"sec-websocket-version", b"host"))]
            del lines[rng.choice(req)]
            data = b"\r\n".join(lines)
            must_not = True
        else:
            # plain HTTP request (no upgrade) with hostile redirect / after query parameters (server status page branch)
            q = rng.choice([b"?redirect=http%3A%2F%2Fexample.com&after=abc", b"?redirect=http%3A%2F%2F%5B", b"?redirect=%00&after=-1",
                            b"?redirect=http%3A%2F%2Fexample.com&after=3", b"?redirect=&after=", b"?after=1e9&redirect=x%20y",
                            b"?redirect=http%3A%2F%2Fexample.com%3Aabc"])
            data = b"GET /" + q + b" HTTP/1.1\r\nHost: localhost:9000\r\n\r\n"
            must_not = True
            if role == "client":
                data = b"HTTP/1.1 303 See Other\r\nLocation: /" + q + b"\r\n\r\n"
        esc = deliver(p, segment(data, rng.choice(["whole", "bytes", "random"]) if len(data) < 2000 else "random", rng), rng)
        fw.settle()
        traces.append([dict(ev="fuzz", role=role, kind=kind, mustNotOpen=must_not, data=list(data[:200]),
                            obs=dict(opened=p.state == WSP.STATE_OPEN, escaped=esc, state=wsx.STATE[p.state]))])
        fw.reset()
    return traces


def main():
    inp = driver_in()
    rng = random.Random(int(os.environ.get("VERIF_SEED", "0")) * 6151 + inp.get("shard", 0) * 97 + 3)
    fn = dict(server=run_server, client=run_client, creq=run_creq, pair=run_pair, fuzz=run_fuzz, limit=run_limit)[inp["mode"]]
    traces = fn(inp, rng)
    driver_out(dict(fw=fw.NAME, traces=traces, cases=len(traces)))


if __name__ == "__main__":
    main()
