"""C04 / C06 / C10 / C11 (/C18) driver: a real ApplicationSession over a recording ITransport, driven through seeded
random histories of API calls, router messages (valid, duplicated, unknown-id, wrong-type, illegal-in-phase), endpoint
behaviours, transport loss.  After every step the reaction and the projection of the session tables are recorded for
WampSessionTrace.tla.

input: {n, shard, profile: "c04" | "c06" | "c10" | "c11"}"""
import os
import random

from harness import fw
from harness.common import driver_in, driver_out

import txaio
from autobahn import wamp
from autobahn.wamp import message, types
from autobahn.wamp.exception import ApplicationError, SerializationError, TransportLost  # noqa
from autobahn.exception import PayloadExceededError
from autobahn.wamp.protocol import ApplicationSession
from autobahn.wamp.serializer import JsonSerializer
from autobahn.wamp.types import (CallOptions, CallResult, ComponentConfig, PublishOptions, RegisterOptions,
                                 SubscribeOptions)

KIND_OF = {"Call": "call", "Publish": "publish", "Subscribe": "subscribe", "Unsubscribe": "unsubscribe",
           "Register": "register", "Unregister": "unregister", "Hello": "hello", "Authenticate": "authenticate",
           "Abort": "abort", "Goodbye": "goodbye", "Yield": "yield", "Error": "error", "EventReceived": "event_received",
           "Cancel": "cancel"}
RTYPE = {"call": message.Call.MESSAGE_TYPE, "publish": message.Publish.MESSAGE_TYPE, "subscribe": message.Subscribe.MESSAGE_TYPE,
         "unsubscribe": message.Unsubscribe.MESSAGE_TYPE, "register": message.Register.MESSAGE_TYPE,
         "unregister": message.Unregister.MESSAGE_TYPE}
SHAPES = [([], {}), ([1], {}), ([1, "two", 3.5], {}), ([], {"a": 1}), (["x"], {"k": [1, 2], "z": None}), ([{"n": [1, {"m": "ü"}]}], {"ä": "ö"})]


class Unserializable:
    pass


from autobahn.wamp.serializer import CBORSerializer, MsgPackSerializer  # noqa: E402
WIRES = [JsonSerializer(), MsgPackSerializer(), CBORSerializer()]


class Transport:
    """recording ITransport with the serialization behaviour of the real transports (errors classified)"""

    def __init__(self, rec, max_size=0):
        self.rec = rec
        self._serializer = JsonSerializer()
        self.max_size = max_size
        self.closed = False
        self.transport_details = types.TransportDetails()
        self.sent = []

    def send(self, msg):
        if self.closed and False:
            raise TransportLost()
        try:
            payload, _ = self._serializer.serialize(msg)
        except Exception as e:  # noqa
            raise SerializationError("unable to serialize: %s" % e)
        if self.max_size and len(payload) > self.max_size:
            raise PayloadExceededError("%d > %d" % (len(payload), self.max_size))
        # what the peer gets is what it parses from the octets, not the object the session built
        try:
            parsed = self._serializer.unserialize(payload)
            assert len(parsed) == 1 and type(parsed[0]) is type(msg)
            msg = parsed[0]
        except Exception as e:  # noqa
            self.rec.bad("faithful", "the session sent a %s its peer cannot parse: %s %s" % (type(msg).__name__, type(e).__name__, str(e)[:80]))
        self.sent.append(msg)
        self.rec.on_send(msg)
        if self.sync_next:
            # a side-by-side / in-process router: the reply arrives while send() has not returned yet
            self.sync_next = False
            rep = self.rec.sync_reply_for(msg)
            if rep is not None:
                reply, m = rep
                self.rec.sync_m = m
                wire = WIRES[0]
                self.rec.sess.onMessage(wire.unserialize(wire.serialize(reply)[0])[0])

    sync_next = False

    def isOpen(self):
        return not self.closed

    @property
    def is_closed(self):
        return txaio.create_future_success(None) if self.closed else txaio.create_future()

    sync_close = False       # an in-process transport: close() reports the loss to the session before it returns

    def close(self):
        self.rec.re["closes"] += 1
        self._maybe_sync_lost()

    def abort(self):
        self.rec.re["closes"] += 1
        self._maybe_sync_lost()

    def _maybe_sync_lost(self):
        if self.sync_close and not self.rec.lost_flag:
            self.rec.lost_flag = True
            self.rec.synclost_now = True
            self.rec.sess.onClose(True)

    def get_channel_id(self, t="tls-unique"):
        return None


class Session(ApplicationSession):
    def __init__(self, rec):
        ApplicationSession.__init__(self, ComponentConfig(realm="realm1"))
        self.rec = rec

    def onConnect(self):
        self.rec.cb("onConnect")
        return ApplicationSession.onConnect(self)

    def onWelcome(self, msg):
        self.rec.cb("onWelcome")
        w = self.rec.user["welcome"]
        if w == "deny":
            # anything other than None / False is an error message - also an empty one
            return self.rec.rng.choice(["denied by test", "denied by test", ""])
        if w == "raise":
            raise RuntimeError("onWelcome boom")
        return None

    def onChallenge(self, challenge):
        self.rec.cb("onChallenge")
        if self.rec.user["challenge"] == "raise":
            raise RuntimeError("onChallenge boom")
        return "signature"

    def onJoin(self, details):
        self.rec.cb("onJoin")

    def onLeave(self, details):
        self.rec.cb("onLeave")
        r = ApplicationSession.onLeave(self, details)
        if self.rec.user.get("leave") == "raise":
            raise RuntimeError("onLeave boom")          # (the user's callback fails after the default clean-up has run)
        return r

    def onDisconnect(self):
        self.rec.cb("onDisconnect")
        return ApplicationSession.onDisconnect(self)

    def onUserError(self, fail, msg):
        self.rec.user_errors.append(msg)
        if self.rec.user.get("usererr") == "raise" and getattr(self.rec, "in_inv", False):
            raise RuntimeError("onUserError boom")      # (an error reporter that fails itself must not cost anybody a reply)


class Recorder:
    def __init__(self, rng, profile):
        self.rng, self.profile = rng, profile
        self.trace = []
        self.user = {"welcome": "ok", "challenge": "ok", "leave": ("raise" if profile == "c06" and rng.random() < 0.25 else "ok"),
                     "usererr": ("raise" if profile == "c10" and rng.random() < 0.3 else "ok")}
        self.user_errors = []
        self.new_re()
        self.sess = Session(self)
        for evn in ("connect", "join", "ready", "leave", "disconnect"):
            self.sess.on(evn, (lambda name: (lambda *a, **kw: self.re["evs"].append(name)))(evn))
        self.tr = Transport(self, max_size=2000)
        self.flags = dict(faithful=True, valuesOk=True, argsOk=True)
        self.requests = {}        # rid -> dict(kind, future, expect...)
        self.nrx = 0
        self.reent = None         # re-entrant unsubscribe planned for the event being dispatched
        self.sync_m = None        # the reply the transport delivered from inside send() during the current API call
        self.lost_flag = False    # the session has been told that its transport is gone
        self.synclost_now = False
        self.futs = {}            # rid -> the future / Deferred returned by the API call
        self.cancelled = set()    # call request ids whose result the caller cancelled while pending
        self.handlers = {}        # hid -> fn
        self.subs_objs = {}       # (sub, hid) -> Subscription
        self.gb_obs, self.cur_api = False, None
        self.regs_objs = {}       # reg -> Registration
        self.pending_endpoints = {}   # invocation req -> (deferred, details)
        self.beh = "value"
        self.last_event = None
        self.expect_sent = None
        self.why = []

    def new_re(self):
        self.re = dict(out=[], cbs=[], evs=[], done=[], hcalls=[], ecalls=[], prog=[], closes=0, exc="", retry=[])

    def sync_reply_for(self, msg):
        k = msg.__class__.__name__
        rid = getattr(msg, "request", None)
        if k == "Call":
            return message.Result(rid, args=[1]), dict(t="result", req=rid, progress=False)
        if k == "Publish" and msg.acknowledge:
            return message.Published(rid, 777), dict(t="published", req=rid)
        if k == "Subscribe":
            return message.Subscribed(rid, 12), dict(t="subscribed", req=rid, sub=12, unsub=False)
        if k == "Unsubscribe":
            return message.Unsubscribed(rid), dict(t="unsubscribed", req=rid)
        if k == "Register":
            reg = 23
            while reg in self.sess._registrations:        # a router never hands out a registration id twice
                reg += 1
            return message.Registered(rid, reg), dict(t="registered", req=rid, reg=reg)
        if k == "Unregister":
            return message.Unregistered(rid), dict(t="unregistered", req=rid)
        return None

    def cb(self, name):
        self.re["cbs"].append(name)

    def bad(self, flag, why):
        self.flags[flag] = False
        self.why.append(why)

    # ---- transport side
    def on_send(self, msg):
        k = KIND_OF.get(msg.__class__.__name__, msg.__class__.__name__)
        rec = dict(t=k)
        if k in RTYPE:
            rec["req"] = msg.request
            exp = self.expect_sent
            if exp is not None:
                uri = getattr(msg, "procedure", None) or getattr(msg, "topic", None)
                if k in ("call", "publish"):
                    if uri != exp["uri"] or list(msg.args or []) != exp["args"] or dict(msg.kwargs or {}) != exp["kwargs"]:
                        self.bad("faithful", "%s carried %r %r %r, expected %r" % (k, uri, msg.args, msg.kwargs, exp))
                    if k == "call" and exp.get("timeout") != getattr(msg, "timeout", None):
                        self.bad("faithful", "call timeout option %r != %r" % (getattr(msg, "timeout", None), exp.get("timeout")))
                    if k == "call" and bool(getattr(msg, "receive_progress", None)) != bool(exp.get("progress")):
                        self.bad("faithful", "receive_progress %r" % getattr(msg, "receive_progress", None))
                    if k == "publish" and bool(msg.acknowledge) != bool(exp.get("ack")):
                        self.bad("faithful", "acknowledge %r" % msg.acknowledge)
                    for attr, want in (exp.get("opts") or {}).items():
                        if getattr(msg, attr) != want:
                            self.bad("faithful", "%s option %s on the wire %r, given %r" % (k, attr, getattr(msg, attr), want))
                elif k in ("subscribe", "register"):
                    if uri != exp["uri"]:
                        self.bad("faithful", "%s uri %r != %r" % (k, uri, exp["uri"]))
                    if k == "subscribe" and (msg.match or "exact") != exp.get("match", "exact"):
                        self.bad("faithful", "subscribe match %r" % msg.match)
                    for attr, want in (exp.get("opts") or {}).items():
                        got = getattr(msg, attr)
                        if got != want and not (want is None and got in (None, "exact", "single")):
                            self.bad("faithful", "%s option %s on the wire %r, given %r" % (k, attr, got, want))
                elif k == "unsubscribe" and msg.subscription != exp["sub"]:
                    self.bad("faithful", "unsubscribe names %r not %r" % (msg.subscription, exp["sub"]))
                elif k == "unregister" and msg.registration != exp["reg"]:
                    self.bad("faithful", "unregister names %r not %r" % (msg.registration, exp["reg"]))
        elif k == "goodbye" and self.cur_api == "leave":
            self.gb_obs = True
        elif k == "cancel":
            rec["req"] = msg.request
        elif k in ("yield", "error"):
            rec["req"] = msg.request
            rec["progress"] = bool(getattr(msg, "progress", False))
            exp = self.endpoint_expect.get(msg.request) if hasattr(self, "endpoint_expect") else None
            if exp is not None and k == "yield" and not rec["progress"] and exp.get("ret") is not None:
                if (list(msg.args or []), dict(msg.kwargs or {})) != exp["ret"]:
                    self.bad("valuesOk", "YIELD carried %r %r, endpoint returned %r" % (msg.args, msg.kwargs, exp["ret"]))
            if exp is not None and k == "error" and exp.get("err") is not None:
                ekw = dict(msg.kwargs or {})
                ekw.pop("traceback", None)            # forwarded only with traceback_app
                if msg.error != exp["err"][0] or list(msg.args or []) != exp["err"][1] or ekw != exp["err"][2]:
                    self.bad("valuesOk", "ERROR carried %r %r %r, expected %r" % (msg.error, msg.args, msg.kwargs, exp["err"]))
        self.re["out"].append(rec)

    # ---- projection
    def obs(self):
        s = self.sess
        pend = {}
        for kind, table in (("call", s._call_reqs), ("publish", s._publish_reqs), ("subscribe", s._subscribe_reqs),
                            ("unsubscribe", s._unsubscribe_reqs), ("register", s._register_reqs), ("unregister", s._unregister_reqs)):
            items = []
            for rid in sorted(table):
                r = table[rid]
                if kind == "call":
                    x = (1 if (r.options and r.options.on_progress) else 0) + (2 if rid in self.cancelled else 0)
                elif kind == "subscribe":
                    x = getattr(r.handler.fn, "hid", None)
                    if x is None:                 # (check_types=True wraps the handler: identify it by the request)
                        x = self.requests.get(rid, {}).get("hid", -1)
                elif kind == "unsubscribe":
                    x = r.subscription_id
                elif kind == "unregister":
                    x = r.registration_id
                else:
                    x = 0
                items.append([rid, x])
            pend[kind] = items
        known = {id(so): hid for (sid_, hid), lst_ in self.subs_objs.items() for so in lst_}
        subs = [[sid, [getattr(sub.handler.fn, "hid", None) or known.get(id(sub), -1) for sub in lst]] for sid, lst in sorted(s._subscriptions.items())]
        invs = [[rid, bool(self.inv_rp.get(rid, False))] for rid in sorted(s._invocations)]
        # "this side has said GOODBYE": the session's own flag where it has one by that name, else what was observed (a GOODBYE
        # handed to the transport from inside leave() since the transport was opened)
        gb = bool(getattr(s, "_goodbye_sent", self.gb_obs))
        return dict(tr=s.transport is not None, joined=s.session_id is not None, gb=gb,
                    nreq=self.last_req(), pend=pend, subs=subs, regs=sorted(s._registrations), invs=invs)

    def last_req(self):
        g = self.sess._request_id_gen
        return int(getattr(g, "_next", 0))

    def step(self, ev):
        fw.settle()
        ev["re"] = self.re
        ev["synclost"] = bool(self.synclost_now)
        ev["lraise"] = self.user.get("leave") == "raise"
        self.synclost_now = False
        ev["obs"] = self.obs()
        ev.update(self.flags)
        if self.why:
            ev["why"] = self.why[:3]
        self.trace.append(ev)
        self.new_re()
        self.flags = dict(faithful=True, valuesOk=True, argsOk=True)
        self.why = []
        self.expect_sent = None

    # ---- completions of API results
    def track(self, fut, rid, expect=None):
        def ok(res):
            self.re["done"].append([rid, True])
            exp = self.requests.get(rid, {}).get("expect")
            if exp is not None and self.requests[rid].get("kind") == "call":
                self.check_value(res, exp)
            return None

        def err(f):
            self.re["done"].append([rid, False])
            exc = f.value if hasattr(f, "value") else f
            exp = self.requests.get(rid, {}).get("expect_err")
            if exp is not None:
                if not isinstance(exc, ApplicationError) or exc.error != exp[0] or list(exc.args) != exp[1] or dict(exc.kwargs) != exp[2]:
                    self.bad("valuesOk", "request %d failed with %r, reply carried %r" % (rid, exc, exp))
            if self.requests.get(rid, {}).get("retry"):
                # the "retry on error" idiom: a new call issued from inside the errback, while the session is still
                # working through whatever made this request fail
                saved, self.expect_sent = self.expect_sent, None
                try:
                    fut2 = self.sess.call("com.myapp.proc1", "retry")
                    rid2 = self.last_req()
                    self.requests[rid2] = dict(kind="call")
                    self.re["retry"].append(True)
                    self.track(fut2, rid2)
                except Exception:  # noqa
                    self.re["retry"].append(False)
                self.expect_sent = saved
            return None
        txaio.add_callbacks(fut, ok, err)
        self.futs[rid] = fut

    def check_value(self, res, expect):
        args, kwargs = expect
        if isinstance(res, CallResult):
            got = (list(res.results), dict(res.kwresults))
        elif res is None:
            got = ([], {})
        else:
            got = ([res], {})
        if got != (list(args), dict(kwargs)):
            self.bad("valuesOk", "result %r, reply carried %r %r" % (got, args, kwargs))

    # ---- handlers / endpoints
    def make_handler(self, hid, with_details):
        rec = self

        if with_details:
            def h(*a, details=None, **kw) -> None:          # (annotated: check_types looks at annotations)
                rec.on_handler(hid, a, kw, details, True)
        else:
            def h(*a, **kw) -> None:
                rec.on_handler(hid, a, kw, None, False)
        h.hid = hid
        h.with_details = with_details
        return h

    def on_handler(self, hid, a, kw, details, with_details):
        self.re["hcalls"].append(hid)
        re_ = self.reent
        if re_ is not None:
            re_["n"] += 1
            if re_["n"] == re_["p"] and not re_["done"]:
                # this handler unsubscribes the handler that stood at position q when the event arrived (q = p: itself)
                re_["done"] = True
                target = re_["snapshot"][re_["q"] - 1]
                if target.active:
                    s = self.sess
                    before = self.last_req()
                    fut = target.unsubscribe()
                    rid = self.last_req()
                    if rid != before:          # an UNSUBSCRIBE went out (it may already have been answered from inside send())
                        self.requests[rid] = dict(kind="unsubscribe")
                        self.track(fut, rid)
                    else:
                        self.track(fut, 0)
        exp = self.event_expect
        if exp is not None:
            if list(a) != exp[0] or dict(kw) != exp[1]:
                self.bad("argsOk", "handler %d got %r %r, event carried %r" % (hid, a, kw, exp))
            if with_details and (details is None or details.publication != exp[2]):
                self.bad("argsOk", "handler %d details %r" % (hid, details))
            disc = getattr(self, "event_disc", None)
            if with_details and details is not None and disc is not None:
                got = dict(publisher=details.publisher, publisher_authid=details.publisher_authid, publisher_authrole=details.publisher_authrole)
                want = dict(publisher=disc.get("publisher"), publisher_authid=disc.get("publisher_authid"), publisher_authrole=disc.get("publisher_authrole"))
                if got != want:
                    self.bad("argsOk", "handler %d details disclose %r, EVENT carried %r" % (hid, got, want))
            # details.topic is the topic the event was published to when the router names it (pattern-based subscriptions)
            if with_details and details is not None and getattr(self, "event_topic", None) is not None and details.topic != self.event_topic:
                self.bad("argsOk", "handler %d details.topic %r, EVENT named %r" % (hid, details.topic, self.event_topic))
            # the details name the subscription of *this* handler (so that details.subscription.unsubscribe() removes the right one)
            if with_details and details is not None:
                sub = details.subscription
                own = getattr(getattr(getattr(sub, "handler", None), "fn", None), "hid", None)
                if own is None:     # a handler wrapped by check_types: identify the Subscription by object identity
                    own = {id(so): h for (_, h), lst_ in self.subs_objs.items() for so in lst_}.get(id(sub))
                if own != hid:
                    self.bad("argsOk", "handler %d was handed the subscription object of handler %r" % (hid, own))
        if hid in self.raising_handlers:
            raise RuntimeError("handler %d boom" % hid)

    def endpoint(self, *a, details=None, **kw):
        exp = self.inv_expect
        req = exp["req"]
        self.re["ecalls"].append([exp["reg"], req])
        # (a caller's keyword argument that happens to be called like the details argument cannot reach the endpoint under that
        # name: the requested call details are what the endpoint gets there)
        want_kw = {k: v for k, v in exp["kwargs"].items() if k != "details"}
        if list(a) != exp["args"] or dict(kw) != want_kw:
            self.bad("argsOk", "endpoint got %r %r, invocation carried %r %r" % (a, kw, exp["args"], exp["kwargs"]))
        if not isinstance(details, types.CallDetails) or details.caller != exp["caller"] or (details.progress is not None) != exp["rp"]:
            self.bad("argsOk", "endpoint details %r (rp=%r)" % (details, exp["rp"]))
        # the procedure actually called (named by the router for pattern-based registrations), else the registered one
        if details is not None and details.procedure != (exp.get("procedure") or "com.myapp.proc9"):
            self.bad("argsOk", "endpoint details.procedure %r, invocation named %r" % (details.procedure, exp.get("procedure")))
        beh = self.beh
        ret = None
        self.endpoint_expect[req] = {}
        if beh == "value":
            ret = 42
            self.endpoint_expect[req]["ret"] = ([42], {})
        elif beh == "callresult":
            ret, self.endpoint_expect[req]["ret"] = callresult(req)
        elif beh == "none":
            ret = None
            self.endpoint_expect[req]["ret"] = ([None], {})
        elif beh == "unserializable":
            return Unserializable()
        elif beh == "oversize":
            return "x" * 5000
        elif beh == "apperror":
            self.endpoint_expect[req]["err"] = ("com.myapp.error.custom", ["bad", 7], {"why": "because"})
            raise ApplicationError("com.myapp.error.custom", "bad", 7, why="because")
        elif beh == "bigerror":
            # the ERROR for this exception is itself too large for the transport: a (small) fallback ERROR must go out
            raise ApplicationError("com.myapp.error.big", "y" * 5000, why="z" * 100)
        elif beh == "mapped":
            self.endpoint_expect[req]["err"] = ("com.myapp.error.mapped", ["m1"], {})
            raise MappedError("m1")
        elif beh == "unmapped":
            exc, eargs = plain_exception(req)
            self.endpoint_expect[req]["err"] = ("wamp.error.runtime_error", eargs, {})
            raise exc
        elif beh == "pending":
            d = txaio.create_future()
            self.pending_endpoints[req] = (d, details)
            return d
        return ret


class MappedError(Exception):
    pass


from harness.drivers.epshapes import callresult, plain_exception  # noqa: E402


class FalsyService(dict):
    """an (empty, hence falsy) object whose decorated method is the endpoint"""
    rec = None

    @wamp.register("com.myapp.proc9", options=RegisterOptions(details=True))
    def proc9(self, *a, details=None, **kw):
        assert isinstance(self, FalsyService)
        return self.rec.endpoint(*a, details=details, **kw)


class ListenerBase:
    """(a handler inherited from a base class is a handler of the object like any other)"""

    @wamp.subscribe("com.myapp.topic2")
    @wamp.subscribe("com.myapp.topic3")
    def b_second(self, *a, **kw):
        self.rec.on_handler(3, a, kw, None, False)


class Listener(ListenerBase):
    """decorated object subscription: the first method has options, the second has none and is subscribed to two topics (stacked decorators)"""

    def __init__(self, rec):
        self.rec = rec

    @wamp.subscribe("com.myapp.topic1", options=SubscribeOptions(details=True, match="prefix", get_retained=True))
    def a_first(self, *a, details=None, **kw):
        self.rec.on_handler(2, a, kw, details, True)

    @wamp.register("com.myapp.proc_on_listener")
    def an_endpoint(self, *a, **kw):          # a procedure of the same object: subscribe(obj) has nothing to do with it
        self.rec.bad("argsOk", "a registered procedure was invoked as an event handler")


class capture_gather:
    """subscribe(obj) / register(obj) return txaio.gather(...) of the per-method results: capture those"""

    def __enter__(self):
        self.futs = []
        self.orig = txaio.gather

        def g(futs, **kw):
            self.futs.extend(futs)
            return self.orig(futs, **kw)
        txaio.gather = g
        return self

    def __exit__(self, *a):
        txaio.gather = self.orig


def scenario(rng, profile):
    R = Recorder(rng, profile)
    s = R.sess
    s.define(MappedError, "com.myapp.error.mapped")
    R.inv_rp, R.endpoint_expect, R.raising_handlers = {}, {}, set()
    R.event_expect, R.inv_expect = None, None
    s.traceback_app = rng.random() < 0.3
    R.ackf = profile in ("c11", "c04") and rng.random() < 0.4       # the broker announces acknowledged event delivery
    hids = {1: rng.random() < 0.4, 2: rng.random() < 0.7, 3: rng.random() < 0.4}      # which handlers ask for details
    for hid, wd in hids.items():
        R.handlers[hid] = R.make_handler(hid, wd)
    if rng.random() < 0.3:
        R.raising_handlers.add(rng.choice([1, 2, 3]))
    router_next_id = [100]
    known_subs, known_regs = [], []
    inv_ids = []

    def do_open():
        R.gb_obs = False
        s.onOpen(R.tr)
        R.step(dict(ev="open"))

    def rx(msg, m, beh="value"):
        R.beh = beh
        R.in_inv = m.get("t") in ("invocation", "interrupt")
        try:
            # as on a wire: what the router sends is serialised and parsed again before the session sees it
            wire = WIRES[R.nrx % len(WIRES)]
            R.nrx += 1
            msg = wire.unserialize(wire.serialize(msg)[0])[0]
            if isinstance(msg, (message.Result, message.Event, message.Invocation, message.Error)) and msg.payload is None \
                    and not msg.args and not msg.kwargs and rng.random() < 0.2:
                # the same message with its empty payload spelled out on the wire: [..., []] or [..., [], {}]
                msg = type(msg).parse(msg.marshal() + rng.choice([[[]], [[], {}]]))
            s.onMessage(msg)
        except Exception as e:  # noqa
            R.re["exc"] = type(e).__name__
        R.step(dict(ev="rx", m=m, u=dict(R.user), beh=beh))
        R.in_inv = False

    def api(name, fn, **kw):
        if name in ("call", "publish", "leave"):
            kw.setdefault("bad", "")
        R.sync_m = None
        R.tr.sync_next = (profile in ("c04", "c06") and name in ("call", "publish", "subscribe", "unsubscribe", "register", "unregister")
                          and s.session_id is not None and rng.random() < 0.12)
        R.cur_api = name
        try:
            fn()
        except Exception as e:  # noqa
            R.re["exc"] = type(e).__name__
        R.cur_api = None
        R.tr.sync_next = False
        kw["sync"] = R.sync_m or {"t": "none"}
        R.sync_m = None
        R.step(dict(ev="api", name=name, **kw))

    def pending_ids(kind):
        table = {"call": s._call_reqs, "publish": s._publish_reqs, "subscribe": s._subscribe_reqs, "unsubscribe": s._unsubscribe_reqs,
                 "register": s._register_reqs, "unregister": s._unregister_reqs}[kind]
        return sorted(table)

    def pick_req(kind):
        """a request id for a router reply: usually a pending one of that kind, sometimes another kind's / unknown / done"""
        r = rng.random()
        own = pending_ids(kind)
        if own and r < 0.7:
            return rng.choice(own)
        others = [i for k in RTYPE for i in pending_ids(k) if k != kind]
        if others and r < 0.85:
            return rng.choice(others)
        return rng.choice([1, 2, max(1, R.last_req()), R.last_req() + 1, 99])

    def rnd_api(force=None, only_sub=None):
        shape = rng.choice(SHAPES)
        args, kwargs = list(shape[0]), dict(shape[1])
        choice = force or rng.choice(["call", "call", "publish", "publish", "subscribe", "subscribe", "register", "unsubscribe", "unregister", "cancel"])
        if choice == "cancel":
            # the caller cancels a call result: usually a pending one, sometimes one already completed / cancelled before
            live = [r for r in pending_ids("call") if r not in R.cancelled]
            cands = live if (live and rng.random() < 0.75) else sorted(r for r in R.futs if R.requests.get(r, {}).get("kind") == "call")
            if not cands:
                return rnd_api()
            rid = rng.choice(cands)

            def f():
                if rid in pending_ids("call"):
                    R.cancelled.add(rid)
                txaio.cancel(R.futs[rid])
            api("cancel", f, req=rid)
        elif choice == "call":
            prog = rng.random() < 0.4
            det = rng.random() < 0.3
            to = rng.choice([None, 10])
            bad = ""
            if R.tr.max_size and rng.random() < 0.12:
                bad = rng.choice(["ser", "size"])
                args = [Unserializable()] if bad == "ser" else ["x" * (R.tr.max_size + 500)]
                R.expect_sent = None
            else:
                R.expect_sent = dict(uri="com.myapp.proc1", args=args, kwargs=kwargs, progress=prog, timeout=to)

            def on_progress(*a, **kw):
                R.re["prog"].append(R.current_progress_call)
                exp = R.progress_expect
                if exp is not None:
                    if len(a) == 1 and isinstance(a[0], CallResult) and not kw:
                        got = (list(a[0].results), dict(a[0].kwresults))
                    else:
                        got = (list(a), dict(kw))
                    if got != exp:
                        R.bad("argsOk", "progress handler got %r, reply carried %r" % (got, exp))

            async def on_progress_co(*a, **kw):          # a progress handler declared async: it must run all the same
                on_progress(*a, **kw)
            handler = on_progress_co if rng.random() < 0.3 else on_progress

            def f():
                opts = CallOptions(on_progress=handler if prog else None, details=det or None, timeout=to)
                fut = s.call("com.myapp.proc1", *args, options=opts, **kwargs)
                rid = R.last_req()
                R.requests[rid] = dict(kind="call", details=det, retry=(rng.random() < 0.2))
                R.track(fut, rid)
            api("call", f, progress=prog, bad=bad)
        elif choice == "publish":
            ack = rng.random() < 0.6
            # (the white / black lists may be given as one value or as a list: on the wire they are lists of exactly those values)
            po = dict(exclude_me=rng.choice([None, None, True, False]), exclude=rng.choice([None, None, [7], [7, 8], 7]),
                      eligible=rng.choice([None, None, [9], 9]), retain=rng.choice([None, None, True, False]),
                      exclude_authid=rng.choice([None, None, None, "bob", ["bob", "eve"]]), exclude_authrole=rng.choice([None, None, None, "guest", ["guest", "anon"]]),
                      eligible_authid=rng.choice([None, None, None, "alice", ["alice"]]), eligible_authrole=rng.choice([None, None, None, "admin", ["admin", "ops"]]))
            po_wire = {k: ([v] if k not in ("exclude_me", "retain") and v is not None and not isinstance(v, list) else v) for k, v in po.items()}
            bad = ""
            if R.tr.max_size and rng.random() < 0.12:
                bad = rng.choice(["ser", "size"])
                args = [Unserializable()] if bad == "ser" else ["x" * (R.tr.max_size + 500)]
                R.expect_sent = None
            else:
                R.expect_sent = dict(uri="com.myapp.topic1", args=args, kwargs=kwargs, ack=ack, opts=po_wire)

            def f():
                fut = s.publish("com.myapp.topic1", *args, options=PublishOptions(acknowledge=ack, **po), **kwargs)
                rid = R.last_req()
                if ack:
                    R.requests[rid] = dict(kind="publish")
                    R.track(fut, rid)
            api("publish", f, ack=ack, bad=bad)
        elif choice == "subscribe":
            hid = rng.choice([1, 2, 3])
            topic = rng.choice(["com.myapp.topic1", "com.myapp.topic2"])
            gr = rng.choice([None, None, True, False])
            R.expect_sent = dict(uri=topic, opts=dict(get_retained=gr) if (hids[hid] or gr is not None) else None)

            def f():
                # (a handler that does not want details says nothing, None or an explicit False)
                nod = rng.choice([None, None, False])
                opts = SubscribeOptions(details=True if hids[hid] else nod, get_retained=gr) if (hids[hid] or gr is not None or nod is False) else None
                # (check_types wraps the handler in a coroutine function: on asyncio its body then runs one loop iteration after
                # the library has handed it the event, i.e. after the plain handlers of the same subscription - what the driver
                # records is when bodies run, so the option is only mixed in where it does not change that: on Twisted)
                was_sync = bool(R.tr.sync_next)
                fut = s.subscribe(R.handlers[hid], topic, options=opts, check_types=(rng.random() < 0.3 and fw.NAME == "tx"))
                rid = R.last_req()
                R.requests[rid] = dict(kind="subscribe", hid=hid, unsub_on_reply=(profile in ("c11", "c04") and rng.random() < 0.15 and not was_sync))

                def got(sub, rid=rid):
                    R.subs_objs.setdefault((sub.id, hid), []).append(sub)
                    if R.requests[rid].get("unsub_on_reply"):
                        # a one-shot subscriber: unsubscribes in the continuation of subscribe()
                        before = R.last_req()
                        try:
                            f2 = sub.unsubscribe()
                        except BaseException as e:  # noqa
                            R.bad("faithful", "unsubscribe() in the subscribe continuation raised %s" % type(e).__name__)
                            return sub
                        r2 = R.last_req()
                        if r2 != before:
                            R.requests[r2] = dict(kind="unsubscribe")
                            R.track(f2, r2)
                        else:
                            R.track(f2, 0)
                    return sub
                txaio.add_callbacks(fut, got, None)
                R.track(fut, rid)
            api("subscribe", f, h=hid)
        elif choice == "register":
            ro = dict(match=rng.choice([None, None, "exact", "prefix"]), invoke=rng.choice([None, None, "single", "roundrobin", "first"]),
                      concurrency=rng.choice([None, None, 3]), force_reregister=rng.choice([None, None, True, False]))
            R.expect_sent = dict(uri="com.myapp.proc9", opts=ro)

            def f():
                pkw = dict(prefix="com.myapp.") if rng.random() < 0.2 else {}     # (the URI may be given in two parts: prefix + procedure)
                fut = s.register(R.endpoint, "proc9" if pkw else "com.myapp.proc9", options=RegisterOptions(details=True, **ro),
                                 check_types=(rng.random() < 0.3), **pkw)
                rid = R.last_req()
                R.requests[rid] = dict(kind="register")

                def got(reg):
                    R.regs_objs[reg.id] = reg
                    return reg
                txaio.add_callbacks(fut, got, None)
                R.track(fut, rid)
            api("register", f)
        elif choice == "unsubscribe":
            active = [(k, subl) for k, subl in R.subs_objs.items() for sub in subl if sub.active and only_sub in (None, k[0])]
            if not active:
                return
            (sub_id, hid), subl = rng.choice(active)
            sub = rng.choice([x for x in subl if x.active])
            if s.transport is not None:
                # (guard: a Subscription that reports itself active is one the session still holds)
                assert sub in s._subscriptions.get(sub_id, []), "a subscription that was unsubscribed still reports active=True"
            pos = s._subscriptions[sub_id].index(sub) + 1 if s.transport is not None else 1
            R.expect_sent = dict(sub=sub_id)

            def f():
                before = R.last_req()
                fut = sub.unsubscribe()
                rid = R.last_req()
                if rid != before:          # an UNSUBSCRIBE went out (it may already have been answered from inside send())
                    R.requests[rid] = dict(kind="unsubscribe")
                    R.track(fut, rid)
                else:
                    R.track(fut, 0)
            api("unsubscribe", f, sub=sub_id, h=hid, pos=pos)
        elif choice == "unregister":
            act = [r for r in R.regs_objs.values() if r.active]
            if not act:
                return
            reg = rng.choice(act)
            R.expect_sent = dict(reg=reg.id)

            def f():
                fut = reg.unregister()
                rid = R.last_req()
                R.requests[rid] = dict(kind="unregister")
                R.track(fut, rid)
            api("unregister", f, reg=reg.id)

    def rnd_router(joined, force=None, force_sub=None):
        import copy
        shape = rng.choice(SHAPES)
        args, kwargs = list(shape[0]), dict(shape[1])
        margs, mkwargs = copy.deepcopy(args), copy.deepcopy(kwargs)       # what goes into the message object
        pool = ["result", "result", "error", "published", "subscribed", "unsubscribed", "registered", "unregistered", "event",
                "event", "invocation", "invocation", "interrupt", "goodbye", "welcome", "abort", "challenge"]
        if profile == "c11":
            pool += ["event"] * 6 + ["subscribed"] * 4
        if profile == "c10":
            pool += ["invocation"] * 6 + ["interrupt"] * 3 + ["registered"] * 3
        if profile == "c04":
            pool += ["result"] * 4 + ["error"] * 3
        t = force or rng.choice(pool)
        if t == "result":
            rid = pick_req("call")
            progress = rng.random() < 0.35
            info = R.requests.get(rid, {})
            if not progress:
                R.requests.setdefault(rid, {})
            R.current_progress_call = rid
            R.progress_expect = (args, kwargs)
            # completion value check
            fut_expect = (args, kwargs)
            if rid in s._call_reqs and not progress:
                # attach expectation: the tracked callback compares
                R.requests[rid]["expect"] = fut_expect
            old_check = R.check_value
            msg = message.Result(rid, args=margs or None, kwargs=mkwargs or None, progress=progress or None)
            R._expect_value = fut_expect
            rx(msg, dict(t="result", req=rid, progress=progress))
        elif t == "error":
            kind = rng.choice(list(RTYPE))
            rid = pick_req(kind)
            uri = rng.choice(["com.myapp.error.custom", "wamp.error.no_such_procedure", "com.myapp.error.mapped"])
            hit = rid in pending_ids(kind) and rid in R.requests
            if hit:
                R.requests[rid]["expect_err"] = (uri, args, kwargs) if uri != "com.myapp.error.mapped" else None
            msg = message.Error(RTYPE[kind], rid, uri, args=margs or None, kwargs=mkwargs or None)
            rx(msg, dict(t="error", kind=kind, req=rid))
            if hit:
                R.requests[rid].pop("expect_err", None)
        elif t == "published":
            rid = pick_req("publish")
            rx(message.Published(rid, 777), dict(t="published", req=rid))
        elif t == "subscribed":
            rid = pick_req("subscribe")
            sub = rng.choice([11, 11, 12])
            known_subs.append(sub)
            flagged = bool(R.requests.get(rid, {}).get("unsub_on_reply")) and rid in s._subscribe_reqs
            rx(message.Subscribed(rid, sub), dict(t="subscribed", req=rid, sub=sub, unsub=flagged))
        elif t == "unsubscribed":
            rid = pick_req("unsubscribe")
            rx(message.Unsubscribed(rid), dict(t="unsubscribed", req=rid))
        elif t == "registered":
            rid = pick_req("register")
            reg = rng.choice([21, 22])
            known_regs.append(reg)
            rx(message.Registered(rid, reg), dict(t="registered", req=rid, reg=reg))
        elif t == "unregistered":
            rid = pick_req("unregister")
            rx(message.Unregistered(rid), dict(t="unregistered", req=rid))
        elif t == "event":
            sub = force_sub or rng.choice([11, 11, 12, 13])
            pubid = rng.randint(1000, 9999)
            R.event_expect = (args, kwargs, pubid)
            p_, q_ = 0, 0
            cur = list(s._subscriptions.get(sub, [])) if s.session_id is not None else []
            if profile == "c11" and cur and rng.random() < 0.35:
                p_ = rng.randint(1, len(cur))
                q_ = rng.randint(1, len(cur))
                R.reent = dict(p=p_, q=q_, n=0, done=False, snapshot=cur)
            etopic = rng.choice([None, None, "com.myapp.topic1.sub.x", "com.myapp.other"])     # pattern-based subscriptions: the router names the topic
            R.event_topic = etopic
            # an event whose delivery the broker wants acknowledged (whether or not it announced the feature)
            ack = p_ == 0 and rng.random() < 0.35
            # (a broker that discloses the publisher: the three fields arrive in the details, each in its place)
            disc = rng.choice([None, None, dict(publisher=4711, publisher_authid="alice", publisher_authrole="admin"), dict(publisher=12, publisher_authid="bob")])
            R.event_disc = disc
            rx(message.Event(sub, pubid, args=margs or None, kwargs=mkwargs or None, topic=etopic, x_acknowledged_delivery=(True if ack else None), **(disc or {})),
               dict(t="event", sub=sub, p=p_, q=q_, ack=ack, bad=sorted(R.raising_handlers) if ack else []))
            R.event_topic = None
            R.event_disc = None
            R.reent = None
            R.event_expect = None
        elif t == "invocation":
            reg = rng.choice([21, 21, 22, 23])
            rq = router_next_id[0] if rng.random() < 0.9 or not inv_ids else rng.choice(inv_ids)
            router_next_id[0] += 1
            rp = rng.random() < 0.5
            beh = rng.choice(["value", "callresult", "none", "unserializable", "oversize", "apperror", "bigerror", "mapped", "unmapped", "pending", "pending"])
            caller = rng.choice([None, 4711])
            iproc = rng.choice([None, None, "com.myapp.proc9.sub.x"])
            if rng.random() < 0.12:
                kwargs = dict(kwargs, details={"caller_authrole": "admin"})      # a keyword argument named like the details argument
                mkwargs = dict(mkwargs or {}, details={"caller_authrole": "admin"})
            R.inv_expect = dict(req=rq, reg=reg, args=args, kwargs=kwargs, rp=rp, caller=caller, procedure=iproc)
            if rq not in s._invocations:
                R.inv_rp[rq] = rp
            if rq not in inv_ids:
                fresh = True
            inv_ids.append(rq)
            rx(message.Invocation(rq, reg, args=margs or None, kwargs=mkwargs or None,
                                  receive_progress=(True if rp else rng.choice([None, False])), caller=caller, procedure=iproc),
               dict(t="invocation", req=rq, reg=reg, rp=rp), beh=beh)
        elif t == "interrupt":
            rq = rng.choice(inv_ids) if inv_ids and rng.random() < 0.8 else 999
            if rq in R.pending_endpoints:
                R.endpoint_expect[rq] = {}
            rx(message.Interrupt(rq), dict(t="interrupt", req=rq))
            R.pending_endpoints.pop(rq, None)
        elif t == "goodbye":
            rx(message.Goodbye(), dict(t="goodbye"))
        elif t == "welcome":
            R.user["welcome"] = rng.choice(["ok", "ok", "ok", "deny", "raise"])
            rx(message.Welcome(1234, ROLES_ACK if R.ackf else ROLES), dict(t="welcome", ackf=R.ackf))
        elif t == "abort":
            rx(message.Abort("wamp.error.no_such_realm"), dict(t="abort"))
        elif t == "challenge":
            R.user["challenge"] = rng.choice(["ok", "ok", "raise"])
            rx(message.Challenge("wampcra", {"challenge": "x"}), dict(t="challenge"))

    def rnd_endpoint():
        R.in_inv = True
        try:
            _rnd_endpoint()
        finally:
            R.in_inv = False

    def _rnd_endpoint():
        if not R.pending_endpoints:
            return
        rq = rng.choice(sorted(R.pending_endpoints))
        d, details = R.pending_endpoints[rq]
        if rng.random() < 0.4 and s.transport is not None:
            # progress
            try:
                if details.progress is not None:
                    details.progress(1, k=2)
            except Exception as e:  # noqa
                R.re["exc"] = type(e).__name__
            R.step(dict(ev="progress", req=rq))
        else:
            how = rng.choice(["value", "callresult", "none", "unserializable", "oversize", "apperror", "bigerror", "mapped", "unmapped"])
            R.pending_endpoints.pop(rq)
            R.endpoint_expect[rq] = {}
            if how == "value":
                R.endpoint_expect[rq]["ret"] = ([42], {})
                txaio.resolve(d, 42)
            elif how == "callresult":
                cr, R.endpoint_expect[rq]["ret"] = callresult(rq + 1)
                txaio.resolve(d, cr)
            elif how == "none":
                R.endpoint_expect[rq]["ret"] = ([None], {})
                txaio.resolve(d, None)
            elif how == "unserializable":
                txaio.resolve(d, Unserializable())
            elif how == "oversize":
                txaio.resolve(d, "x" * 5000)
            elif how == "apperror":
                R.endpoint_expect[rq]["err"] = ("com.myapp.error.custom", ["bad", 7], {"why": "because"})
                txaio.reject(d, ApplicationError("com.myapp.error.custom", "bad", 7, why="because"))
            elif how == "bigerror":
                txaio.reject(d, ApplicationError("com.myapp.error.big", "y" * 5000, why="z" * 100))
            elif how == "mapped":
                R.endpoint_expect[rq]["err"] = ("com.myapp.error.mapped", ["m1"], {})
                txaio.reject(d, MappedError("m1"))
            else:
                exc, eargs = plain_exception(rq + 1)
                R.endpoint_expect[rq]["err"] = ("wamp.error.runtime_error", eargs, {})
                txaio.reject(d, exc)
            R.step(dict(ev="resolve", req=rq, how=how))

    # ---- the history
    do_open()
    pre = rng.random()
    if pre < 0.15:
        # something illegal before WELCOME, or challenge rounds
        for _ in range(rng.randint(1, 2)):
            rnd_router(False)
    elif pre < 0.3:
        R.user["challenge"] = rng.choice(["ok", "ok", "raise"])
        rx(message.Challenge("wampcra", {"challenge": "x"}), dict(t="challenge"))
    if s.transport is not None and s.session_id is None and rng.random() < 0.9:
        R.user["welcome"] = rng.choice(["ok"] * 6 + ["deny", "raise"])
        rx(message.Welcome(1234, ROLES_ACK if R.ackf else ROLES), dict(t="welcome", ackf=R.ackf))
    if s.session_id is not None and profile == "c10":
        # a registration to invoke
        R.expect_sent = dict(uri="com.myapp.proc9")

        use_obj = rng.random() < 0.35

        def f0():
            if use_obj:
                svc = FalsyService()
                svc.rec = R
                with capture_gather() as cg:
                    s.register(svc)
                fut = cg.futs[0]
            else:
                fut = s.register(R.endpoint, "com.myapp.proc9", options=RegisterOptions(details=True), check_types=(rng.random() < 0.3))
            rid = R.last_req()
            R.requests[rid] = dict(kind="register")

            def got(reg):
                R.regs_objs[reg.id] = reg
                return reg
            txaio.add_callbacks(fut, got, None)
            R.track(fut, rid)
        api("register", f0)
        rid0 = R.last_req()
        rx(message.Registered(rid0, 21), dict(t="registered", req=rid0, reg=21))
    dec = rng.random()
    if s.session_id is not None and (profile == "c11" and dec < 0.35 or profile == "c04" and dec < 0.2):
        # decorated object: two methods, topic1 (details) -> handler id 2, topic2 (no options) -> handler id 3
        lst = Listener(R)
        Listener.a_first.hid = 2
        Listener.b_second.hid = 3
        before = R.last_req()
        try:
            with capture_gather() as cg:
                s.subscribe(lst)
            futs = cg.futs
        except Exception as e:  # noqa
            R.re["exc"] = type(e).__name__
            futs = []
        rids = list(range(before + 1, R.last_req() + 1))
        sent = [m for m in R.tr.sent[-len(rids):]] if rids else []
        for m in sent:
            # each SUBSCRIBE carries the options declared on *its* method (none: the policy its URI implies), nobody else's
            want, want_gr = ("prefix", True) if m.topic == "com.myapp.topic1" else ("exact", None)
            if (m.match or "exact") != want or m.get_retained != want_gr or m.topic not in ("com.myapp.topic1", "com.myapp.topic2", "com.myapp.topic3"):
                R.bad("faithful", "decorated subscribe sent match=%r get_retained=%r topic=%r" % (m.match, m.get_retained, m.topic))
        # the spec sees two subscribe API calls
        want_hs = [2, 3, 3]          # a_first once, b_second once per stacked decorator
        if sorted(m.topic for m in sent) != sorted(["com.myapp.topic1", "com.myapp.topic2", "com.myapp.topic3"][:len(sent)]) and len(sent) == 3:
            R.bad("faithful", "decorated subscribe topics %r" % [m.topic for m in sent])
        for i, rid in enumerate(rids):
            R.requests[rid] = dict(kind="subscribe", hid=want_hs[i] if i < 3 else 3)
            if i < len(futs):
                R.track(futs[i], rid)
        R.step(dict(ev="api", name="subscribe_obj", hs=want_hs, sync={"t": "none"}))
        if len(rids) == 3:
            for i, rid in enumerate(rids):
                rx(message.Subscribed(rid, 11 + i), dict(t="subscribed", req=rid, sub=11 + i, unsub=False))
    elif s.session_id is not None and profile == "c11":
        for hid in rng.sample([1, 2, 3], rng.randint(1, 3)):
            R.expect_sent = dict(uri="com.myapp.topic1")

            def f1(hid=hid):
                opts = SubscribeOptions(details=True) if hids[hid] else None
                fut = s.subscribe(R.handlers[hid], "com.myapp.topic1", options=opts)
                rid = R.last_req()
                R.requests[rid] = dict(kind="subscribe", hid=hid)

                def got(sub):
                    R.subs_objs.setdefault((sub.id, hid), []).append(sub)
                    return sub
                txaio.add_callbacks(fut, got, None)
                R.track(fut, rid)
            api("subscribe", f1, h=hid)
            rid1 = R.last_req()
            rx(message.Subscribed(rid1, 11), dict(t="subscribed", req=rid1, sub=11, unsub=False))
    if s.session_id is not None and profile in ("c04", "c10") and rng.random() < 0.15:
        # a router that answers a second REGISTER with a registration id it has already handed out: a protocol violation, and
        # the request stays pending like every other (it fails when the session ends; a correct REGISTERED still completes it)
        rnd_api(force="register")
        r1 = R.last_req()
        rnd_api(force="register")
        r2 = R.last_req()
        if r1 in pending_ids("register") and r2 in pending_ids("register") and r1 != r2:
            known_regs.append(21)
            rx(message.Registered(r1, 21), dict(t="registered", req=r1, reg=21))
            rx(message.Registered(r2, 21), dict(t="registered", req=r2, reg=21))
            if rng.random() < 0.5:
                rx(message.Registered(r2, 22), dict(t="registered", req=r2, reg=22))
    if s.session_id is not None and profile == "c11" and rng.random() < 0.3:
        # a handler gets attached to a subscription id between the UNSUBSCRIBE for that id and its UNSUBSCRIBED: the router
        # has dropped the subscription, so UNSUBSCRIBED ends it for every handler, and a later EVENT for the id is a violation
        rnd_api(force="subscribe")
        rid_s = R.last_req()
        for _ in range(8):
            if not any(sub.active for (sid_, _h), subl in R.subs_objs.items() if sid_ == 11 for sub in subl):
                break
            rnd_api(force="unsubscribe", only_sub=11)
        un = [r for r in pending_ids("unsubscribe")]
        if rid_s in pending_ids("subscribe") and un and not R.lost_flag:
            known_subs.append(11)
            flagged = bool(R.requests.get(rid_s, {}).get("unsub_on_reply"))
            rx(message.Subscribed(rid_s, 11), dict(t="subscribed", req=rid_s, sub=11, unsub=flagged))
            if rng.random() < 0.3:
                rnd_router(True, force="event", force_sub=11)
            rx(message.Unsubscribed(un[-1]), dict(t="unsubscribed", req=un[-1]))
            if rng.random() < 0.6:
                rnd_router(True, force="event", force_sub=11)
            else:
                rnd_api(force="unsubscribe", only_sub=11)
    steps = rng.randint(4, 16)
    R.tr.sync_close = profile == "c06" and rng.random() < 0.25
    for _ in range(steps):
        r = rng.random()
        if R.lost_flag:
            if r < 0.5:
                rnd_api()
            elif r < 0.7:
                rnd_endpoint()
            else:
                api(rng.choice(["leave", "disconnect"]), (s.leave if rng.random() < 0.5 else s.disconnect))
            continue
        if r < 0.38:
            rnd_api()
        elif r < 0.8 and not (profile == "c10" and R.pending_endpoints and r > 0.62):
            rnd_router(True)
        elif r < 0.88:
            rnd_endpoint()
        elif r < 0.93:
            nm = rng.choice(["leave", "disconnect"])
            if nm == "leave" and R.tr.max_size and rng.random() < 0.3:
                # a closing message the transport cannot carry: the GOODBYE is refused, the session has not begun to leave
                api("leave", lambda: s.leave(message="bye " * (R.tr.max_size // 2)), bad="size")
                if rng.random() < 0.5:
                    api("leave", s.leave)
            else:
                api(nm, s.leave if nm == "leave" else s.disconnect)
        elif r < 0.97 or profile == "c06" and r < 0.99:
            R.lost_flag = True
            s.onClose(rng.random() < 0.5)
            R.step(dict(ev="lost"))
    if not R.lost_flag:
        R.lost_flag = True
        s.onClose(True)
        R.step(dict(ev="lost"))
    rnd_api()
    if profile == "c06" and rng.random() < 0.35:
        # a second transport connection for the same session object: everything counted per connection starts afresh
        R.tr = Transport(R, max_size=2000)
        R.tr.sync_close = rng.random() < 0.25
        R.lost_flag = False
        do_open()
        if rng.random() < 0.9:
            R.user["welcome"] = "ok"
            rx(message.Welcome(4321, ROLES_ACK if R.ackf else ROLES), dict(t="welcome", ackf=R.ackf))
        for _ in range(rng.randint(1, 6)):
            if R.lost_flag:
                break
            r = rng.random()
            if r < 0.35:
                rnd_api()
            elif r < 0.55:
                api("leave", s.leave)
            elif r < 0.75:
                rx(message.Goodbye(), dict(t="goodbye"))
            elif r < 0.85:
                rnd_router(True)
            else:
                R.lost_flag = True
                s.onClose(rng.random() < 0.5)
                R.step(dict(ev="lost"))
        if not R.lost_flag:
            R.lost_flag = True
            s.onClose(True)
            R.step(dict(ev="lost"))
        rnd_api()
    return R.trace, R.user_errors


RADIX = 1 << 27


def limbs(n):
    """an id as <<hi, lo>>, id = hi * 2^27 + lo (TLC integers are 32 bit); ids outside 0..2^54 become [-1, -1]"""
    return [n >> 27, n & (RADIX - 1)] if isinstance(n, int) and not isinstance(n, bool) and 0 <= n < (1 << 54) else [-1, -1]


def idwrap_scenario(rng):
    """C04, "sequential ... always within 1..2^53": a session whose request counter stands shortly before 2^53 (as after a very
    long life) issues requests of every kind; the ids seen on the wire - after a serializer round trip, as a router reads them -
    are judged in TLA+ (IdAfter / IdInRange on limbs), and each request must complete with the reply that bears its id."""
    class Tr:
        def __init__(self):
            self.sent, self.transport_details = [], types.TransportDetails()

        def send(self, msg):
            w = WIRES[len(self.sent) % len(WIRES)]
            self.sent.append(w.unserialize(w.serialize(msg)[0])[0])

        def isOpen(self):
            return True

        def close(self):
            pass

        def abort(self):
            pass
    s = ApplicationSession(ComponentConfig("realm1"))
    tr = Tr()
    s.onOpen(tr)
    s.onMessage(message.Welcome(778, ROLES))
    fw.settle()
    gen = s._request_id_gen
    if not hasattr(gen, "_next"):
        return None
    back = rng.choice([0, 1, 2, 3, 5])
    warm = rng.randint(0, 2)
    base = (1 << 53) - back if rng.random() < 0.8 else rng.choice([0, 5, RADIX - 2, RADIX * 3 - 1])
    gen._next = base
    del tr.sent[:]
    kinds = [rng.choice(["call", "publish", "subscribe", "register"]) for _ in range(rng.randint(3, 7))]
    futs, done = [], {}
    for i, k in enumerate(kinds):
        if k == "call":
            f = s.call("com.a.p%d" % i, i)
        elif k == "publish":
            f = s.publish("com.a.t%d" % i, i, options=PublishOptions(acknowledge=True))
        elif k == "subscribe":
            f = s.subscribe(lambda *a, **kw: None, "com.a.t%d" % i)
        else:
            f = s.register(lambda *a, **kw: None, "com.a.p%d" % i)
        txaio.add_callbacks(f, (lambda v, i=i: done.setdefault(i, []).append(("ok", v))), (lambda e, i=i: done.setdefault(i, []).append(("err", e))))
        futs.append(f)
    fw.settle()
    reqs = [m for m in tr.sent if KIND_OF.get(type(m).__name__) in RTYPE]
    wires = [limbs(m.request) for m in reqs]
    same_kind = [KIND_OF.get(type(m).__name__) for m in reqs] == kinds
    # the router answers in another order, each reply bearing the id it read
    order = list(range(len(reqs)))
    rng.shuffle(order)
    own = [False] * len(kinds)
    esc = ""
    for j in order:
        m, k = reqs[j], kinds[j] if j < len(kinds) else "?"
        try:
            if k == "call":
                s.onMessage(message.Result(m.request, args=[1000 + j]))
            elif k == "publish":
                s.onMessage(message.Published(m.request, 5000 + j))
            elif k == "subscribe":
                s.onMessage(message.Subscribed(m.request, 6000 + j))
            else:
                s.onMessage(message.Registered(m.request, 7000 + j))
        except Exception as e:  # noqa
            esc = type(e).__name__
        fw.settle()
        got = done.get(j, [])
        if len(got) == 1 and got[0][0] == "ok":
            v = got[0][1]
            own[j] = (v == 1000 + j) if k == "call" else (getattr(v, "id", None) == {"publish": 5000, "subscribe": 6000, "register": 7000}[k] + j)
    once = all(len(done.get(i, [])) == 1 for i in range(len(kinds)))
    s.onClose(True)
    fw.settle()
    return [dict(ev="idwrap", base=limbs(base), wires=wires, n=len(kinds), sameKind=same_kind, own=own, once=once, esc=esc)]


ROLES = None
ROLES_ACK = None


def main():
    global ROLES, ROLES_ACK
    from autobahn.wamp.role import RoleBrokerFeatures, RoleDealerFeatures
    ROLES = {"broker": RoleBrokerFeatures(), "dealer": RoleDealerFeatures()}
    ROLES_ACK = {"broker": RoleBrokerFeatures(x_acknowledged_event_delivery=True), "dealer": RoleDealerFeatures()}
    inp = driver_in()
    rng = random.Random(int(os.environ.get("VERIF_SEED", "0")) * 7411 + inp.get("shard", 0) * 271 + 11)
    traces = []
    for i in range(inp["n"]):
        t, _ = scenario(rng, inp.get("profile", "c04"))
        traces.append(t)
        fw.reset()
    if inp.get("profile", "c04") == "c04":
        for i in range(max(4, inp["n"] // 40)):
            t = idwrap_scenario(rng)
            if t is not None:
                traces.append(t)
            fw.reset()
    driver_out(dict(fw=fw.NAME, traces=traces, cases=len(traces)))


if __name__ == "__main__":
    main()
