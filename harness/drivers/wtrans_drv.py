"""C13 driver: the real WAMP transports (RawSocket and WebSocket, this process's framework) against scripted peers / each other.

input: {mode: "rs_hs", cases: [[role, [o1,o2,o3,o4], seg_index], ...]}
       {mode: "ws_neg", pairs: [[client_list, server_list], ...]}
       {mode: "link", scenarios: [...]}
"""
import os
import random
import struct

from harness import fw, wsx
from harness.common import driver_in, driver_out

import txaio
from autobahn.wamp import message
from autobahn.wamp.exception import ProtocolError, TransportLost
from autobahn.wamp.serializer import CBORSerializer, JsonSerializer, MsgPackSerializer, UBJSONSerializer

if fw.NAME == "tx":
    from autobahn.twisted import rawsocket as rs
    from autobahn.twisted import websocket as ws
else:
    from autobahn.asyncio import rawsocket as rs
    from autobahn.asyncio import websocket as ws

SER_BY_RSID = {1: JsonSerializer, 2: MsgPackSerializer, 3: CBORSerializer, 4: UBJSONSerializer}
SER_BY_NAME = {"json": JsonSerializer, "msgpack": MsgPackSerializer, "cbor": CBORSerializer, "ubjson": UBJSONSerializer}
SEGS = [[4], [1, 3], [1, 1, 1, 1], [2, 2], [3, 1]]


class StubSession:
    """records what the transport tells its session; can be told to raise"""

    _authid = None          # read by the WebSocket transport's trace logging
    _session_id = None

    def __init__(self, sink):
        self.opens = 0
        self.closes = []
        self.msgs = []
        self.raise_on = None
        self.transport = None
        sink.append(self)

    open_raises = False        # (class level: set by a scenario in which the session's onOpen fails)

    def onOpen(self, transport):
        if StubSession.open_raises:
            raise RuntimeError("onOpen raised")
        self.opens += 1
        self.transport = transport

    def onMessage(self, msg):
        if self.raise_on == "protocol":
            raise ProtocolError("out of phase")
        if self.raise_on == "internal":
            raise RuntimeError("session code raised")
        if self.raise_on == "payload":
            from autobahn.exception import PayloadExceededError
            raise PayloadExceededError("a reply written by session code was too large")
        if self.raise_on == "ser":
            from autobahn.wamp.exception import SerializationError
            raise SerializationError("a reply written by session code could not be serialized")
        self.msgs.append(msg)

    def onClose(self, wasClean):
        self.closes.append(bool(wasClean))


def rs_proto(role, sessions, sup=(1, 2), req=1, maxsize=None):
    if role == "S":
        f = rs.WampRawSocketServerFactory(lambda: StubSession(sessions), serializers=[SER_BY_RSID[i]() for i in sup])
    else:
        f = rs.WampRawSocketClientFactory(lambda: StubSession(sessions), serializer=SER_BY_RSID[req]())
    if maxsize is not None and hasattr(f, "setProtocolOptions"):
        f.setProtocolOptions(maxMessagePayloadSize=maxsize)
    p = f.buildProtocol(None) if fw.NAME == "tx" else f()
    t = fw.Transport()
    fw.connect(p, t)
    return p, t


def dropped(t):
    d = t.dropped
    return bool(d() if callable(d) else d)


def tell_lost(p, t, clean=False):
    if not getattr(t, "_lost_told", False):
        t._lost_told = True
        try:
            fw.lose(p, clean=clean)
        except Exception as e:  # noqa
            return "lose:" + type(e).__name__
    return ""


def feed_reactor(p, t, data):
    """framework contract: nothing is delivered once the transport was closed / aborted by the protocol; an exception out of
    data_received makes the framework drop the connection; either way the protocol is then told that the connection is gone"""
    if getattr(t, "_lost_told", False):
        return ""
    if dropped(t):
        tell_lost(p, t, clean=not t.abort_calls)
        return ""
    e = fw.feed(p, data)
    fw.settle()
    if e is not None:
        tell_lost(p, t, clean=False)
        return type(e).__name__ + ":" + str(e)[:60]
    if dropped(t):
        tell_lost(p, t, clean=not t.abort_calls)
    return ""


def feed_chunks(p, t, chunks, burst):
    """the chunks as separate reads; burst: all of them back-to-back, without an event-loop turn in between (on asyncio the
    WebSocket adapter queues such reads).  Returns the list of escapes."""
    chunks = list(chunks)
    if not burst or len(chunks) < 2:
        return [feed_reactor(p, t, ch) for ch in chunks]
    if getattr(t, "_lost_told", False):
        return [""]
    if dropped(t):
        tell_lost(p, t, clean=not t.abort_calls)
        return [""]
    e = fw.feed_burst(p, chunks)
    fw.settle()
    if e is not None:
        tell_lost(p, t, clean=False)
        return [type(e).__name__ + ":" + str(e)[:60]]
    if dropped(t):
        tell_lost(p, t, clean=not t.abort_calls)
    return [""]


def max_send_of(p):
    # (private attributes: if a refactoring renames them this is a machinery failure, not a verdict)
    if hasattr(p, "_max_len_send"):
        v = p._max_len_send
    else:
        v = p.max_length_send
    return int(v or 0)


def rs_hs_case(role, o, segi):
    sessions = []
    obs = dict(esc="", attached=0, reply=[], hello=[], ser=0, maxSend=0, dropped=False, closes=0, opens=0)
    try:
        p, t = rs_proto(role, sessions)
        hello = bytes(t.written)
        obs["hello"] = list(hello)
        data = bytes(o)
        pos = 0
        for n in SEGS[segi]:
            e = feed_reactor(p, t, data[pos:pos + n])
            pos += n
            if e and not obs["esc"]:
                obs["esc"] = e
        obs["reply"] = list(bytes(t.written)[len(hello):])
        obs["attached"] = sum(s.opens for s in sessions)
        if obs["attached"]:
            obs["ser"] = int(p._serializer.RAWSOCKET_SERIALIZER_ID)
            obs["maxSend"] = max_send_of(p)
        obs["dropped"] = dropped(t)
        x = tell_lost(p, t)
        obs["esc"] = obs["esc"] or x
        obs["opens"] = sum(s.opens for s in sessions)
        obs["closes"] = sum(len(s.closes) for s in sessions)
    except Exception as e:  # noqa
        obs["esc"] = obs["esc"] or ("drv:" + type(e).__name__ + ":" + str(e)[:60])
    fw.reset()
    return dict(ev="rs_hs", role=role, o=list(o), seg=segi, sup=[1, 2], req=1, exp=24, obs=obs)


def mode_rs_hs(inp):
    traces, cur = [], []
    for role, o, segi in inp["cases"]:
        cur.append(rs_hs_case(role, o, segi))
        if len(cur) >= 256:
            traces.append(cur)
            cur = []
    if cur:
        traces.append(cur)
    return traces, len(inp["cases"])


# ------------------------------------------------------------------ WebSocket subprotocol negotiation
def ws_pair(cl, sl, sessions_c, sessions_s, fail_by_drop=None):
    sf = ws.WampWebSocketServerFactory(lambda: StubSession(sessions_s), url="ws://localhost:9000", serializers=[mk_ser(n) for n in sl])
    cf = ws.WampWebSocketClientFactory(lambda: StubSession(sessions_c), url="ws://localhost:9000", serializers=[mk_ser(n) for n in cl])
    if fail_by_drop is not None:
        sf.setProtocolOptions(failByDrop=fail_by_drop)
        cf.setProtocolOptions(failByDrop=fail_by_drop)
    sp = sf.buildProtocol(None) if fw.NAME == "tx" else sf()
    cp = cf.buildProtocol(None) if fw.NAME == "tx" else cf()
    st, ct = fw.Transport(), fw.Transport()
    fw.connect(sp, st)
    fw.connect(cp, ct)
    return sp, st, cp, ct


def mk_ser(name):
    base, _, b = name.partition(".")
    return SER_BY_NAME[base](batched=(b == "batched"))


def shuttle(sp, st, cp, ct, pos, rounds=6):
    """move octets between the two ends until quiet; returns escapes"""
    esc = ""
    for _ in range(rounds):
        moved = False
        d = bytes(ct.written[pos["c"]:])
        if d:
            pos["c"] = len(ct.written)
            e = feed_reactor(sp, st, d)
            esc = esc or e
            moved = True
        d = bytes(st.written[pos["s"]:])
        if d:
            pos["s"] = len(st.written)
            e = feed_reactor(cp, ct, d)
            esc = esc or e
            moved = True
        fw.settle()
        if not moved:
            break
    return esc


def ws_neg_case(cl, sl):
    sc, ss = [], []
    obs = dict(esc="", attachedC=0, attachedS=0, serC="", serS="", subproto="", status=0, droppedC=False, droppedS=False, binC=False, binS=False)
    try:
        sp, st, cp, ct = ws_pair(cl, sl, sc, ss)
        pos = dict(c=0, s=0)
        obs["esc"] = shuttle(sp, st, cp, ct, pos)
        obs["attachedC"] = sum(s.opens for s in sc)
        obs["attachedS"] = sum(s.opens for s in ss)
        if obs["attachedC"]:
            obs["serC"] = cp._serializer.SERIALIZER_ID
            obs["binC"] = bool(cp._serializer._serializer.BINARY)
        if obs["attachedS"]:
            obs["serS"] = sp._serializer.SERIALIZER_ID
            obs["binS"] = bool(sp._serializer._serializer.BINARY)
        head = bytes(st.written).split(b"\r\n\r\n")[0]
        if head.startswith(b"HTTP/1.1 "):
            obs["status"] = int(head[9:12])
        for line in head.split(b"\r\n"):
            if line.lower().startswith(b"sec-websocket-protocol:"):
                obs["subproto"] = line.split(b":", 1)[1].strip().decode()
        obs["droppedC"] = dropped(ct)
        obs["droppedS"] = dropped(st)
        # a message each way proves both ends frame and decode alike
        if obs["attachedC"] and obs["attachedS"]:
            m1 = message.Publish(7, "com.x.y", args=["ä", 1, None], kwargs={"k": [1, 2]})
            sc[0].transport.send(m1)
            ss[0].transport.send(message.Event(1, 2, args=[b"\x00\xff" if obs["binS"] else "t"]))
            obs["esc"] = obs["esc"] or shuttle(sp, st, cp, ct, pos)
            obs["rxS"] = len(ss[0].msgs) == 1 and ss[0].msgs[0].marshal() == m1.marshal()
            obs["rxC"] = len(sc[0].msgs) == 1 and isinstance(sc[0].msgs[0], message.Event)
        else:
            obs["rxS"] = obs["rxC"] = False
        for p_, t_ in ((sp, st), (cp, ct)):
            tell_lost(p_, t_)
        obs["closesC"] = sum(len(s.closes) for s in sc)
        obs["closesS"] = sum(len(s.closes) for s in ss)
    except Exception as e:  # noqa
        obs["esc"] = obs["esc"] or ("drv:" + type(e).__name__ + ":" + str(e)[:60])
    fw.reset()
    return dict(ev="ws_neg", cl=list(cl), sl=list(sl), obs=obs)


def ws_neg_raw_case(offers, sl):
    """a scripted client whose request lists arbitrary subprotocol names, against a real server speaking the serializers sl"""
    ss = []
    obs = dict(esc="", attachedS=0, serS="", subproto="", status=0, droppedS=False, binS=False, closesS=0)
    try:
        sf = ws.WampWebSocketServerFactory(lambda: StubSession(ss), url="ws://localhost:9000", serializers=[mk_ser(n) for n in sl])
        sp = sf.buildProtocol(None) if fw.NAME == "tx" else sf()
        st = fw.Transport()
        fw.connect(sp, st)
        names = [".".join(x for x in (o["p"], o["v"], o["s"]) if x != "") for o in offers]
        req = (b"GET / HTTP/1.1\r\nHost: localhost:9000\r\nUpgrade: websocket\r\nConnection: Upgrade\r\n"
               b"Sec-WebSocket-Key: dGhlIHNhbXBsZSBub25jZQ==\r\nSec-WebSocket-Version: 13\r\n"
               b"Sec-WebSocket-Protocol: " + ", ".join(names).encode() + b"\r\n\r\n")
        obs["esc"] = feed_reactor(sp, st, req)
        fw.settle()
        obs["attachedS"] = sum(s.opens for s in ss)
        if obs["attachedS"]:
            obs["serS"] = sp._serializer.SERIALIZER_ID
            obs["binS"] = bool(sp._serializer._serializer.BINARY)
        head = bytes(st.written).split(b"\r\n\r\n")[0]
        if head.startswith(b"HTTP/1.1 "):
            obs["status"] = int(head[9:12])
        for line in head.split(b"\r\n"):
            if line.lower().startswith(b"sec-websocket-protocol:"):
                obs["subproto"] = line.split(b":", 1)[1].strip().decode()
        obs["droppedS"] = dropped(st)
        tell_lost(sp, st)
        obs["closesS"] = sum(len(s.closes) for s in ss)
    except Exception as e:  # noqa
        obs["esc"] = obs["esc"] or ("drv:" + type(e).__name__ + ":" + str(e)[:60])
    fw.reset()
    return dict(ev="ws_neg_raw", offers=offers, sl=list(sl), obs=obs)


def mode_ws_neg(inp):
    traces, cur = [], []
    for offers, sl in inp.get("raw") or []:
        cur.append(ws_neg_raw_case(offers, sl))
    for cl, sl in inp["pairs"]:
        cur.append(ws_neg_case(cl, sl))
        if len(cur) >= 128:
            traces.append(cur)
            cur = []
    if cur:
        traces.append(cur)
    return traces, len(inp["pairs"]) + len(inp.get("raw") or [])


def main():
    inp = driver_in()
    if inp["mode"] == "rs_hs":
        traces, n = mode_rs_hs(inp)
    elif inp["mode"] == "ws_neg":
        traces, n = mode_ws_neg(inp)
    else:
        from harness.drivers import wtrans_link
        traces, n = wtrans_link.run(inp)
    driver_out(dict(fw=fw.NAME, traces=traces, cases=n))


if __name__ == "__main__":
    main()
