"""C05 / C17 driver: drives one real endpoint (server or client role) through seeded event sequences on virtual time and
records, after every event, the complete projection for WsConnTrace.tla.

input: {n, shard, profile: "c05" | "c17", grid: "quick" | "thorough"}
"""
import os
import random
import struct

from harness import fw, wsx
from harness.common import driver_in, driver_out
from autobahn.websocket.protocol import WebSocketProtocol as WSP

KEY = b"\x01\x02\x03\x04"
REASONS = [b"", b"bye", "tsch\u00fc\u00df".encode(), ("\u20ac" * 41).encode(), b"x" * 123, b"maintenance window", b"k", "\u00e9".encode()]       # token 0 = no reason


def why_of(p):
    """why the connection ended uncleanly - from the protocol's flags; the wording of wasNotCleanReason is only consulted
    to tell a ping timeout from a deliberate failure when no flag says so"""
    if getattr(p, "wasOpenHandshakeTimeout", False):
        return "open-to"
    if getattr(p, "wasServerConnectionDropTimeout", False):
        return "drop-to"
    if getattr(p, "wasCloseHandshakeTimeout", False):
        return "close-to"
    cls = why_class(p.wasNotCleanReason)
    if cls.startswith("other:"):
        # wording not recognised (it is nobody's business): the flags say who dropped the connection
        if getattr(p, "failedByMe", False) and getattr(p, "droppedByMe", False):
            return "i-dropped"
        if not getattr(p, "droppedByMe", False) and not p.wasClean:
            return "peer-dropped"
    return cls


def why_class(s):
    if s is None:
        return "none"
    low = s.lower()
    if "opening handshake timeout" in s:
        return "open-to"
    if "server did not drop" in s:
        return "drop-to"
    if "closing handshake timeout" in s:
        return "close-to"
    if "ping" in low and ("timeout" in low or "timed out" in low):
        return "ping-to"
    if s.startswith("I dropped"):
        return "i-dropped"
    if "peer dropped" in s:
        return "peer-dropped"
    return "other:" + s[:40]


def reason_token(r):
    """the reason reported by a clean close as the index of the text the scripted peer sent (0 = none, -1 = something else)"""
    if r in (None, "", b""):
        return 0
    b = r.encode("utf8") if isinstance(r, str) else bytes(r)
    return REASONS.index(b) if b in REASONS else -1


def due_of(call):
    """due time (half-seconds, absolute) of a pending delayed call object, or -1"""
    if call is None:
        return -1
    if hasattr(call, "_index") and hasattr(call, "_timer"):         # txaio _BatchedCall: _index = bucket time in ms
        return int(round(call._index / 500.0))
    if hasattr(call, "getTime"):                                     # twisted DelayedCall
        return int(round(call.getTime() * 2))
    if hasattr(call, "when"):                                        # asyncio TimerHandle
        return int(round(call.when() * 2))
    raise AssertionError("unknown delayed call type %r" % (call,))


class Endpoint:
    def __init__(self, cfg, rng):
        self.cfg = cfg
        self.rng = rng
        opts = dict(failByDrop=cfg["failByDrop"], echoCloseCodeReason=cfg["echo"], openHandshakeTimeout=cfg["openTO"],
                    closeHandshakeTimeout=cfg["closeTO"], autoPingInterval=cfg["pingInt"], autoPingTimeout=cfg["pingTO"],
                    autoPingRestartOnAnyTraffic=cfg["restart"])
        if cfg.get("pingSize"):
            opts["autoPingSize"] = cfg["pingSize"]           # every legal size of the automatic ping's payload, 12 .. 125
        self.peer_inside = False
        self.log = []
        if cfg["role"] == "server":
            self.p, self.t = wsx.make_server(self.log, opts=opts)
        else:
            opts["serverConnectionDropTimeout"] = cfg["dropTO"]
            # through an explicit HTTP proxy the opening handshake (and its deadline) starts with the CONNECT round trip
            kw = dict(proxy={"host": "proxy.example.com", "port": 3128}) if cfg.get("proxy") else None
            self.p, self.t = wsx.make_client(self.log, opts=opts, factory_kw=kw)
            fw.settle()
        self.up = True
        self.lost_at = None
        self.synclost = False
        if cfg.get("syncLoss"):
            # an in-process transport: dropping the connection reports the loss before the call returns
            ep = self
            for nm, clean in (("loseConnection", True), ("abortConnection", False), ("close", True), ("abort", False)):
                if hasattr(self.t, nm):
                    def w(orig=getattr(self.t, nm), clean=clean):
                        orig()
                        if ep.up:
                            ep.up = False
                            ep.synclost = True
                            ep.lost_at = len(ep.log)
                            fw.lose(ep.p, clean=clean)
                    setattr(self.t, nm, w)
        self.peer_closed = False
        self.proxied = False
        self.dac = False
        self.late = False
        self.counts = dict(close=0, ping=0, data=0, pong=0)
        self.parse_pos = 0
        self.hs_done = False
        self.trace = []

    # ---- projection
    def scan_writes(self):
        if not self.hs_done:
            return
        buf = bytes(self.t.written[self.parse_pos:])
        frames, rest = wsx.split_frames(buf)
        self.parse_pos += len(buf) - len(rest)
        for f in frames:
            op = f["hdr"][0] & 0x0F
            k = {8: "close", 9: "ping", 10: "pong"}.get(op, "data")
            self.counts[k] += 1
            if k == "data" and self.counts["close"] > 0:
                self.dac = True                      # a data frame after a close frame in the byte stream
            if op == 8:
                self.last_cf = list(f["payload"])

    def obs(self):
        p = self.p
        self.scan_writes()
        # something written after the close notification (by position in the shared log, not by when it is looked at)
        oc = [i for i, e in enumerate(self.log) if e[0] == "onClose"]
        if oc and any(e[0] == "write" for e in self.log[oc[0] + 1:]):
            self.late = True
        # ... or delivered after it
        lated = bool(oc) and any(e[0] in ("onMessage", "onPing", "onPong") for e in self.log[oc[0] + 1:])
        drop = ""
        for e in self.log[:self.lost_at]:          # transport calls made after connection_lost are not drops
            if e[0] == "drop" and not drop:
                drop = "abort" if e[2] else "lose"
        closes = [dict(clean=e[2], code=e[3] if isinstance(e[3], int) else 0, reason=reason_token(e[4] if len(e) > 4 else None) if e[2] else 0)
                  for e in self.log if e[0] == "onClose"]
        return dict(st=wsx.STATE[p.state], cbm=bool(p.closedByMe), fbm=bool(p.failedByMe), dbm=bool(p.droppedByMe),
                    clean=bool(p.wasClean), why=why_of(p), up=self.up, drop=drop,
                    nclose=self.counts["close"], pings=self.counts["ping"], ndata=self.counts["data"], npong=self.counts["pong"],
                    closes=closes,
                    tOpen=due_of(p.openHandshakeTimeoutCall), tClose=due_of(p.closeHandshakeTimeoutCall),
                    tDrop=due_of(getattr(p, "serverConnectionDropTimeoutCall", None)),
                    tPs=due_of(p.autoPingPendingCall), tPt=due_of(p.autoPingTimeoutCall),
                    pend=p.autoPingPending is not None, dac=self.dac, late=self.late, lated=lated)

    def ev(self, name, **kw):
        fw.pump()                                    # flush the send queue (10 microsecond steps) within the event
        e = dict(ev=name, **kw)
        e["synclost"] = bool(self.synclost)
        self.synclost = False
        self.last_cf = []
        e["obs"] = self.obs()
        e["cf"] = self.last_cf
        self.trace.append(e)

    # ---- peer bytes
    def feed(self, data):
        if not self.up:
            return
        e = fw.feed(self.p, data)
        if e is not None:
            self.log.append(("escape", type(e).__name__))

    def frame(self, opcode, payload=b"", **kw):
        mask = KEY if self.cfg["role"] == "server" else None
        return wsx.build_frame(opcode, payload, mask=mask, **kw)

    # ---- events
    def do_open(self):
        p = self.p
        if self.cfg["role"] == "server":
            self.feed(wsx.CLIENT_REQUEST % b"")
        else:
            if self.cfg.get("proxy") and not self.proxied:
                self.do("proxied")
            req = bytes(self.t.written)
            key = [ln.split(b":", 1)[1].strip() for ln in req.split(b"\r\n") if ln.lower().startswith(b"sec-websocket-key:")][0]
            self.feed(b"HTTP/1.1 101 Switching Protocols\r\nUpgrade: websocket\r\nConnection: Upgrade\r\n"
                      b"Sec-WebSocket-Accept: " + wsx.accept_for(key) + b"\r\n\r\n")
        fw.settle()
        self.hs_done = True
        self.parse_pos = len(self.t.written)
        self.ev("open")

    def do(self, name):
        p, rng = self.p, self.rng
        if name == "open":
            return self.do_open()
        if name == "proxied":
            # the proxy answers the CONNECT: the client goes on with its upgrade request, still connecting, same deadline
            self.proxied = True
            self.feed(b"HTTP/1.1 200 Connection established\r\n\r\n")
            fw.settle()
            return self.ev("proxied")
        if name == "lclose":
            code = 0
            try:
                if rng.random() < 0.4:
                    p.sendClose()
                else:
                    code = rng.choice([1000, 3000, 4999, 3999, 4000])
                    p.sendClose(code, rng.choice([None, "bye", "x" * 200, "€" * 50, "a" + "€" * 41, "𝄞" * 31, "ab" + "𝄞" * 31]))
            except Exception as e:  # noqa
                self.log.append(("api-exc", type(e).__name__))
            self.ev("lclose", code=code)
        elif name == "lburst":
            try:
                p.sendMessage(b"one", sync=True)
                p.sendMessage(b"two", sync=True)
            except Exception:  # noqa
                pass
            try:
                p.sendClose()
            except Exception as e:  # noqa
                self.log.append(("api-exc", type(e).__name__))
            self.ev("lburst")
        elif name == "lsend":
            api = rng.choice(["msg", "prepared", "stream", "ping"])
            exc = ""
            try:
                if api == "msg":
                    p.sendMessage(b"hello", isBinary=rng.random() < 0.5)
                elif api == "prepared":
                    p.sendPreparedMessage(p.factory.prepareMessage(b"prepared"))
                elif api == "stream":
                    p.beginMessage()
                    p.beginMessageFrame(3)
                    p.sendMessageFrameData(b"abc")
                    p.endMessage()
                else:
                    p.sendPing(b"hi")
            except Exception as e:  # noqa
                exc = type(e).__name__
            fw.settle()
            if api == "stream" and wsx.STATE[p.state] == "OPEN":
                # the streaming API writes two frames for one message; the spec counts data *messages*
                self.scan_writes()
                self.counts["data"] -= 1
            self.ev("lsend", api=api, exc=exc)
        elif name == "pclose":
            self.peer_closed = True
            rc = rng.choice([0, 1000, 1001, 3000, 4999, 1011, 1003])
            rr = 0 if rc == 0 else rng.randrange(len(REASONS))
            pl = b"" if rc == 0 else struct.pack("!H", rc) + REASONS[rr]
            self.feed(self.frame(8, pl))
            self.ev("pclose", rc=rc, rr=rr)
        elif name == "pclosedata":
            # the peer's close frame and further frames arrive in one read: as if they had arrived one after the other
            self.peer_closed = True
            rc = rng.choice([0, 1000, 1001, 3000])
            rr = 0 if rc == 0 else rng.choice([0, 1])
            pl = b"" if rc == 0 else struct.pack("!H", rc) + REASONS[rr]
            first = self.frame(0, b"late") if self.peer_inside else self.frame(rng.choice([1, 2]), b"late")     # (legal where the peer's stream stands)
            self.peer_inside = False
            self.feed(self.frame(8, pl) + first + (self.frame(rng.choice([1, 2]), b"later") if rng.random() < 0.5 else b""))
            self.ev("pclosedata", rc=rc, rr=rr)
        elif name == "pdata":
            # one data frame of the peer: a whole message, or a (first / further / last) fragment of one - every frame is traffic
            fin = rng.random() < 0.6
            self.feed(self.frame(0 if self.peer_inside else 2, b"data", fin=fin))
            self.peer_inside = not fin
            self.ev("pdata")
        elif name == "pping":
            self.feed(self.frame(9, b"pp"))
            self.ev("pping")
        elif name == "ppong":
            match = rng.random() < 0.7 and p.autoPingPending is not None
            self.feed(self.frame(10, p.autoPingPending if match else b"nope"))
            self.ev("ppong", match=bool(match))
        elif name == "pviol":
            self.feed(self.frame(11, b""))          # reserved control opcode (a violating *data* frame would also count as traffic for the auto-ping restart)
            self.ev("pviol")
        elif name == "lfail":
            # the layer above (e.g. the WAMP transport) fails the connection with its own, possibly long, reason
            reason = rng.choice(["short reason", "r" * 123, "r" * 124, "x" * 300, "é" * 62, "é" * 100, "\U0001d11e" * 40, "a" + "é" * 61])
            try:
                p._fail_connection(rng.choice([1002, 1011, 1009]), reason)
            except Exception as e:  # noqa
                self.log.append(("api-exc", "_fail_connection:" + type(e).__name__))
            self.ev("lfail")
        elif name == "lost":
            self.up = False
            self.lost_at = len(self.log)
            try:
                fw.lose(self.p, clean=rng.random() < 0.5)
            except Exception as e:  # noqa  (nothing may escape connection_lost)
                self.log.append(("escape", "connection_lost:" + type(e).__name__))
            self.ev("lost")
        elif name == "adv":
            try:
                fw.advance(0.5)
            except Exception as e:  # noqa  (nothing may escape a timer)
                self.log.append(("escape", "timer:" + type(e).__name__))
            self.ev("adv")


def gen_cfg(rng, profile):
    t = rng.choice([(1, 1, 1), (2, 2, 1), (5, 2, 2), (2, 1, 0), (1, 0, 1), (0, 1, 1), (3, 5, 1)])
    if profile == "c17":
        p = rng.choice([(1, 1, True), (2, 2, True), (1, 2, False), (5, 1, True), (2, 0, True), (1, 5, False)])
    else:
        p = rng.choice([(0, 0, True), (0, 0, True), (1, 1, True), (2, 1, False)])
    role = rng.choice(["server", "client"])
    return dict(syncLoss=(profile == "c05" and rng.random() < 0.2), proxy=(role == "client" and rng.random() < 0.25),
                role=role, failByDrop=rng.random() < 0.5, echo=rng.random() < 0.3,
                openTO=t[0], closeTO=t[1], dropTO=t[2], pingInt=p[0], pingTO=p[1], restart=p[2],
                pingSize=rng.choice([0, 0, 12, 125, 47]))


def scenario(rng, profile):
    # start on a whole or a half second (batched timers quantise to whole seconds)
    frac = fw.now() % 1.0
    fw.advance((1.0 - frac) % 1.0 + rng.choice([0.0, 0.5]))
    cfg = gen_cfg(rng, profile)
    ep = Endpoint(cfg, rng)
    ep.trace.append(dict(ev="made", cfg=cfg, now=int(round(fw.now() * 2)), obs=ep.obs(), synclost=False))
    n = rng.randint(3, 14 if profile == "c17" else 10)
    opened = False
    if rng.random() < 0.85:
        for _ in range(rng.choice([0, 0, 1, 3])):
            ep.do("adv")
            if cfg.get("proxy") and not ep.proxied and ep.up and wsx.STATE[ep.p.state] == "CONNECTING" and rng.random() < 0.3:
                ep.do("proxied")
        if wsx.STATE[ep.p.state] == "CONNECTING" and ep.up:
            ep.do("open")
            opened = True
    for _ in range(n):
        st = wsx.STATE[ep.p.state]
        choices = ["adv", "adv", "adv"]
        if profile == "c17":
            choices += ["adv"] * 4
        if st != "CONNECTING":
            choices += ["lclose", "lsend"]
            if st in ("OPEN", "CLOSING") and rng.random() < 0.25:
                choices += ["lfail"]
            if st == "OPEN" and rng.random() < 0.5:
                choices += ["lburst"]
        if ep.up:
            choices += ["lost"]
            if st in ("OPEN", "CLOSING") or (st == "CLOSED" and rng.random() < 0.3 and opened):
                choices += ["pdata", "pping", "ppong", "pviol", "pdata", "ppong"]
                if not ep.peer_closed:
                    choices += ["pclose", "pclosedata"]            # a peer sends at most one close frame
        ep.do(rng.choice(choices))
    # run out the clock, then deliver the loss if still pending
    for _ in range(rng.choice([0, 4, 12])):
        ep.do("adv")
    if ep.up:
        ep.do("lost")
    for _ in range(rng.choice([0, 3])):
        ep.do("adv")
    if rng.random() < 0.3:
        ep.do("lsend")
    esc = [e for e in ep.log if e[0] in ("escape", "api-exc")]
    fw.reset()
    return ep.trace, esc


def main():
    inp = driver_in()
    rng = random.Random(int(os.environ.get("VERIF_SEED", "0")) * 9973 + inp.get("shard", 0) * 31337 + 5)
    traces, problems = [], []
    for i in range(inp["n"]):
        t, esc = scenario(rng, inp.get("profile", "c05"))
        traces.append(t)
        for e in esc:
            problems.append(dict(scenario=i, problem="%s: %s" % (e[0], e[1]), trace_index=len(traces) - 1))
    driver_out(dict(fw=fw.NAME, traces=traces, problems=problems, cases=inp["n"]))


if __name__ == "__main__":
    main()
