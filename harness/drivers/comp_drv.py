"""C14 driver: the real Component (Twisted: fake IStreamClientEndpoint provider; asyncio: stubbed create_connection on the
virtual loop) is run against a scripted router; per-attempt outcomes come from the scenario.

input: {scenarios: [ {transports:[{kind,max_retries,initial,growth,jitter,maxdelay}], main:"none"|"sync"|"async",
                      fatal:"none"|"all"|"oserror"|"apperror", outcomes:[...], stop:{"at":k,"point":...}|null, seed:int} ]}
outcome alphabet: refused | hsfail | abort | joined_lost | joined_leave | main_returns | main_raises
"""
import os
import sys
import random

from harness import fw
from harness.common import driver_in, driver_out
from harness.wamprouter import RouterConn

import txaio
from autobahn.wamp import message, role
from autobahn.wamp.exception import ApplicationError

if fw.NAME == "tx":
    from autobahn.twisted.component import Component
    from twisted.internet import defer
    from twisted.internet.interfaces import IStreamClientEndpoint
    from zope.interface import implementer
else:
    import asyncio
    from autobahn.asyncio.component import Component


class MainBoom(Exception):
    pass


class World:
    """the network: every connection attempt of the component lands here"""

    def __init__(self, sc, log):
        self.sc, self.log = sc, log
        self.attempts = []           # (transport idx, time)
        self.conns = []              # RouterConn per successful TCP connect
        self.pending = []            # (attempt no, conn, outcome, stage)
        self.mark = fw.now()         # time of the last event that can start a delay
        self.joined = set()

    closing = False
    joined = ()
    on_refuse = None

    def outcome(self, k):
        o = self.sc["outcomes"]
        return o[k] if (k < len(o) and not self.closing) else "refused"

    def on_connect(self, idx, factory_build):
        k = len(self.attempts)
        now = fw.now()
        self.attempts.append((idx, now))
        out = self.outcome(k)
        self.log.append(dict(ev="attempt", k=k, tr=idx + 1, delay_ms=int(round((now - self.mark) * 1000)), out=out,
                             att=[t.connect_attempts for t in self.comp._transports]))
        if out == "refused":
            if self.on_refuse:
                self.on_refuse(k)
            return None
        proto = factory_build()
        t = fw.Transport()
        kind = self.sc["transports"][idx]["kind"]
        conn = RouterConn(kind, proto, t, ser_id="json", fail_handshake=(("close" if (self.sc.get("seed", 0) + k) % 3 == 1 else True) if out == "hsfail" else False))
        self.conns.append(conn)
        self.pending.append([k, conn, out, "new"])
        return proto, t


TIMER_EXC = []
fw.TOLERATE_ESCAPES = True       # this driver records them itself (TIMER_EXC): the start() result is what C14 speaks about
_raw_settle = fw.settle
_raw_advance = fw.advance


def _safe_settle():
    # a real reactor / loop logs an exception escaping a delayed call and goes on
    for _ in range(50):
        try:
            _raw_settle()
            return
        except Exception as e:  # noqa
            TIMER_EXC.append(type(e).__name__ + ":" + str(e)[:80])


def _safe_advance(dt):
    target = fw.now() + dt
    for _ in range(50):
        try:
            _raw_advance(max(0.0, target - fw.now()))
            return
        except Exception as e:  # noqa
            TIMER_EXC.append(type(e).__name__ + ":" + str(e)[:80])


fw.settle = _safe_settle
fw.advance = _safe_advance


def run_scenario(sc):
    # a third of the "abort" outcomes become "prelost": the router has the HELLO and the connection is then lost uncleanly,
    # without an answer - a failure before the join like any other
    sc = dict(sc, outcomes=[("prelost" if o == "abort" and (sc.get("seed", 0) + i) % 3 == 2 else o) for i, o in enumerate(sc["outcomes"])])
    del TIMER_EXC[:]
    log = []
    notes = []
    obs = dict(esc="", done="pending", doneCount=0, errclass="", sessions=0, listeners={}, unhandled=0)
    random.seed(sc.get("seed", 0))
    world = World(sc, log)
    sessions = []
    lst = {}

    def rec(evname):
        if evname == "disconnect":
            # the documented signature of a disconnect listener: it is told whether the transport went down cleanly
            def fd(session, was_clean):
                if session not in sessions:
                    sessions.append(session)
                lst.setdefault(sessions.index(session), []).append(evname)
            return fd

        def f(session, *a, **kw):
            if session not in sessions:
                sessions.append(session)
            lst.setdefault(sessions.index(session), []).append(evname)
            if evname == "join" and sc["main"] == "none":
                k = len(world.attempts) - 1
                if world.outcome(k) == "joined_leave":
                    return session.leave()
        return f

    transports = []
    for i, tc in enumerate(sc["transports"]):
        # (asyncio: some WebSocket transports are wss:// - the TLS layer itself is not there, but a refused attempt then fails
        # with a TLS error, which is an OSError like any other connection failure)
        tls = fw.NAME == "aio" and tc["kind"] == "websocket" and (sc.get("seed", 0) + i) % 4 == 1
        d = dict(type=tc["kind"], url=(("wss://10.0.0.%d:443/ws" if tls else "ws://10.0.0.%d:80/ws") % (i + 1)) if tc["kind"] == "websocket" else ("rs://10.0.0.%d:80" % (i + 1)),
                 max_retries=tc["max_retries"], initial_retry_delay=tc["initial"], retry_delay_growth=tc["growth"],
                 retry_delay_jitter=tc["jitter"], max_retry_delay=tc["maxdelay"])
        if tc["kind"] == "websocket":
            d["serializers"] = ["json"]
        else:
            d["serializer"] = "json"
        if fw.NAME == "tx":
            @implementer(IStreamClientEndpoint)
            class EP:
                def __init__(self, idx):
                    self.idx = idx

                def connect(self, factory):
                    r = world.on_connect(self.idx, lambda: factory.buildProtocol(None))
                    if r is None:
                        from twisted.internet.error import ConnectionRefusedError as TxRefused
                        return defer.fail(TxRefused("refused"))
                    proto, t = r
                    proto.makeConnection(t)
                    return defer.succeed(proto)
            d["endpoint"] = EP(i)
        else:
            d["endpoint"] = dict(type="tcp", host="10.0.0.%d" % (i + 1), port=(443 if tls else 80), **(dict(tls=True) if tls else {}))
        transports.append(d)

    main_calls = []
    idle = [False]
    once_fns = {}
    last_fail = []

    def on_connectfailure(component, error):
        tb = "".join(__import__("traceback").format_tb(getattr(error, "__traceback__", None)))
        if isinstance(error, (NameError, AttributeError, TypeError)) and "comp_drv.py" in tb.splitlines()[-2 if len(tb.splitlines()) > 1 else 0:][0:1].__str__():
            # the harness itself failed inside a connection attempt: machinery failure, not a verdict
            sys.stderr.write("harness failure inside a connection attempt: %r\n%s" % (error, tb))
            os._exit(3)
        k = len(world.attempts) - 1
        ev = dict(ev="fail", k=k, kind=world.outcome(k), fatal=False, err=type(error).__name__, argOk=True)
        if k in world.joined and not (ev["kind"] == "main_raises" and isinstance(error, MainBoom)):
            ev["kind"] = "joined_lost"        # any failure of a joined session other than main raising is a lost connection
        last_fail.append(ev)
        log.append(ev)
        world.mark = fw.now()

    def main_fn(reactor, session):
        k = len(world.attempts) - 1
        out = world.outcome(k)
        main_calls.append(k)
        if out == "main_raises":
            if sc["main"] == "async":
                f = txaio.create_future()
                txaio.call_later(0.5, lambda: txaio.reject(f, MainBoom("boom")))
                return f
            raise MainBoom("boom")
        if out == "main_returns":
            if sc["main"] == "async":
                f = txaio.create_future()
                txaio.call_later(0.5, lambda: txaio.resolve(f, None))
                return f
            return None
        return txaio.create_future()        # main still running when something else happens

    fatal = sc["fatal"]

    fatal_seq = list(sc.get("fatal_seq") or [])

    def is_fatal(e):
        # the classifier is documented to receive the exception instance
        if last_fail and not isinstance(e, BaseException):
            last_fail[-1]["argOk"] = False
        if fatal == "seq":
            v = fatal_seq.pop(0) if fatal_seq else False
            if last_fail:
                last_fail[-1]["fatal"] = bool(v)
                last_fail[-1]["cls"] = type(e).__name__
            return v
        v = (fatal == "all" or (fatal == "oserror" and isinstance(e, OSError)) or (fatal == "apperror" and isinstance(e, ApplicationError))
             or (fatal == "main" and isinstance(e, MainBoom)))
        if last_fail:
            last_fail[-1]["fatal"] = bool(v)
            last_fail[-1]["cls"] = type(e).__name__
        return v

    comp = Component(transports=transports, realm="realm1", main=(None if sc["main"] == "none" else main_fn),
                     is_fatal=(None if fatal == "none" else is_fatal))
    world.comp = comp
    # one-shot listeners that remove themselves the first time they run, registered *before* the recording listeners: the
    # other listeners must still be invoked for every session
    if sc.get("seed", 0) % 2 == 0:
        for evn in ("connect", "join", "leave"):
            def once(*a, evn=evn, **kw):
                comp.off(evn, once_fns[evn])
            once_fns[evn] = once
            comp.on(evn, once)
    for evn in ("connect", "join", "ready", "leave", "disconnect"):
        comp.on(evn, rec(evn))
    comp.on("connectfailure", on_connectfailure)
    if sc.get("seed", 0) % 5 == 3:
        # a further listener that fails the first time it is told of a connect failure: the component carries on all the same
        raised = []

        def bad_listener(component, error):
            if not raised:
                raised.append(1)
                raise KeyError("a connectfailure listener raised")
        comp.on("connectfailure", bad_listener)

    if fw.NAME == "aio":
        async def create_connection(protocol_factory=None, host=None, port=None, **kw):
            idx = int(host.rsplit(".", 1)[1]) - 1
            r = world.on_connect(idx, protocol_factory)
            if r is None:
                if kw.get("ssl"):
                    import ssl as _ssl
                    raise _ssl.SSLCertVerificationError(1, "[SSL: CERTIFICATE_VERIFY_FAILED] certificate verify failed (scripted)")
                raise ConnectionRefusedError("refused")
            proto, t = r
            proto.connection_made(t)
            return t, proto
        fw.LOOP.create_connection = create_connection

    done_calls = []
    d = comp.start(fw.CLOCK)
    txaio.add_callbacks(d, lambda r: done_calls.append(("ok", r)), lambda f: done_calls.append(("err", f)))
    log.insert(0, dict(ev="start", n=len(sc["transports"]), mr=[t["max_retries"] for t in sc["transports"]], hasMain=sc["main"] != "none",
                       maxdelay_ms=[int(round(t["maxdelay"] * 1000)) for t in sc["transports"]]))
    stop = sc.get("stop")
    stopped = [False]

    def note_done():
        while seen_done[0] < len(done_calls):
            how, v = done_calls[seen_done[0]]
            seen_done[0] += 1
            err = ""
            if how == "err":
                val = getattr(v, "value", v)
                err = type(val).__name__
            log.append(dict(ev="done", how=how, err=err))
    seen_done = [0]

    def do_stop(point):
        stopped[0] = True
        log.append(dict(ev="stop", point=point, k=len(world.attempts)))
        try:
            comp.stop()
        except Exception as e:  # noqa
            log.append(dict(ev="stop_raised", err=type(e).__name__ + ":" + str(e)[:60]))
        fw.settle()
        note_done()

    def on_refuse(k):
        if stop and not stopped[0] and stop["at"] == k and stop["point"] == "connecting":
            do_stop("connecting")
    world.on_refuse = on_refuse

    def features():
        return dict(broker=role.RoleBrokerFeatures(), dealer=role.RoleDealerFeatures())

    timer_exc = TIMER_EXC
    advance = fw.advance

    steps = 0
    late = 0
    cap = len(sc["outcomes"]) + 6
    while steps < 400:
        steps += 1
        fw.settle()
        note_done()
        progressed = False
        for p in list(world.pending):
            k, conn, out, stage = p
            if stop and not stopped[0] and stop["at"] == k and stop["point"] == "connecting" and stage == "new":
                do_stop("connecting")
            if out == "hang":
                # the peer accepted the TCP connection and stays silent
                if conn_dropped(conn) and not conn.lost:
                    world.pending.remove(p)
                    log.append(dict(ev="lost", k=k))
                    conn.lose(clean=False)
                    progressed = True
                continue
            msgs = conn.poll()
            if conn.hs_failed and stage != "closed":
                # the client drops after a failed transport handshake; the TCP connection then goes away
                notes.append(dict(ev="outcome", k=k, kind="hsfail"))
                world.mark = fw.now()
                world.pending.remove(p)
                p[3] = "closed"
                log.append(dict(ev="lost", k=k))
                conn.lose(clean=(conn.fail_handshake == "close"))
                progressed = True
                continue
            for m in msgs:
                if isinstance(m, message.Hello):
                    if out == "prelost":
                        notes.append(dict(ev="outcome", k=k, kind="prelost"))
                        world.mark = fw.now()
                        world.pending.remove(p)
                        log.append(dict(ev="lost", k=k))
                        conn.lose(clean=False)
                        progressed = True
                        break
                    if out == "abort":
                        notes.append(dict(ev="outcome", k=k, kind="abort"))
                        world.mark = fw.now()
                        world.pending.remove(p)
                        conn.send(message.Abort("wamp.error.no_such_realm", message="no realm"))
                        fw.settle()
                        conn.poll()
                        log.append(dict(ev="lost", k=k))
                        conn.lose(clean=True)
                        progressed = True
                        break
                    p[3] = "joined"
                    log.append(dict(ev="joined", k=k, out=out))
                    world.joined.add(k)
                    conn.send(message.Welcome(1000 + k, features(), realm="realm1", authid="a", authrole="r"))
                    progressed = True
                    still_joined = not any(e["ev"] == "fail" and e["k"] == k for e in log)
                    if stop and not stopped[0] and stop["at"] == k and stop["point"] == "joined" and still_joined:
                        do_stop("joined")
                    elif out == "joined_lost":
                        fw.settle()
                        conn.poll()
                        notes.append(dict(ev="outcome", k=k, kind="joined_lost"))
                        world.mark = fw.now()
                        world.pending.remove(p)
                        log.append(dict(ev="lost", k=k))
                        conn.lose(clean=False)
                        break
                elif isinstance(m, message.Goodbye):
                    if p[3] != "bye":
                        p[3] = "bye"
                        if k == len(world.attempts) - 1 and not any(e["ev"] == "fail" and e["k"] == k for e in log):
                            log.append(dict(ev="left", k=k))
                        else:
                            notes.append(dict(ev="left_stale", k=k))     # GOODBYE of a session the component has already given up
                        conn.send(message.Goodbye("wamp.close.goodbye_and_out"))
                        progressed = True
            if p in world.pending and (conn.ws_close_seen or conn_dropped(conn)) and not conn.lost:
                conn.poll()
                notes.append(dict(ev="outcome", k=k, kind="closed_by_client", stage=p[3]))
                world.mark = fw.now()
                world.pending.remove(p)
                log.append(dict(ev="lost", k=k))
                conn.lose(clean=True)
                progressed = True
        fw.settle()
        note_done()
        if progressed:
            continue
        # nothing to do on the wire: let time pass
        if stop and not stopped[0] and stop["point"] == "delay" and len(world.attempts) == stop["at"] and comp._delay_f is not None:
            do_stop("delay")
            continue
        if len(world.attempts) >= cap:
            break
        if done_calls and not world.pending:
            # let stray timers run a little to catch late effects (second completion, further attempts)
            late += 1
            if late > 3:
                break
            ts = fw.timers()
            if not ts:
                break
            advance(max(0.0, min(ts[0] - fw.now(), 600.0)))
            continue
        ts = fw.timers()
        if not ts:
            # nothing is scheduled and nothing is on the wire: if start() has not completed and no connection is in flight,
            # the component has gone to sleep for good
            idle[0] = not done_calls and not world.pending
            break
        advance(max(0.0, ts[0] - fw.now()))
    note_done()
    world.closing = True
    for p in list(world.pending):
        # whatever is still connected at the end of the script goes away now, so that every session ends
        p[1].poll()
        log.append(dict(ev="lost", k=p[0]))
        p[1].lose(clean=True)
    fw.settle()
    note_done()
    obs["idle"] = bool(idle[0]) and not done_calls
    obs["done"] = done_calls[0][0] if done_calls else "pending"
    obs["doneCount"] = len(done_calls)
    obs["sessions"] = len(sessions)
    obs["listeners"] = [lst[k] for k in sorted(lst)]
    if fw.NAME == "aio":
        for ctx in fw.LOOP.exceptions:
            timer_exc.append(type(ctx.get("exception")).__name__ + ":" + str(ctx.get("exception") or ctx.get("message"))[:80])
    obs["timerExc"] = list(timer_exc)
    obs["doubleFire"] = len([x for x in timer_exc if "AlreadyCalled" in x or "InvalidState" in x])
    obs["notes"] = notes
    obs["mainCalls"] = len(main_calls)
    obs["attempts"] = [t.connect_attempts for t in comp._transports]
    obs["perm"] = [bool(t._permanent_failure) for t in comp._transports]
    obs["successes"] = [t.connect_sucesses for t in comp._transports]
    obs["steps"] = steps
    log.append(dict(ev="end", obs=obs))
    fw.reset()
    return log


def conn_dropped(conn):
    d = conn.t.dropped
    return d() if callable(d) else d


def main():
    inp = driver_in()
    traces = []
    for sc in inp["scenarios"]:
        try:
            tr = run_scenario(sc)
        except Exception as e:  # noqa
            import traceback
            tr = [dict(ev="start", n=len(sc["transports"]), mr=[t["max_retries"] for t in sc["transports"]], hasMain=sc["main"] != "none",
                       maxdelay_ms=[int(round(t["maxdelay"] * 1000)) for t in sc["transports"]]),
                  dict(ev="escape", err=type(e).__name__ + ":" + str(e)[:100], tb=traceback.format_exc()[-600:])]
        traces.append(dict(sc=sc, log=tr))
    driver_out(dict(fw=fw.NAME, traces=traces, cases=len(traces)))


if __name__ == "__main__":
    main()
