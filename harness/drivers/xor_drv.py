"""C15 driver: records calls of one XOR masker implementation as traces for XorMaskTrace.tla.
argv: impl (py_simple | py_shifted | py_factory | nvx_scalar | nvx_sse2 | nvx_factory | nvx_raw1 | nvx_raw2)
      mode (grid | split | random)   tier (quick | thorough)
nvx_raw<impl> calls lib.nvx_xormask_process directly on buf+a to control buffer alignment.
"""
import os
import random
import sys

from harness.common import driver_out

KEYS = [[0, 0, 0, 0], [255, 255, 255, 255], [1, 2, 4, 8], [222, 173, 190, 239]]


def inp(pat, n, seed, key):
    if pat == 0:
        return bytes((k * 7 + seed) % 256 for k in range(1, n + 1))
    if pat == 1:
        return bytes(key[(k + seed - 1) % 4] for k in range(1, n + 1))
    raise ValueError


class Raw:
    """direct cffi access with explicit buffer alignment"""

    def __init__(self, key, impl):
        from _nvx_xormasker import ffi, lib
        self.ffi, self.lib = ffi, lib
        self._kb = ffi.new("uint8_t[4]", bytes(key))
        self.m = ffi.gc(lib.nvx_xormask_new(self._kb), lib.nvx_xormask_free)
        got = lib.nvx_xormask_set_impl(self.m, impl)
        assert got == impl, (got, impl)
        self.align = 0

    def pointer(self):
        return self.lib.nvx_xormask_pointer(self.m)

    def reset(self):
        self.lib.nvx_xormask_reset(self.m)

    def process(self, data):
        n = len(data)
        buf = self.ffi.new("uint8_t[]", n + 48)
        addr = int(self.ffi.cast("uintptr_t", buf))
        start = (self.align - addr) % 16
        self.ffi.memmove(buf + start, data, n)
        guard_before = bytes(self.ffi.buffer(buf, start))
        self.lib.nvx_xormask_process(self.m, buf + start, n)
        assert (addr + start) % 16 == self.align
        # nothing outside [start, start+n) may be touched
        assert bytes(self.ffi.buffer(buf, start)) == guard_before
        assert bytes(self.ffi.buffer(buf + start + n, 48 - start)) == bytes(48 - start), "wrote past the payload"
        return bytes(self.ffi.buffer(buf + start, n))


def factory(impl):
    if impl.startswith("py"):
        assert os.environ.get("AUTOBAHN_USE_NVX") == "0"
        import autobahn.websocket.xormasker as x
        assert x.create_xor_masker.__module__ == "autobahn.websocket.xormasker"
        file = x.__file__
        if impl == "py_simple":
            return (lambda key, n: x.XorMaskerSimple(bytes(key))), file
        if impl == "py_shifted":
            return (lambda key, n: x.XorMaskerShifted1(bytes(key))), file
        return (lambda key, n: x.create_xor_masker(bytes(key), n)), file
    import _nvx_xormasker
    import autobahn.websocket.xormasker as x
    assert x.create_xor_masker.__module__ == "autobahn.nvx._xormasker", x.create_xor_masker.__module__
    import autobahn.nvx._xormasker as nx
    file = _nvx_xormasker.__file__
    if impl == "nvx_scalar":
        return (lambda key, n: nx.XorMaskerSimple(bytes(key))), file
    if impl == "nvx_sse2":
        return (lambda key, n: nx.XorMaskerShifted1(bytes(key))), file
    if impl == "nvx_factory":
        return (lambda key, n: x.create_xor_masker(bytes(key), n)), file
    if impl.startswith("nvx_raw"):
        w = int(impl[-1])
        return (lambda key, n: Raw(key, w)), file
    raise ValueError(impl)


def main():
    impl, mode, tier = sys.argv[1:4]
    thorough = tier == "thorough"
    seed = int(os.environ.get("VERIF_SEED", "0"))
    rng = random.Random(seed * 7919 + sum(map(ord, impl + mode)))
    mk, file = factory(impl)
    raw = impl.startswith("nvx_raw")
    traces = []

    def ev_new(m, key):
        return {"ev": "new", "key": key, "ptr": int(m.pointer())}

    def ev_proc(m, key, pat, n, sd, data=None):
        d = data if data is not None else inp(pat, n, sd, key)
        out = m.process(d)
        assert isinstance(out, (bytes, bytearray)) or hasattr(out, "tobytes")
        e = {"ev": "process", "pat": pat if data is None else 2, "n": n, "seed": sd, "out": list(bytes(out)), "ptr": int(m.pointer())}
        if data is not None:
            e["data"] = list(data)
        return e, bytes(out)

    keys = KEYS if thorough else [KEYS[(seed + 3) % 4]]
    if not thorough and seed:
        keys = [[rng.getrandbits(8) for _ in range(4)]]
    if thorough:
        keys = KEYS[:1] + [[rng.getrandbits(8) for _ in range(4)]]
    aligns = list(range(16)) if raw else [0]
    if mode == "grid":
        # (a) every length 0..300 x start offset 0..3 x alignment, unsplit
        for key in keys:
            for a in aligns:
                for off in range(4):
                    for n in range(0, 301):
                        m = mk(key, n)
                        t = [ev_new(m, key)]
                        if raw:
                            m.align = a
                        if off:
                            t.append(ev_proc(m, key, 0, off, 1)[0])
                        t.append(ev_proc(m, key, (n + off) % 2, n, n % 251)[0])
                        traces.append(t)
    elif mode == "split":
        # (b) every length x split at every position (quick: boundary positions) x offset
        for key in keys:
            for n in range(0, 301):
                dense = thorough and n <= 72          # every split position and start offset up to 72 octets; boundary positions beyond
                if dense:
                    cuts = range(0, n + 1)
                else:
                    cuts = sorted({c for c in (0, 1, 15, 16, 17, 127, 128, n - 1, n) if 0 <= c <= n} |
                                  ({rng.randint(0, n) for _ in range(8)} if thorough else set()))
                for off in (range(4) if dense else [n % 4]):
                    for c in cuts:
                        m = mk(key, n)
                        if raw:
                            m.align = (n + c) % 16
                        t = [ev_new(m, key)]
                        if off:
                            t.append(ev_proc(m, key, 1, off, 0)[0])
                        d = inp(0, n, c % 256, key)
                        e1, o1 = ev_proc(m, key, 2, c, 0, data=d[:c])
                        e2, o2 = ev_proc(m, key, 2, n - c, 0, data=d[c:])
                        t += [e1, e2]
                        traces.append(t)
    elif mode == "random":
        # (c) three-way splits with alignment, reset, involution; (d) large payloads under random chunkings
        for i in range(600 if thorough else 150):
            key = [rng.getrandbits(8) for _ in range(4)]
            n = rng.choice([0, 1, 3, 4, 5, 15, 16, 17, 31, 32, 33, 127, 128, 129, 255, 256, 300, rng.randint(0, 400)])
            d = bytes(rng.getrandbits(8) for _ in range(n))
            m = mk(key, n)
            t = [ev_new(m, key)]
            pos = 0
            outs = b""
            while pos < n or not outs and n == 0:
                k = min(n - pos, rng.choice([0, 1, 2, 3, 5, 16, 17, 64, n]))
                if raw:
                    m.align = rng.randrange(16)
                e, o = ev_proc(m, key, 2, k, 0, data=d[pos:pos + k])
                t.append(e)
                outs += o
                pos += k
                if n == 0:
                    break
            # involution through a second masker with the same key (explicit data -> TLC checks it restores d)
            m2 = mk(key, n)
            t.append(ev_new(m2, key))
            e, back = ev_proc(m2, key, 2, n, 0, data=outs)
            e["restored"] = (back == d)
            t.append(e)
            # reset then reuse
            m2.reset()
            t.append({"ev": "reset", "ptr": int(m2.pointer())})
            t.append(ev_proc(m2, key, 0, 7, i % 256)[0])
            traces.append(t)
        for size in ([65536, 65536 + 3, 200001] if thorough else [65536 + 1]):
            key = [rng.getrandbits(8) for _ in range(4)]
            m = mk(key, size)
            t = [ev_new(m, key)]
            pos = 0
            while pos < size:
                k = min(size - pos, rng.choice([1, 13, 1460, 4096, 16384]))
                if raw:
                    m.align = rng.randrange(16)
                t.append(ev_proc(m, key, 0, k, pos % 256)[0])
                pos += k
            traces.append(t)
    driver_out(dict(impl=impl, mode=mode, file=file, traces=traces))


if __name__ == "__main__":
    main()
