"""C19 driver: real authenticators / auth functions against independent reference primitives.  input: {thorough: bool}"""
import base64
import binascii
import hashlib
import hmac
import os
import random
import struct

from harness import fw
from harness.common import driver_in, driver_out

import txaio
from autobahn.wamp import auth, types
from autobahn.wamp.auth import AuthCryptoSign, AuthScram, AuthWampCra


# ---------------- independent references
def ref_pbkdf2(pw, salt, it, keylen):
    return hashlib.pbkdf2_hmac("sha256", pw, salt, it, keylen)


def ref_argon2id(pw, salt_b64, it, mem):
    from argon2.low_level import Type, hash_secret_raw
    raw = hash_secret_raw(secret=pw, salt=base64.b64decode(salt_b64), time_cost=it, memory_cost=mem, parallelism=1, hash_len=32, type=Type.ID, version=0x13)
    # the WAMP-SCRAM convention of this library (and of Crossbar.io): the key is the unpadded base64 text of the tag
    return base64.b64encode(raw).rstrip(b"=")


def ref_totp(secret_b32, t, step_offset=0):
    key = base64.b32decode(secret_b32)
    counter = int(t) // 30 + step_offset
    d = hmac.new(key, struct.pack(">Q", counter), hashlib.sha1).digest()
    o = d[19] & 15
    return "%06d" % ((struct.unpack(">I", d[o:o + 4])[0] & 0x7FFFFFFF) % 1000000)


class _AnyLog:
    """a logger that takes any level (which level the library logs at is nobody's business)"""

    def __getattr__(self, name):
        return lambda *a, **k: None


class FakeSession:
    log = _AnyLog()

    def __init__(self, channel_id=None):
        class TD:
            pass
        self._transport = TD()
        self._transport.transport_details = types.TransportDetails(channel_id={"tls-unique": channel_id} if channel_id else {})


def scram_cases(rng, thorough):
    out = []
    pws = ["secret", "pässwörd-ü𝄞", "x", "p" * 200]
    for kdf in ("pbkdf2", "argon2id-13"):
        for pw in pws:
            for it in ([1, 2, 4096] if kdf == "pbkdf2" else [1, 3]):
                mem = rng.choice([8, 64, 512])
                salt = base64.b64encode(os.urandom(rng.choice([8, 9, 16, 32]))).decode()
                alters = ["none", "authid", "cnonce", "snonce", "salt", "it", "kdf", "mem", "cb", "pw", "forged", "absent", "truncated"] + \
                         ["bit%d" % b for b in (range(256) if thorough else rng.sample(range(256), 12))]
                for alter in alters:
                    obs = dict(proofValid=False, accepted=False, esc="")
                    try:
                        authid = "alice"
                        a = AuthScram(authid=authid, password=pw)
                        cnonce = a.authextra["nonce"]
                        snonce = cnonce + base64.b64encode(os.urandom(8)).decode()
                        # the channel binding the server names in its challenge enters the signed AuthMessage (c=...)
                        cb = rng.choice(["", "", "tls-unique", "dGxzLXVuaXF1ZQ==", "biws"])
                        extra = {"nonce": snonce, "kdf": kdf, "salt": salt, "iterations": it}
                        if cb or rng.random() < 0.3:
                            extra["channel_binding"] = cb
                        if kdf == "argon2id-13":
                            extra["memory"] = mem
                        proof = a.on_challenge(FakeSession(), types.Challenge("scram", extra))

                        # independent server
                        def view(**chg):
                            v = dict(authid=authid, cnonce=cnonce, snonce=snonce, salt=salt, it=it, kdf=kdf, mem=mem, cb=cb, pw=pw)
                            v.update(chg)
                            return v

                        def salted(v):
                            if v["kdf"] == "pbkdf2":
                                return ref_pbkdf2(v["pw"].encode("utf8"), base64.b64decode(v["salt"]), v["it"], 32)   # RFC 5802: Hi(password, decoded salt, i)
                            return ref_argon2id(v["pw"].encode("utf8"), v["salt"], v["it"], v["mem"])

                        def authmsg(v):
                            return ("n=%s,r=%s,r=%s,s=%s,i=%s,c=%s,r=%s" % (v["authid"], v["cnonce"], v["snonce"], v["salt"], v["it"], v["cb"], v["snonce"])).encode("ascii")
                        v0 = view()
                        sp = salted(v0)
                        ck = hmac.new(sp, b"Client Key", hashlib.sha256).digest()
                        sk = hashlib.sha256(ck).digest()
                        csig = hmac.new(sk, authmsg(v0), hashlib.sha256).digest()
                        want_proof = base64.b64encode(bytes(x ^ y for x, y in zip(ck, csig)))
                        obs["proofValid"] = (proof == want_proof) or (proof == want_proof.decode())
                        chg = {"authid": dict(authid="mallory"), "cnonce": dict(cnonce="AAAA" + cnonce[4:]), "snonce": dict(snonce=snonce + "x"),
                               "salt": dict(salt=base64.b64encode(b"othersalt").decode()), "it": dict(it=it + 1),
                               "kdf": dict(kdf="argon2id-13" if kdf == "pbkdf2" else "pbkdf2"), "mem": dict(mem=mem * 2),
                               "cb": dict(cb="tls-unique" if cb != "tls-unique" else ""), "pw": dict(pw=pw + "x")}
                        if alter == "mem" and kdf == "pbkdf2":
                            alter_eff = "none-mem"      # memory is not an input of PBKDF2: same signature expected
                        else:
                            alter_eff = alter
                        v = view(**chg.get(alter, {}))
                        spv = salted(v)
                        ssig = hmac.new(hmac.new(spv, b"Server Key", hashlib.sha256).digest(), authmsg(v), hashlib.sha256).digest()
                        authextra = {"scram_server_signature": base64.b64encode(ssig).decode()}
                        if alter == "forged":
                            authextra["scram_server_signature"] = base64.b64encode(os.urandom(32)).decode()
                        elif alter == "absent":
                            authextra = {}
                        elif alter == "truncated":
                            authextra["scram_server_signature"] = base64.b64encode(ssig[:31]).decode()
                        elif alter.startswith("bit"):
                            b = int(alter[3:])
                            sb = bytearray(ssig)
                            sb[b // 8] ^= 1 << (b % 8)
                            authextra["scram_server_signature"] = base64.b64encode(bytes(sb)).decode()
                        try:
                            r = a.on_welcome(FakeSession(), authextra)
                            obs["accepted"] = r is None
                        except Exception:  # noqa  (an exception in onWelcome aborts the session: a rejection)
                            obs["accepted"] = False
                        ev_alter = "none" if alter_eff == "none-mem" else alter
                    except Exception as e:  # noqa
                        obs["esc"] = type(e).__name__ + ":" + str(e)[:60]
                        ev_alter = alter
                    out.append([dict(ev="scram", kdf=kdf, alter=ev_alter, it=it, pwlen=len(pw), obs=obs)])
    return out


def scram_rejoin_cases(rng, thorough):
    """one AuthScram object authenticates twice (a re-join): the second challenge comes with other salt / cost / kdf; each
    proof must be valid for its own challenge and each server signature is judged against its own exchange"""
    out = []
    params = [("pbkdf2", 8, 0), ("pbkdf2", 9, 0), ("argon2id-13", 1, 8), ("argon2id-13", 2, 64)]
    for pw in ("secret", "pässwörd"):
        for p1 in params:
            for p2 in params:
                obs = dict(proofValid=False, accepted=False, esc="")
                try:
                    a = AuthScram(authid="alice", password=pw)
                    ok_all, acc_all = True, True
                    for (kdf, it, mem) in (p1, p2):
                        cnonce = a.authextra["nonce"]
                        snonce = cnonce + base64.b64encode(os.urandom(6)).decode()
                        salt = base64.b64encode(os.urandom(12)).decode()
                        extra = {"nonce": snonce, "kdf": kdf, "salt": salt, "iterations": it}
                        if kdf == "argon2id-13":
                            extra["memory"] = mem
                        proof = a.on_challenge(FakeSession(), types.Challenge("scram", extra))
                        sp = ref_pbkdf2(pw.encode("utf8"), base64.b64decode(salt), it, 32) if kdf == "pbkdf2" else ref_argon2id(pw.encode("utf8"), salt, it, mem)
                        am = ("n=alice,r=%s,r=%s,s=%s,i=%s,c=,r=%s" % (cnonce, snonce, salt, it, snonce)).encode("ascii")
                        ck = hmac.new(sp, b"Client Key", hashlib.sha256).digest()
                        csig = hmac.new(hashlib.sha256(ck).digest(), am, hashlib.sha256).digest()
                        want = base64.b64encode(bytes(x ^ y for x, y in zip(ck, csig)))
                        ok_all = ok_all and (proof == want or proof == want.decode())
                        ssig = hmac.new(hmac.new(sp, b"Server Key", hashlib.sha256).digest(), am, hashlib.sha256).digest()
                        r = a.on_welcome(FakeSession(), {"scram_server_signature": base64.b64encode(ssig).decode()})
                        acc_all = acc_all and r is None
                    obs["proofValid"], obs["accepted"] = bool(ok_all), bool(acc_all)
                except Exception as e:  # noqa
                    obs["esc"] = type(e).__name__ + ":" + str(e)[:60]
                out.append([dict(ev="scram", kdf=p1[0] + ">" + p2[0], alter="none", it=p1[1] * 100 + p2[1], pwlen=len(pw), obs=obs)])
    return out


def cra_cases(rng, thorough):
    out = []
    # (a secret is used octet for octet: blanks at its edges belong to it)
    for secret in ["secret123", "pässwörd-ü𝄞", "x", "s" * 100, " leading-blank", "trailing-newline\n", "\u00a0nbsp-edges\u00a0", "   ", "tab\t"]:
        for salted in (False, True):
            for keylen in ([32] if not salted else [1, 16, 31, 32, 33, 48, 64]):
                for it in ([1000] if not salted else [1, 100, 1000]):
                    salt = rng.choice(["salt123", "sält", "s", ""])
                    challenge = '{"nonce":"%s","authid":"alice","timestamp":"2026-09-23T00:00:00Z"}' % base64.b64encode(os.urandom(12)).decode()
                    for alter in ("none", "challenge", "secret", "salt", "iterations", "keylen"):
                        if not salted and alter in ("salt", "iterations", "keylen"):
                            continue
                        obs = dict(sigValid=False, differs=False, esc="")
                        try:
                            def sig_for(sec, ch, sl, itr, kl):
                                a = AuthWampCra(authid="alice", secret=sec)
                                extra = {"challenge": ch}
                                if salted:
                                    extra.update(salt=sl, iterations=itr, keylen=kl)
                                return a.on_challenge(None, types.Challenge("wampcra", extra))
                            s0 = sig_for(secret, challenge, salt, it, keylen)
                            key = secret.encode("utf8")
                            if salted:
                                key = binascii.b2a_base64(ref_pbkdf2(secret.encode("utf8"), salt.encode("utf8"), it, keylen)).strip()
                            want = binascii.b2a_base64(hmac.new(key, challenge.encode("utf8"), hashlib.sha256).digest()).strip().decode("ascii")
                            obs["sigValid"] = s0 == want
                            if alter != "none":
                                s1 = sig_for(secret + "x" if alter == "secret" else secret, challenge + " " if alter == "challenge" else challenge,
                                             salt + "x" if alter == "salt" else salt, it + 1 if alter == "iterations" else it,
                                             keylen + 1 if alter == "keylen" else keylen)
                                obs["differs"] = s1 != s0
                        except Exception as e:  # noqa
                            obs["esc"] = type(e).__name__ + ":" + str(e)[:60]
                        out.append([dict(ev="cra", salted=salted, alter=alter, keylen=keylen, obs=obs)])
    return out


def totp_cases(rng, thorough):
    out = []
    import time as _time
    real_time = _time.time
    secrets = ["GEZDGNBVGY3TQOJQGEZDGNBVGY3TQOJQ", auth.generate_totp_secret(), auth.generate_totp_secret(20), "MFRGGZDFMZTWQ2LK"]
    # (the clock has a fractional part: the time step is the *floor* of the seconds, RFC 6238 4.2)
    times = [59, 1111111109, 1111111111, 1234567890, 2000000000, 20000000000, 1758585600, 1758585629, 1758585630, 30, 60,
             59.5, 59.999, 1111111109.75, 89.51, 1758585629.5, 30.4]
    try:
        for secret in secrets:
            for t in times:
                auth.time.time = lambda t=t: t
                for step in (-3, -2, -1, 0, 1, 2, 5):
                    obs = dict(codeValid=False, accepted=False, esc="")
                    try:
                        if t // 30 + step < 0:
                            continue
                        code = auth.compute_totp(secret, step)
                        obs["codeValid"] = code == ref_totp(secret, t, step)
                        obs["accepted"] = auth.check_totp(secret, ref_totp(secret, t, step))
                        # a code of another step that collides with a window code by chance would be a false alarm: skip it
                        if abs(step) > 1 and ref_totp(secret, t, step) in [ref_totp(secret, t, k) for k in (-1, 0, 1) if t // 30 + k >= 0]:
                            continue
                    except Exception as e:  # noqa
                        obs["esc"] = type(e).__name__ + ":" + str(e)[:60]
                    out.append([dict(ev="totp", step=step, t=t, obs=obs)])
    finally:
        auth.time.time = real_time
    return out


def csign_cases(rng, thorough):
    from cryptography.hazmat.primitives.asymmetric.ed25519 import Ed25519PublicKey
    from cryptography.exceptions import InvalidSignature
    out = []
    for i in range(12 if thorough else 4):
        priv = os.urandom(32)
        for binding in (False, True):
            channel_id = os.urandom(32) if binding else None
            challenge = os.urandom(32)
            for alter in ("none", "challenge", "channel", "sigbit", "otherkey"):
                if alter == "channel" and not binding:
                    continue
                obs = dict(verifies=False, signedDataOk=False, esc="")
                try:
                    kw = dict(authid="alice", privkey=binascii.b2a_hex(priv).decode())
                    if binding:
                        kw["authextra"] = {"channel_binding": "tls-unique"}
                    a = AuthCryptoSign(**kw)
                    res = {}
                    # (what the router's CHALLENGE says about channel binding - nothing, the same, null - does not change what
                    # the client signs: its own configuration does)
                    cextra = {"challenge": binascii.b2a_hex(challenge).decode()}
                    echo = rng.choice(["absent", "same", "null"])
                    if echo == "same" and binding:
                        cextra["channel_binding"] = "tls-unique"
                    elif echo == "null":
                        cextra["channel_binding"] = None
                    f = a.on_challenge(FakeSession(channel_id), types.Challenge("cryptosign", cextra))
                    txaio.add_callbacks(txaio.as_future(lambda: f), lambda r: res.setdefault("sig", r), lambda e: res.setdefault("err", e))
                    fw.settle()
                    sig_hex = res["sig"]
                    sig, data = binascii.a2b_hex(sig_hex[:128]), binascii.a2b_hex(sig_hex[128:])
                    expected_data = bytes(x ^ y for x, y in zip(challenge, channel_id)) if binding else challenge
                    obs["signedDataOk"] = data == expected_data and len(sig_hex) == 192
                    # independent verification over what the *verifier* believes was signed
                    v_challenge = bytes([challenge[0] ^ 1]) + challenge[1:] if alter == "challenge" else challenge
                    v_channel = (bytes([channel_id[0] ^ 1]) + channel_id[1:]) if (alter == "channel") else channel_id
                    v_data = bytes(x ^ y for x, y in zip(v_challenge, v_channel)) if binding else v_challenge
                    v_sig = bytes([sig[5] ^ 0x10 if j == 5 else sig[j] for j in range(64)]) if alter == "sigbit" else sig
                    pub = binascii.a2b_hex(a.authextra["pubkey"])
                    if alter == "otherkey":
                        from cryptography.hazmat.primitives.asymmetric.ed25519 import Ed25519PrivateKey
                        from cryptography.hazmat.primitives import serialization
                        pub = Ed25519PrivateKey.generate().public_key().public_bytes(serialization.Encoding.Raw, serialization.PublicFormat.Raw)
                    try:
                        Ed25519PublicKey.from_public_bytes(pub).verify(v_sig, v_data)
                        obs["verifies"] = True
                    except InvalidSignature:
                        obs["verifies"] = False
                except Exception as e:  # noqa
                    obs["esc"] = type(e).__name__ + ":" + str(e)[:60]
                out.append([dict(ev="csign", binding=binding, alter=alter, obs=obs)])
    return out


def kdf_cases(rng, thorough):
    """auth.pbkdf2 / derive_key / compute_wcs / util.xor against hashlib and hmac, plus the RFC vectors (ev 'vec')."""
    from autobahn import util
    out = []
    for i in range(400 if thorough else 120):
        data = os.urandom(rng.choice([0, 1, 8, 63, 64, 65, 200])) if i % 3 else "pässwörd-%d" % i
        salt = os.urandom(rng.choice([0, 1, 16, 64, 65])) if i % 3 else "sält%d" % i
        it = rng.choice([1, 2, 3, 10, 1000])
        kl = rng.choice([1, 16, 20, 31, 32, 33, 64, 65, 100])
        hf = rng.choice([None, "sha256", "sha1", "sha512"])
        obs = dict(ok=False, esc="")
        try:
            db = data.encode("utf8") if isinstance(data, str) else data
            sb = salt.encode("utf8") if isinstance(salt, str) else salt
            want = hashlib.pbkdf2_hmac(hf or "sha256", db, sb, it, kl)
            ok = auth.pbkdf2(db, sb, it, kl, hf) == want
            if hf in (None, "sha256"):
                ok = ok and auth.derive_key(data, salt, it, kl) == binascii.b2a_base64(want).strip()
            ch = os.urandom(rng.choice([0, 1, 40])) if i % 2 else "chällenge%d" % i
            cb = ch.encode("utf8") if isinstance(ch, str) else ch
            ok = ok and auth.compute_wcs(data, ch) == binascii.b2a_base64(hmac.new(db, cb, hashlib.sha256).digest()).strip()
            a, b = os.urandom(kl), os.urandom(kl)
            ok = ok and util.xor(a, b) == bytes(x ^ y for x, y in zip(a, b)) and auth.xor_array(a, b) == bytes(x ^ y for x, y in zip(a, b))
            obs["ok"] = bool(ok)
        except Exception as e:  # noqa
            obs["esc"] = type(e).__name__ + ":" + str(e)[:60]
        out.append([dict(ev="kdf", hf=hf or "default", it=it, keylen=kl, obs=obs)])
    vecs = []
    # RFC 6238 appendix B (SHA-1 rows, truncated to the 6 digits this library issues)
    import time as _time
    real = _time.time
    try:
        for t, code in [(59, "287082"), (1111111109, "081804"), (1111111111, "050471"), (1234567890, "005924"), (2000000000, "279037"), (20000000000, "353130")]:
            auth.time.time = lambda t=t: t
            vecs.append(("rfc6238-%d" % t, auth.compute_totp("GEZDGNBVGY3TQOJQGEZDGNBVGY3TQOJQ") == code and ref_totp("GEZDGNBVGY3TQOJQGEZDGNBVGY3TQOJQ", t) == code))
    finally:
        auth.time.time = real
    # RFC 6070 (PBKDF2-HMAC-SHA1)
    for pw, sl, it, kl, hx in [(b"password", b"salt", 1, 20, "0c60c80f961f0e71f3a9b524af6012062fe037a6"), (b"password", b"salt", 2, 20, "ea6c014dc72d6f8ccd1ed92ace1d41f0d8de8957"),
                               (b"password", b"salt", 4096, 20, "4b007901b765489abead49d926f721d065a429c1"),
                               (b"passwordPASSWORDpassword", b"saltSALTsaltSALTsaltSALTsaltSALTsalt", 4096, 25, "3d2eec4fe41c849b80c8d83662c0e44a8b291a964cf2f07038"),
                               (b"pass\0word", b"sa\0lt", 4096, 16, "56fa6aa75548099dcc37d7f03425e0c3")]:
        vecs.append(("rfc6070-%d-%d" % (it, kl), binascii.b2a_hex(auth.pbkdf2(pw, sl, it, kl, "sha1")).decode() == hx))
    # RFC 7914 section 11 (PBKDF2-HMAC-SHA256)
    vecs.append(("rfc7914-1", binascii.b2a_hex(auth.pbkdf2(b"passwd", b"salt", 1, 64, "sha256")).decode() ==
                 "55ac046e56e3089fec1691c22544b605f94185216dde0465e68b9d57c20dacbc49ca9cccf179b645991664b39d77ef317c71b845b1e30bd509112041d3a19783"))
    # RFC 8032 section 7.1 (Ed25519 key pairs)
    from autobahn.wamp.cryptosign import CryptosignKey
    for sk, pk in [("9d61b19deffd5a60ba844af492ec2cc44449c5697b326919703bac031cae7f60", "d75a980182b10ab7d54bfed3c964073a0ee172f3daa62325af021a68f707511a"),
                   ("4ccd089b28ff96da9db6c346ec114e0f5b8a319f35aba624da8cf6ed4fb8a6fb", "3d4017c3e843895a92b70aa74d1b7ebc9c982ccf2ec4968cc0cd55f12af4660c"),
                   ("c5aa8df43f9f837bedb7442f31dcb7b166d38535076f094b85ce3a2e0b4458f7", "fc51cd8e6218a1a38da47ed00230f0580816ed13ba3303ac5deb911548908025")]:
        vecs.append(("rfc8032-" + sk[:6], CryptosignKey.from_bytes(binascii.a2b_hex(sk)).public_key() == pk))
    for name, ok in vecs:
        out.append([dict(ev="vec", name=name, obs=dict(ok=bool(ok), esc=""))])
    return out


def main():
    inp = driver_in()
    rng = random.Random(int(os.environ.get("VERIF_SEED", "0")) * 101 + 9)
    th = bool(inp.get("thorough"))
    traces = scram_cases(rng, th) + scram_rejoin_cases(rng, th) + cra_cases(rng, th) + totp_cases(rng, th) + csign_cases(rng, th) + kdf_cases(rng, th)
    driver_out(dict(fw=fw.NAME, traces=traces, cases=len(traces)))


if __name__ == "__main__":
    main()
