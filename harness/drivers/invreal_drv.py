"""C10 on the four real transports: a real ApplicationSession attached to a real WebSocket / RawSocket client protocol (this
process's framework) against the scripted router; every endpoint behaviour must produce exactly one terminal reply on the wire.

input: {cases: [[kind, ser, beh, async_, rp, variant, keyed], ...]}   keyed: the invocation arrives end-to-end encrypted (cryptobox)
"""
import os

from harness import fw
from harness.common import driver_in, driver_out
from harness.wamprouter import RouterConn
from harness.drivers.epshapes import callresult, plain_exception

import txaio
from autobahn.wamp import message, role
from autobahn.wamp.exception import ApplicationError
from autobahn.wamp.protocol import ApplicationSession
from autobahn.wamp.serializer import CBORSerializer, JsonSerializer, MsgPackSerializer
from autobahn.wamp.types import CallResult, ComponentConfig, RegisterOptions

if fw.NAME == "tx":
    from autobahn.twisted.rawsocket import WampRawSocketClientFactory
    from autobahn.twisted.websocket import WampWebSocketClientFactory
else:
    from autobahn.asyncio.rawsocket import WampRawSocketClientFactory
    from autobahn.asyncio.websocket import WampWebSocketClientFactory

SER = {"json": JsonSerializer, "msgpack": MsgPackSerializer, "cbor": CBORSerializer}


class Boom(Exception):
    pass


class Unserializable:
    pass


class Sess(ApplicationSession):
    errors = None

    def onUserError(self, fail, msg):
        self.errors.append(msg)


LIMIT = 4096        # what both kinds of peer accept here


def fitting(sername, total):
    """a string result whose YIELD for request 9001 serialises to exactly `total` octets"""
    ser = SER[sername]()
    n = total
    for _ in range(8):
        size = len(ser.serialize(message.Yield(9001, args=["x" * n]))[0])
        if size == total:
            return "x" * n
        n += total - size
    raise RuntimeError("no string result fits %d octets exactly (%s)" % (total, sername))


def when():
    """a value the CBOR transport carries but the JSON inside a crypto box does not"""
    import datetime
    return datetime.datetime(2021, 3, 4, 5, 6, 7, tzinfo=datetime.timezone.utc)


def one(kind, sername, beh, is_async, rp, var=0, keyed=False):
    obs = dict(esc="", replies=[], alive=False, calls=0, userErrors=0, valuesOk=True, why="")
    expect = {}
    try:
        sess = Sess(ComponentConfig(realm="realm1"))
        sess.errors = []
        router_kr = None
        if keyed:
            from autobahn.wamp.cryptobox import Key, KeyRing
            from autobahn.wamp.types import EncodedPayload
            a_priv, _ = KeyRing().generate_key()
            b_priv, _ = KeyRing().generate_key()
            sess.set_payload_codec(KeyRing(default_key=Key(originator_priv=a_priv, responder_priv=b_priv)))
            router_kr = KeyRing(default_key=Key(originator_priv=a_priv, responder_priv=b_priv))       # the caller's end, played by the router
        unenc = keyed and sername == "cbor" and var % 2 == 1
        if kind == "ws":
            f = WampWebSocketClientFactory(lambda: sess, url="ws://localhost:9000/ws", serializers=[SER[sername]()])
            f.setProtocolOptions(maxMessagePayloadSize=4096)
        else:
            f = WampRawSocketClientFactory(lambda: sess, serializer=SER[sername]())
        p = f.buildProtocol(None) if fw.NAME == "tx" else f()
        t = fw.Transport()
        fw.connect(p, t)
        conn = RouterConn("websocket" if kind == "ws" else "rawsocket", p, t, ser_id=sername, rs_maxlen_exp=12)     # peer accepts 4096 octets
        got = []
        for _ in range(4):
            for m in conn.poll():
                got.append(m)
                if isinstance(m, message.Hello):
                    conn.send(message.Welcome(77, {"broker": role.RoleBrokerFeatures(), "dealer": role.RoleDealerFeatures()}, realm="realm1"))
            fw.settle()
        calls = []
        pending = {}

        def finish(details=None):
            if beh == "value":
                if var % 2 and not keyed:
                    v = fitting(sername, LIMIT)          # exactly as long as the peer accepts: not too long
                    expect["ret"] = ([v], {})
                    return v
                expect["ret"] = ([42], {})
                return 42
            if beh == "callresult":
                cr, expect["ret"] = callresult(var)
                return cr
            if beh == "none":
                expect["ret"] = ([None], {})
                return None
            if beh == "unserializable":
                return CallResult(1, when=when()) if unenc else Unserializable()      # (cannot be encrypted: same duty, an ERROR)
            if beh == "oversize":
                return fitting(sername, LIMIT + 1) if (var % 2 and not keyed) else "x" * 20000
            if beh == "apperror":
                if unenc:
                    raise ApplicationError("com.myapp.error1", "bad", when=when())     # an error that cannot be encrypted: still an ERROR
                expect["err"] = ("com.myapp.error1", ["bad"], {"x": 1})
                raise ApplicationError("com.myapp.error1", "bad", x=1)
            if beh == "bigerror":
                raise ApplicationError("com.myapp.error.big", "y" * 20000, why="z" * 300)
            if beh == "mapped":
                expect["err"] = ("com.myapp.boom", ["mapped"], {})
                raise Boom("mapped")
            exc, eargs = plain_exception(var)
            expect["err"] = ("wamp.error.runtime_error", eargs, {})
            raise exc

        def ep(*a, details=None, **kw):
            calls.append((a, kw))
            if rp and details is not None and details.progress:
                details.progress("p1")
            if not is_async:
                return finish()
            fut = txaio.create_future()
            pending["f"] = fut
            return fut
        sess.define(Boom, "com.myapp.boom")
        # (check_types wraps the endpoint: it must still get exactly the caller's positional and keyword arguments)
        sess.register(ep, "com.myapp.proc1", options=RegisterOptions(details_arg="details"), check_types=(var % 3 == 2))
        fw.settle()
        reg = [m for m in conn.poll() if isinstance(m, message.Register)]
        conn.send(message.Registered(reg[0].request, 555))
        fw.settle()
        conn.poll()
        if keyed:
            ep_ = router_kr.encode(True, "com.myapp.proc1", [1, "two"], {"k": 3})
            conn.send(message.Invocation(9001, 555, payload=ep_.payload, enc_algo=ep_.enc_algo, enc_serializer=ep_.enc_serializer, enc_key=ep_.enc_key,
                                         receive_progress=bool(rp)))
        else:
            conn.send(message.Invocation(9001, 555, args=[1, "two"], kwargs={"k": 3}, receive_progress=bool(rp)))
        fw.settle()
        if is_async and "f" in pending:
            try:
                v = finish()
                txaio.resolve(pending["f"], v)
            except Exception as e:  # noqa
                txaio.reject(pending["f"], txaio.create_failure(e) if fw.NAME == "tx" else e)
            fw.settle()
        for _ in range(3):
            for m in conn.poll():
                if keyed and isinstance(m, (message.Yield, message.Error)):
                    # the caller's end: application payloads come back encrypted, never in clear
                    if m.payload is not None:
                        try:
                            _, m.args, m.kwargs = router_kr.decode(True, "com.myapp.proc1" if isinstance(m, message.Yield) else m.error,
                                                                   EncodedPayload(m.payload, m.enc_algo, m.enc_serializer, m.enc_key))
                        except Exception as e:  # noqa
                            obs["valuesOk"], obs["why"] = False, "reply cannot be decrypted by the caller: %s" % type(e).__name__
                    elif isinstance(m, message.Yield) or not (m.error or "").startswith("wamp.error."):
                        obs["valuesOk"], obs["why"] = False, "application payload in clear in reply to an encrypted invocation"
                if isinstance(m, message.Yield) and not m.progress and "ret" in expect:
                    if (list(m.args or []), dict(m.kwargs or {})) != expect["ret"]:
                        obs["valuesOk"], obs["why"] = False, ("YIELD carried %r %r, endpoint returned %r" % (m.args, m.kwargs, expect["ret"]))[:200]
                if isinstance(m, message.Error) and "err" in expect:
                    ekw = dict(m.kwargs or {})
                    ekw.pop("traceback", None)
                    if (m.error, list(m.args or []), ekw) != expect["err"]:
                        obs["valuesOk"], obs["why"] = False, ("ERROR carried %r %r %r, endpoint raised %r" % (m.error, m.args, m.kwargs, expect["err"]))[:200]
                if isinstance(m, (message.Yield, message.Error)):
                    obs["replies"].append(dict(t="yield" if isinstance(m, message.Yield) else "error", req=m.request,
                                               progress=bool(getattr(m, "progress", False)),
                                               uri=getattr(m, "error", "") or ""))
            fw.settle()
        obs["calls"] = len(calls)
        obs["argsOk"] = calls == [((1, "two"), {"k": 3})]
        obs["alive"] = sess.session_id is not None and not conn.client_dropped()
        obs["userErrors"] = len(sess.errors)
        # the session still works: a second, plain invocation is answered
        if obs["alive"]:
            n0 = len(obs["replies"])
    except Exception as e:  # noqa
        import traceback
        obs["esc"] = type(e).__name__ + ":" + str(e)[:80] + "|" + traceback.format_exc()[-300:]
    fw.reset()
    return dict(ev="inv", kind=kind, ser=sername, beh=beh, isAsync=bool(is_async), rp=bool(rp), var=var, keyed=bool(keyed), req=9001, obs=obs)


class LifeSess(ApplicationSession):
    def __init__(self, cfg, cbs):
        ApplicationSession.__init__(self, cfg)
        self.cbs = cbs

    def onConnect(self):
        self.cbs.append("onConnect")
        return ApplicationSession.onConnect(self)

    def onJoin(self, details):
        self.cbs.append("onJoin")

    def onLeave(self, details):
        self.cbs.append("onLeave")
        return ApplicationSession.onLeave(self, details)

    def onDisconnect(self):
        self.cbs.append("onDisconnect")
        return ApplicationSession.onDisconnect(self)

    def onUserError(self, fail, msg):
        self.cbs.append("userError")


def life(kind, sername, how):
    """a joined session with a pending call on a real transport; then the session ends by `how`:
    lost-clean / lost-unclean (transport goes away) or goodbye (router closes the session, then the transport closes)"""
    obs = dict(esc="", cbs=[], evs=[], callDone="pending", later="", dropped=False)
    try:
        cbs = []
        sess = LifeSess(ComponentConfig(realm="realm1"), cbs)
        for evn in ("connect", "join", "leave", "disconnect"):
            sess.on(evn, lambda *a, evn=evn, **kw: obs["evs"].append(evn))
        if kind == "ws":
            f = WampWebSocketClientFactory(lambda: sess, url="ws://localhost:9000/ws", serializers=[SER[sername]()])
        else:
            f = WampRawSocketClientFactory(lambda: sess, serializer=SER[sername]())
        p = f.buildProtocol(None) if fw.NAME == "tx" else f()
        t = fw.Transport()
        fw.connect(p, t)
        conn = RouterConn("websocket" if kind == "ws" else "rawsocket", p, t, ser_id=sername)
        for _ in range(4):
            for m in conn.poll():
                if isinstance(m, message.Hello):
                    conn.send(message.Welcome(77, {"broker": role.RoleBrokerFeatures(), "dealer": role.RoleDealerFeatures()}, realm="realm1"))
            fw.settle()
        fut = sess.call("com.myapp.slow", 1)
        res = {}
        txaio.add_callbacks(fut, lambda r: res.setdefault("ok", r), lambda e: res.setdefault("err", e))
        fw.settle()
        conn.poll()
        if how == "goodbye":
            conn.send(message.Goodbye("wamp.close.system_shutdown"))
            fw.settle()
            for _ in range(3):
                conn.poll()
                fw.settle()
            obs["dropped"] = conn.client_dropped() or conn.ws_close_seen
            conn.lose(clean=True)
        else:
            conn.lose(clean=(how == "lost-clean"))
        fw.settle()
        obs["cbs"] = list(cbs)
        obs["callDone"] = "ok" if "ok" in res else ("err" if "err" in res else "pending")
        try:
            sess.call("com.myapp.slow", 2)
            obs["later"] = "accepted"
        except Exception as e:  # noqa
            obs["later"] = type(e).__name__
    except Exception as e:  # noqa
        import traceback
        obs["esc"] = type(e).__name__ + ":" + str(e)[:80] + "|" + traceback.format_exc()[-300:]
    fw.reset()
    return dict(ev="life", kind=kind, ser=sername, how=how, obs=obs)


def main():
    inp = driver_in()
    if inp.get("mode") == "life":
        traces = [[life(k, s_, h)] for k in ("ws", "rs") for s_ in ("json", "msgpack", "cbor") for h in ("lost-clean", "lost-unclean", "goodbye")]
        driver_out(dict(fw=fw.NAME, traces=traces, cases=len(traces)))
        return
    traces = [[one(*c)] for c in inp["cases"]]
    driver_out(dict(fw=fw.NAME, traces=traces, cases=len(traces)))


if __name__ == "__main__":
    main()
