"""C13 message phase: (a) a real RawSocket end against a scripted peer (limits in both directions, corruption),
(b) real client/server pairs of both transports (order and integrity under segmentation, corruption, told-once).

scenario (half):  {type:"half", role:"S"|"C", ser:int, peer_exp:0..15, own_exp:9..24|None, own_size:int (optional), ops:[...], seed}
   ops: ["send", n] | ["recv", n, cuts] | ["inject", kind] | ["lose"]
scenario (pair):  {type:"pair", kind:"rs"|"ws", ser:name, ops:[...], seed}
   ops: ["send", end, n] | ["flush", cuts_seed] | ["inject", end, kind] | ["lose", end]
"""
import json
import random
import struct

from harness import fw, wsx
from harness.drivers import wtrans_drv as D

from autobahn.wamp import message

_cache = {}
GARBAGE = {"json": b"{not json, not WAMP", "msgpack": b"\xc1" * 24, "cbor": b"\xff" * 24, "ubjson": b"\x00\x01\x02garbage" * 3}


def make_msg(ser, n, tag=0):
    """a PUBLISH whose serialisation with `ser` is exactly n octets long (returns msg, actual_len)"""
    key = (ser.SERIALIZER_ID, n)
    base = message.Publish(1000 + tag, "com.myapp.topic1", args=[""])
    l0 = len(ser.serialize(base)[0])
    k = max(0, n - l0)
    best = None
    for _ in range(12):
        m = message.Publish(1000 + tag, "com.myapp.topic1", args=["x" * k])
        l = len(ser.serialize(m)[0])
        if l == n:
            return m, l
        best = (m, l)
        k = max(0, k + (n - l))
    # header-size steps of binary serializers: pad with a second argument
    for pad in range(0, 8):
        for kk in range(max(0, k - 8), k + 8):
            m = message.Publish(1000 + tag, "com.myapp.topic1", args=["x" * kk, "y" * pad])
            l = len(ser.serialize(m)[0])
            if l == n:
                return m, l
    return best


BAD_URI = "com.my app.topic#1"


def cut(data, cuts):
    """split data at the given sorted fractions (list of floats in 0..1) or absolute positions"""
    pos = sorted(set(int(c * len(data)) if isinstance(c, float) else min(int(c), len(data)) for c in cuts))
    out, prev = [], 0
    for p in pos:
        if 0 < p < len(data) and p > prev:
            out.append(data[prev:p])
            prev = p
    out.append(data[prev:])
    return [x for x in out if x]


def run_half(sc):
    rng = random.Random(sc.get("seed", 0))
    role, serid = sc["role"], sc["ser"]
    sessions = []
    log = []
    own_exp = sc.get("own_exp")
    maxsize = (2 ** own_exp) if (own_exp and fw.NAME == "tx") else None
    if sc.get("own_size") and fw.NAME == "tx":          # a configured maximum that is not a power of two
        maxsize = sc["own_size"]
    if sc.get("openfails"):
        # the session's onOpen raises once the handshake is complete: the transport is given up, nothing escapes
        D.StubSession.open_raises = True
        try:
            p, t = D.rs_proto(role, sessions, sup=(serid,), req=serid, maxsize=maxsize)
            esc = D.feed_reactor(p, t, bytes([0x7F, (sc["peer_exp"] << 4) | serid, 0, 0]))
            fw.settle()
        finally:
            D.StubSession.open_raises = False
        log.append(dict(ev="link_openfails", role=role, obs=dict(esc=esc, attached=sum(s.opens for s in sessions), dropped=D.dropped(t))))
        D.tell_lost(p, t)
        fw.settle()
        return log
    p, t = D.rs_proto(role, sessions, sup=(serid,), req=serid, maxsize=maxsize)
    ser = D.SER_BY_RSID[serid]()
    my_exp = own_exp if (own_exp and fw.NAME == "tx") else 24
    own_size = maxsize if maxsize is not None else 2 ** 24
    pe = sc["peer_exp"]
    if role == "S":
        esc = D.feed_reactor(p, t, bytes([0x7F, (pe << 4) | serid, 0, 0]))
    else:
        esc = D.feed_reactor(p, t, bytes([0x7F, (pe << 4) | serid, 0, 0]))
    hs = bytes(t.written)
    announced = hs[1] >> 4 if len(hs) >= 2 else -1
    log.append(dict(ev="link_open", kind="rs", role=role, maxSend=2 ** (9 + pe), ownSize=own_size,
                    obs=dict(esc=esc, attached=sum(s.opens for s in sessions), announcedExp=9 + announced, maxSend=D.max_send_of(p))))
    if not sessions:
        log.append(dict(ev="link_end", obs=dict(opens=0, closes=0, esc="no session")))
        return log
    s = sessions[0]
    rpos = len(t.written)
    nid = 0
    for op in sc["ops"]:
        if op[0] == "send":
            nid += 1
            m, n = make_msg(ser, op[1], nid)
            err = ""
            try:
                s.transport.send(m)
            except Exception as e:  # noqa
                err = type(e).__name__
            fw.settle()
            new = bytes(t.written[rpos:])
            rpos = len(t.written)
            hdr_len = struct.unpack("!L", new[:4])[0] if len(new) >= 4 else -1
            intact = len(new) >= 4 and new[4:] == ser.serialize(m)[0]
            log.append(dict(ev="link_send", n=n, obs=dict(err=err, wrote=len(new), hdrLen=hdr_len, intact=bool(intact), hdrType=(new[0] & 0xF8) if new else 0)))
        elif op[0] == "recv":
            nid += 1
            m, n = make_msg(ser, op[1], nid)
            payload = ser.serialize(m)[0]
            frame = struct.pack("!L", n) + payload
            before = len(s.msgs)
            # the header first: an over-long frame must be refused before its payload is taken in
            e1 = D.feed_reactor(p, t, frame[:4])
            dropped_at_header = D.dropped(t) or bool(e1)
            escs = [e1]
            if not dropped_at_header or op[2] == "all":
                for ch in cut(frame[4:], [rng.random() for _ in range(rng.randrange(0, 4))]):
                    escs.append(D.feed_reactor(p, t, ch))
                    if D.dropped(t):
                        break
            got = s.msgs[before:]
            ok = len(got) == 1 and got[0].marshal() == m.marshal()
            log.append(dict(ev="link_recv", n=n, obs=dict(delivered=len(got), intact=bool(ok), droppedAtHeader=bool(dropped_at_header), dropped=D.dropped(t),
                                                           esc=";".join(x for x in escs if x)[:80], closes=len(s.closes))))
        elif op[0] == "inject":
            kind = op[1]
            before = len(s.msgs)
            m, n = make_msg(ser, 40 + nid, 99)
            payload = ser.serialize(m)[0]
            if kind == "frametype":
                data = bytes([op[2]]) + struct.pack("!L", len(payload))[1:] + payload
            elif kind == "ping0":
                data = bytes([1, 0, 0, 0]) + struct.pack("!L", len(payload)) + payload        # an empty PING frame, then a regular message
            elif kind == "garbage":
                g = GARBAGE[ser.SERIALIZER_ID.split(".")[0]]
                data = struct.pack("!L", len(g)) + g
            elif kind == "truncated":
                g = payload[:max(1, len(payload) // 2)]
                data = struct.pack("!L", len(g)) + g
            elif kind == "notwamp":
                g = D.SER_BY_RSID[serid]()._serializer.serialize([1, 2]) if False else ser.serialize(message.Publish(1, "a.b"))[0][:0]
                g = type(ser)()._serializer.serialize({"not": "a list"})
                data = struct.pack("!L", len(g)) + g
            elif kind == "outofphase":
                s.raise_on = "protocol"
                data = struct.pack("!L", len(payload)) + payload
            elif kind in ("sessionraises", "sessionpayload", "sessionser"):
                s.raise_on = {"sessionraises": "internal", "sessionpayload": "payload", "sessionser": "ser"}[kind]
                data = struct.pack("!L", len(payload)) + payload
            elif kind == "baduri":
                g = type(ser)()._serializer.serialize([16, 777, {}, BAD_URI])        # well-formed, but the topic is no URI
                data = struct.pack("!L", len(g)) + g
            escs = []
            for ch in cut(data, [rng.random() for _ in range(rng.randrange(0, 3))]):
                escs.append(D.feed_reactor(p, t, ch))
            log.append(dict(ev="link_inject", kind=kind, arg=(op[2] if len(op) > 2 else 0),
                            obs=dict(delivered=len(s.msgs) - before, dropped=D.dropped(t), aborted=bool(t.abort_calls), esc=";".join(x for x in escs if x)[:80],
                                     closes=len(s.closes))))
        elif op[0] == "lose":
            D.tell_lost(p, t, clean=bool(op[1]) if len(op) > 1 else False)
    D.tell_lost(p, t)
    fw.settle()
    log.append(dict(ev="link_end", obs=dict(opens=s.opens, closes=len(s.closes), esc="")))
    return log


def run_stream(sc):
    """the scripted peer writes its handshake octets and a run of valid frames as ONE octet stream, cut at sc["cuts"]"""
    role, serid = sc["role"], sc["ser"]
    sessions = []
    p, t = D.rs_proto(role, sessions, sup=(serid,), req=serid)
    ser = D.SER_BY_RSID[serid]()
    msgs = [make_msg(ser, n, i)[0] for i, n in enumerate(sc["lens"])]
    stream = bytes([0x7F, (sc.get("peer_exp", 15) << 4) | serid, 0, 0])
    for m in msgs:
        payload = ser.serialize(m)[0]
        stream += struct.pack("!L", len(payload)) + payload
    escs = D.feed_chunks(p, t, cut(stream, list(sc["cuts"])), burst=(len(sc["cuts"]) % 3 == 1))
    got = sessions[0].msgs if sessions else []
    intact = len(got) == len(msgs) and all(a.marshal() == b.marshal() for a, b in zip(got, msgs))
    obs = dict(attached=sum(x.opens for x in sessions), delivered=len(got), intact=bool(intact), esc=";".join(x for x in escs if x)[:80], dropped=D.dropped(t))
    D.tell_lost(p, t)
    obs["opens"] = sum(x.opens for x in sessions)
    obs["closes"] = sum(len(x.closes) for x in sessions)
    return [dict(ev="stream", role=role, count=len(msgs), cuts=list(sc["cuts"]), obs=obs)]


def run_pair(sc):
    rng = random.Random(sc.get("seed", 0))
    kind, sername = sc["kind"], sc["ser"]
    sc_s, ss_s = [], []
    log = []
    if kind == "ws":
        sp, st, cp, ct = D.ws_pair([sername], [sername], sc_s, ss_s, fail_by_drop=sc.get("fbd"))
    else:
        rid = {v.SERIALIZER_ID: k for k, v in D.SER_BY_RSID.items()}[sername.split(".")[0]]
        sp, st = D.rs_proto("S", ss_s, sup=(rid,), req=rid)
        cp, ct = D.rs_proto("C", sc_s, sup=(rid,), req=rid)
    ends = {"C": (cp, ct, sc_s), "S": (sp, st, ss_s)}
    pos = dict(c=0, s=0)
    esc = D.shuttle(sp, st, cp, ct, pos)
    log.append(dict(ev="pair_open", kind=kind, ser=sername, obs=dict(esc=esc, attachedC=sum(s.opens for s in sc_s), attachedS=sum(s.opens for s in ss_s))))
    if not sc_s or not ss_s:
        log.append(dict(ev="pair_end", obs=dict(opensC=0, opensS=0, closesC=0, closesS=0)))
        return log
    ser = D.mk_ser(sername)
    nid = 0
    sent = {"C": [], "S": []}
    seen = {"C": 0, "S": 0}

    def deliver(frm, cuts):
        """move what `frm` wrote to its peer, in segments; log what arrived"""
        to = "S" if frm == "C" else "C"
        fp, ft, _ = ends[frm]
        tp, tt, tsess = ends[to]
        key = "c" if frm == "C" else "s"
        data = bytes(ft.written[pos[key]:])
        pos[key] = len(ft.written)
        if not data or getattr(tt, "_lost_told", False):
            return
        escs = D.feed_chunks(tp, tt, cut(data, cuts), burst=(rng.random() < 0.4))
        msgs = tsess[0].msgs[seen[to]:]
        seen[to] = len(tsess[0].msgs)
        ids = [m.request if hasattr(m, "request") else -1 for m in msgs]
        want = {i: m for i, m in sent[frm]}
        intact = all((i in want and want[i].marshal() == m.marshal()) for i, m in zip(ids, msgs))
        log.append(dict(ev="pair_rx", to=to, ids=ids, obs=dict(intact=bool(intact), esc=";".join(x for x in escs if x)[:80])))

    def propagate():
        # a TCP connection closed by one end is gone for the other end too
        for a, b in (("C", "S"), ("S", "C")):
            pa, ta, _ = ends[a]
            pb, tb, _ = ends[b]
            if (D.dropped(ta) or getattr(ta, "_lost_told", False)) and not getattr(tb, "_lost_told", False):
                D.tell_lost(pa, ta, clean=not ta.abort_calls)
                # what the closing end still wrote (e.g. a close frame) reaches the peer first
                deliver(a, [])
                D.tell_lost(pb, tb, clean=False)
                log.append(dict(ev="pair_lose", end=b))

    for op in sc["ops"]:
        propagate()
        if op[0] == "send":
            e, n = op[1], op[2]
            nid += 1
            m, ln = make_msg(ser, n, nid)
            err = ""
            try:
                ends[e][2][0].transport.send(m)
                sent[e].append((m.request, m))
            except Exception as ex:  # noqa
                err = type(ex).__name__
            fw.settle()
            log.append(dict(ev="pair_send", frm=e, id=m.request, n=ln, obs=dict(err=err)))
        elif op[0] == "flush":
            r2 = random.Random(op[1])
            for frm in ("C", "S"):
                deliver(frm, [r2.random() for _ in range(r2.randrange(0, 6))])
            # replies the transports wrote by themselves (close frames etc.)
            for frm in ("S", "C"):
                deliver(frm, [])
        elif op[0] == "inject":
            to, k = op[1], op[2]
            tp, tt, tsess = ends[to]
            if getattr(tt, "_lost_told", False):
                continue
            m, ln = make_msg(ser, 60, 777)
            payload, isbin = ser.serialize(m)
            if k == "outofphase":
                tsess[0].raise_on = "protocol"
            elif k in ("sessionraises", "sessionpayload", "sessionser"):
                tsess[0].raise_on = {"sessionraises": "internal", "sessionpayload": "payload", "sessionser": "ser"}[k]
            elif k == "baduri":
                payload = type(ser)()._serializer.serialize([16, 777, {}, BAD_URI])
            elif k == "garbage":
                payload = GARBAGE[ser.SERIALIZER_ID.split(".")[0]]
            elif k == "truncated":
                payload = payload[:len(payload) // 2]
            if kind == "ws":
                opcode = 2 if isbin else 1
                if k == "frametype":
                    opcode = 1 if isbin else 2
                    if isbin:
                        payload = b'[16, 777, {}, "com.myapp.topic1"]'      # a text frame must carry valid UTF-8 to get past the WebSocket layer
                data = wsx.build_frame(opcode, payload, mask=(bytes([1, 2, 3, 4]) if to == "S" else None))
            else:
                first = 0
                if k == "frametype":
                    first = op[3] if len(op) > 3 else 3
                data = bytes([first]) + struct.pack("!L", len(payload))[1:] + payload
            before = len(tsess[0].msgs)
            wpos = len(tt.written)
            escs = [D.feed_reactor(tp, tt, ch) for ch in cut(data, [rng.random() for _ in range(rng.randrange(0, 3))])]
            fw.settle()
            seen[to] = len(tsess[0].msgs)
            reply = bytes(tt.written[wpos:])
            code = 0
            if kind == "ws" and reply:
                frames, _ = wsx.split_frames(reply)
                for f in frames:
                    if f["hdr"][0] & 0x0F == 8 and len(f["payload"]) >= 2:
                        code = struct.unpack("!H", f["payload"][:2])[0]
            why = str(getattr(tp, "wasNotCleanReason", "") or "")
            rk = "protocol" if "WAMP Protocol Error" in why else ("internal" if "WAMP Internal Error" in why else "")
            log.append(dict(ev="pair_inject", to=to, kind=k, tkind=kind, fbd=sc.get("fbd", True) is not False,
                            obs=dict(delivered=len(tsess[0].msgs) - before, code=code, reasonKind=rk,
                                     dropped=D.dropped(tt), aborted=bool(tt.abort_calls),
                                     esc=";".join(x for x in escs if x)[:80])))
            if kind == "ws":
                frm_ = to
                for _ in range(3):          # let a closing handshake started by the receiver run to its end
                    deliver(frm_, [])
                    frm_ = "S" if frm_ == "C" else "C"
        elif op[0] == "lose":
            tp, tt, _ = ends[op[1]]
            if not getattr(tt, "_lost_told", False):
                D.tell_lost(tp, tt)
                log.append(dict(ev="pair_lose", end=op[1]))
    propagate()
    for e in ("C", "S"):
        tp, tt, _ = ends[e]
        D.tell_lost(tp, tt)
    fw.settle()
    log.append(dict(ev="pair_end", obs=dict(opensC=sc_s[0].opens, opensS=ss_s[0].opens, closesC=len(sc_s[0].closes), closesS=len(ss_s[0].closes))))
    return log


def run(inp):
    traces = []
    for sc in inp["scenarios"]:
        try:
            tr = run_half(sc) if sc["type"] == "half" else (run_stream(sc) if sc["type"] == "stream" else run_pair(sc))
        except Exception as e:  # noqa
            import traceback
            tr = [dict(ev="escape", err=type(e).__name__ + ":" + str(e)[:100], tb=traceback.format_exc()[-500:])]
        fw.reset()
        traces.append([dict(ev="scenario", sc=json.dumps(sc))] + tr)
    return traces, len(traces)
