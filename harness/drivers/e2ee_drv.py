"""C20 driver: two real sessions (originator A, responder B) with cryptobox keyrings joined by a scripted router that can
tamper with ciphertexts, run with a wrong key at the receiver, or swap envelopes.  One event per cell of spec/E2ee.tla
x payload shape x tamper position.   input: {tamper_positions: "all" | k}"""
import copy
import os
import random

from harness import fw
from harness.common import driver_in, driver_out

import txaio
from autobahn.wamp import message, types
from autobahn.wamp.cryptobox import Key, KeyRing
from autobahn.wamp.exception import ApplicationError
from autobahn.wamp.protocol import ApplicationSession
from autobahn.wamp.role import RoleBrokerFeatures, RoleDealerFeatures
from autobahn.wamp.serializer import JsonSerializer
from autobahn.wamp.types import CallOptions, CallResult, ComponentConfig, PublishOptions, RegisterOptions, SubscribeOptions

URI = {"publish": "com.myapp.enc.topic1", "call": "com.myapp.enc.proc1"}
URI2 = {"publish": "com.myapp.enc.topic2", "call": "com.myapp.enc.proc2"}
SHAPES = [([], {}), ([7], {}), ([1, "two"], {}), ([], {"k": [1, {"n": "ü𝄞"}]}), ([{"a": [1, 2, None]}, 3.5], {"x": True, "y": None}),
          ([b"\x01\x02\xff"], {}), ([1, {"blob": [b"", b"\x00\xfe"]}], {"bin": b"\x00binary\xff", "t": "text"})]


class T:
    def __init__(self, ser=None):
        self._serializer = ser or JsonSerializer()
        self.sent = []
        self.transport_details = types.TransportDetails()

    def send(self, msg):
        # through the real serializer and back: what is on the wire is what counts
        data, _ = self._serializer.serialize(msg)
        self.sent.append((self._serializer.unserialize(data)[0], data))

    def isOpen(self):
        return True

    def close(self):
        self.closed = True

    @property
    def is_closed(self):
        return txaio.create_future()


_WIRE = JsonSerializer()


def rx(sess, msg):
    """what the router sends reaches the session the way it would on a wire: serialised and parsed again"""
    wire = getattr(sess.transport, "_serializer", None) or _WIRE
    data, _ = wire.serialize(msg)
    sess.onMessage(wire.unserialize(data)[0])


def related(uri, rng):
    """another URI covered by the same key: unrelated, a string prefix of `uri`, an extension of it"""
    return rng.choice([None, uri[:-1], uri + "_x", uri + ".sub"])


def unencodable():
    """a value the transport serializer (CBOR) carries but the serializer inside the crypto box (JSON) does not"""
    import datetime
    return datetime.datetime(2020, 2, 3, 4, 5, 6, tzinfo=datetime.timezone.utc)


class EncDefinedError(Exception):
    """a class the caller registered for the error URI of the callee"""

    def __init__(self, *args, **kwargs):
        Exception.__init__(self, *args)
        self.kwargs = kwargs


class Sess(ApplicationSession):
    errors = None

    def onUserError(self, fail, msg):
        self.errors.append(msg)


def joined(ser=None):
    s = Sess(ComponentConfig(realm="realm1"))
    s.errors = []
    t = T(ser)
    s.onOpen(t)
    fw.settle()
    s.onMessage(message.Welcome(77, {"broker": RoleBrokerFeatures(), "dealer": RoleDealerFeatures()}))
    fw.settle()
    del t.sent[:]
    return s, t


def keyrings(layout, fault, rng):
    kr = KeyRing()
    a_priv, a_pub = kr.generate_key()
    b_priv, b_pub = kr.generate_key()
    o_priv, o_pub = kr.generate_key()       # an unrelated key pair
    if layout == "nokey":
        ka, kb = KeyRing(), KeyRing()
        ka.set_key("com.other", Key(originator_priv=a_priv, responder_pub=b_pub))
        kb.set_key("com.other", Key(responder_priv=b_priv, originator_pub=a_pub))
        return ka, kb
    if layout == "split":
        key_a = Key(originator_priv=a_priv, responder_pub=b_pub)
        key_b = Key(responder_priv=b_priv, originator_pub=a_pub if fault != "wrongkey" else o_pub)
    else:
        key_a = Key(originator_priv=a_priv, responder_priv=b_priv)
        key_b = Key(originator_priv=a_priv, responder_priv=b_priv) if fault != "wrongkey" else Key(originator_priv=o_priv, responder_priv=b_priv)
    if fault == "wrongkey" and layout != "split":
        # the *receiver* of the faulted direction holds the wrong key; which end that is depends on the direction: see one()
        pass
    if layout == "default":
        return KeyRing(default_key=key_a), KeyRing(default_key=key_b)
    ka, kb = KeyRing(), KeyRing()
    ka.set_key("com.myapp.enc", key_a)
    kb.set_key("com.myapp.enc", key_b)
    return ka, kb


def tamper(payload, pos):
    b = bytearray(payload)
    b[pos % len(b)] ^= 0x01
    return bytes(b)


def has_clear(msg):
    return bool(getattr(msg, "args", None)) or bool(getattr(msg, "kwargs", None))


def one(dir_, layout, fault, shape, pos, rng):
    args, kwargs = copy.deepcopy(shape)
    obs = dict(encOnWire=False, clearOnWire=False, delivered="none", call="na", alive=True, esc="")
    try:
        # for "result" / "error" the faulted message travels B -> A, so the wrong key sits at A
        ka, kb = keyrings(layout, fault if dir_ in ("publish", "call") else "none", rng)
        if fault == "wrongkey" and dir_ in ("result", "error") and layout != "nokey":
            kb2, ka2 = keyrings(layout, "wrongkey", rng)   # fresh, mutually inconsistent pair: A cannot read what B writes
            ka_r, kb_r = keyrings(layout, "none", rng)
            ka, kb = ka_r, kb_r
            wrong_at_a = True
        else:
            wrong_at_a = False
        ser = None
        if fault == "unencodable":
            from autobahn.wamp.serializer import CBORSerializer
            ser = CBORSerializer
        A, ta = joined(ser and ser())
        B, tb = joined(ser and ser())
        A.set_payload_codec(ka)
        B.set_payload_codec(kb)
        got = {}
        kind = "publish" if dir_ == "publish" else "call"
        uri = URI[kind]
        uri2 = (related(uri, rng) if fault == "uriswap" else None) or URI2[kind]
        if fault == "unencodable":
            return unenc(dir_, layout, shape, pos, A, ta, B, tb, uri, obs)
        if dir_ == "publish":
            def h1(*a, **kw):
                got.setdefault("calls", []).append(("h1", list(a), dict(kw)))

            def h2(*a, **kw):
                got.setdefault("calls", []).append(("h2", list(a), dict(kw)))
            # variants: a pattern-based subscription (the router names the topic), publish options next to the ciphertext
            psub = rng.random() < 0.4
            for i, (h, u) in enumerate(((h1, uri), (h2, uri2))):
                if psub and i == 0:
                    B.subscribe(h, "com.myapp.enc", options=SubscribeOptions(match="prefix"))
                else:
                    B.subscribe(h, u)
                fw.settle()
                rx(B, message.Subscribed(tb.sent[-1][0].request, 100 + i))
                fw.settle()
            popt = rng.choice([None, None, PublishOptions(acknowledge=True), PublishOptions(exclude_me=False), PublishOptions(retain=True, exclude=[7])])
            if popt is not None:
                pf = A.publish(uri, *args, options=popt, **kwargs)
                if pf is not None:
                    txaio.add_callbacks(pf, lambda r: None, lambda f: None)
            else:
                A.publish(uri, *args, **kwargs)
            fw.settle()
            pm = ta.sent[-1][0]
            obs["encOnWire"] = pm.enc_algo == "cryptobox" and pm.payload is not None
            obs["clearOnWire"] = has_clear(pm) or (pm.payload is None)
            payload = pm.payload
            sub = 100
            if pm.payload is not None:
                if fault == "tamper":
                    payload = tamper(payload, pos)
                if fault == "uriswap":
                    sub = 101            # the ciphertext for topic1 arrives on the subscription for topic2
                ev = message.Event(sub, 555, payload=payload, enc_algo=pm.enc_algo, enc_key=pm.enc_key, enc_serializer=pm.enc_serializer,
                                   topic=(uri if (psub and sub == 100) else None))
            else:
                ev = message.Event(sub, 555, args=pm.args, kwargs=pm.kwargs, topic=(uri if (psub and sub == 100) else None))
            rx(B, ev)
            fw.settle()
            calls = got.get("calls", [])
            if not calls:
                obs["delivered"] = "none"
            elif calls == [("h1", args, kwargs)]:
                obs["delivered"] = "exact"
            else:
                obs["delivered"] = "altered"
        elif dir_ == "progress":
            # progressive result: the fault hits the progressive YIELD -> RESULT only, the final result travels untouched
            def epp(*a, details=None, **kw):
                got.setdefault("calls", []).append((list(a), dict(kw)))
                details.progress(*args, **kwargs)
                return CallResult("final", fin=1)
            B.register(epp, uri, options=RegisterOptions(details_arg="details"))
            fw.settle()
            rx(B, message.Registered(tb.sent[-1][0].request, 200))
            fw.settle()
            del tb.sent[:]

            def onp(*a, **kw):
                got.setdefault("prog", []).append((list(a), dict(kw)))
            fut = A.call(uri, 1, options=CallOptions(on_progress=onp))
            res = {}
            txaio.add_callbacks(fut, lambda r: res.setdefault("ok", r), lambda f: res.setdefault("err", f.value if hasattr(f, "value") else f))
            fw.settle()
            cm = ta.sent[-1][0]
            if cm.payload is not None:
                inv = message.Invocation(900, 200, payload=cm.payload, enc_algo=cm.enc_algo, enc_key=cm.enc_key, enc_serializer=cm.enc_serializer, receive_progress=True)
            else:
                inv = message.Invocation(900, 200, args=cm.args, kwargs=cm.kwargs, receive_progress=True)
            rx(B, inv)
            fw.settle()
            ys = [m for m, _ in tb.sent if isinstance(m, message.Yield)]
            if len(ys) != 2 or not ys[0].progress or ys[1].progress:
                obs["esc"] = "yields:%r" % [(type(m).__name__, getattr(m, "progress", None)) for m, _ in tb.sent]
            else:
                obs["encOnWire"] = all(m.enc_algo == "cryptobox" and m.payload is not None for m in ys + [cm])
                obs["clearOnWire"] = any(has_clear(m) or m.payload is None for m in ys + [cm])
                good = A._payload_codec
                for k, rm in enumerate(ys):
                    rp = rm.payload
                    if k == 0 and rp is not None:
                        if fault == "tamper":
                            rp = tamper(rp, pos)
                        if fault == "wrongkey":
                            kx, _ = keyrings(layout, "none", rng)
                            A.set_payload_codec(kx)
                    fwd = message.Result(cm.request, payload=rp, enc_algo=rm.enc_algo, enc_key=rm.enc_key, enc_serializer=rm.enc_serializer, progress=(k == 0)) \
                        if rp is not None else message.Result(cm.request, args=rm.args, kwargs=rm.kwargs, progress=(k == 0))
                    rx(A, fwd)
                    fw.settle()
                    A.set_payload_codec(good)
                pg = got.get("prog", [])
                obs["delivered"] = "none" if not pg else ("exact" if pg == [(args, kwargs)] else "altered")
                if "ok" in res:
                    r = res["ok"]
                    obs["call"] = "ok" if isinstance(r, CallResult) and (list(r.results), dict(r.kwresults)) == (["final"], {"fin": 1}) else "altered"
                elif "err" in res:
                    e = res["err"]
                    obs["call"] = "encerror" if isinstance(e, ApplicationError) and e.error.startswith("wamp.error.encryption") else "othererror:" + type(e).__name__
                else:
                    obs["call"] = "pending"
        else:
            # variants: pattern-based registration (the router names the called procedure), a plain return value instead of a
            # CallResult, a class registered at the caller for the callee's error URI
            pattern = rng.random() < 0.4
            plain = len(args) == 1 and not kwargs and rng.random() < 0.7
            defined = dir_ == "error" and rng.random() < 0.5
            if defined:
                A.define(EncDefinedError, "com.myapp.enc.error1")

            def ep(*a, **kw):
                got.setdefault("calls", []).append((list(a), dict(kw)))
                if dir_ == "error":
                    raise ApplicationError("com.myapp.enc.error1", *args, **kwargs)
                if plain:
                    return args[0]
                return CallResult(*args, **kwargs)

            def ep2(*a, **kw):
                got.setdefault("calls2", []).append((list(a), dict(kw)))
                return CallResult(*args, **kwargs) if (dir_ == "result" and fault == "uriswap") else None
            for i, (e, u) in enumerate(((ep, uri), (ep2, uri2))):
                if pattern and i == 0:
                    B.register(e, "com.myapp.enc.proc", options=RegisterOptions(match="prefix"))
                elif i == 0 and rng.random() < 0.3:
                    B.register(e, u[len("com.myapp.enc."):], prefix="com.myapp.enc.")       # the URI given in two parts
                else:
                    B.register(e, u)
                fw.settle()
                rx(B, message.Registered(tb.sent[-1][0].request, 200 + i))
                fw.settle()
            del tb.sent[:]
            fut = A.call(uri, *args, **kwargs)
            res = {}
            txaio.add_callbacks(fut, lambda r: res.setdefault("ok", r), lambda f: res.setdefault("err", f.value if hasattr(f, "value") else f))
            fw.settle()
            cm = ta.sent[-1][0]
            enc = [cm.enc_algo == "cryptobox" and cm.payload is not None]
            clear = [has_clear(cm) or cm.payload is None]
            payload = cm.payload
            reg = 200
            if cm.payload is not None:
                if dir_ == "call" and fault == "tamper":
                    payload = tamper(payload, pos)
                if dir_ == "call" and fault == "uriswap":
                    reg = 201
                inv = message.Invocation(900, reg, payload=payload, enc_algo=cm.enc_algo, enc_key=cm.enc_key, enc_serializer=cm.enc_serializer,
                                         procedure=(uri if (pattern and reg == 200) else None))
            else:
                inv = message.Invocation(900, reg, args=cm.args, kwargs=cm.kwargs, procedure=(uri if (pattern and reg == 200) else None))
            rx(B, inv)
            fw.settle()
            replies = [m for m, _ in tb.sent if isinstance(m, (message.Yield, message.Error))]
            ecalls = got.get("calls", [])
            if dir_ == "call":
                if got.get("calls2"):
                    obs["delivered"] = "altered"
                elif not ecalls:
                    obs["delivered"] = "none"
                else:
                    obs["delivered"] = "exact" if ecalls == [(args, kwargs)] else "altered"
            if replies:
                rm = replies[0]
                if dir_ in ("result", "error") or (dir_ == "call" and fault == "none"):
                    enc.append(rm.enc_algo == "cryptobox" and rm.payload is not None)
                    clear.append(has_clear(rm) or rm.payload is None)
                rp = rm.payload
                if rp is not None and dir_ in ("result", "error"):
                    if fault == "tamper":
                        rp = tamper(rp, pos)
                    if fault == "wrongkey":
                        # A holds a key pair that does not match B's
                        kx, _ = keyrings(layout, "none", rng)
                        A.set_payload_codec(kx)
                if isinstance(rm, message.Yield):
                    fwd = message.Result(cm.request, args=rm.args, kwargs=rm.kwargs, payload=rp, enc_algo=rm.enc_algo, enc_key=rm.enc_key,
                                         enc_serializer=rm.enc_serializer) if rp is not None else message.Result(cm.request, args=rm.args, kwargs=rm.kwargs)
                else:
                    err_uri = rm.error
                    if dir_ == "error" and fault == "uriswap" and rp is not None:
                        err_uri = related(rm.error, rng) or "com.myapp.enc.error2"
                    fwd = message.Error(message.Call.MESSAGE_TYPE, cm.request, err_uri, args=rm.args, kwargs=rm.kwargs, payload=rp, enc_algo=rm.enc_algo,
                                        enc_key=rm.enc_key, enc_serializer=rm.enc_serializer) if rp is not None else \
                        message.Error(message.Call.MESSAGE_TYPE, cm.request, err_uri, args=rm.args, kwargs=rm.kwargs)
                if dir_ == "result" and fault == "uriswap" and rp is not None:
                    # a RESULT has no URI of its own: the envelope is the pending call.  The router hands the caller the
                    # genuine (recorded) result of a call to another procedure under the same key
                    n0 = len(tb.sent)
                    fut2 = A.call(uri2, *args, **kwargs)
                    txaio.add_callbacks(fut2, lambda r: None, lambda f: None)
                    fw.settle()
                    cm2 = ta.sent[-1][0]
                    rx(B, message.Invocation(901, 201, payload=cm2.payload, enc_algo=cm2.enc_algo, enc_key=cm2.enc_key, enc_serializer=cm2.enc_serializer))
                    fw.settle()
                    y2 = [m for m, _ in tb.sent[n0:] if isinstance(m, message.Yield)]
                    if len(y2) != 1 or y2[0].payload is None:
                        raise RuntimeError("no encrypted result of the other procedure to swap in: %r" % (tb.sent[n0:],))
                    fwd = message.Result(cm.request, payload=y2[0].payload, enc_algo=y2[0].enc_algo, enc_key=y2[0].enc_key, enc_serializer=y2[0].enc_serializer)
                rx(A, fwd)
                fw.settle()
            if "ok" in res:
                r = res["ok"]
                if isinstance(r, CallResult):
                    val = (list(r.results), dict(r.kwresults))
                elif r is None:
                    val = ([], {})
                else:
                    val = ([r], {})
                obs["call"] = "ok"
                if dir_ == "result":
                    obs["delivered"] = "exact" if val == (args, kwargs) else "altered"
            elif "err" in res:
                e = res["err"]
                if isinstance(e, ApplicationError) and e.error.startswith("wamp.error.encryption"):
                    obs["call"] = "encerror"
                elif (isinstance(e, ApplicationError) and e.error == "com.myapp.enc.error1") or isinstance(e, EncDefinedError):
                    obs["call"] = "apperror"
                    if dir_ == "error":
                        ek = dict(e.kwargs)
                        obs["delivered"] = "exact" if (list(e.args), ek) == (args, kwargs) else "altered"
                else:
                    obs["call"] = "othererror:" + (e.error if isinstance(e, ApplicationError) else type(e).__name__)
            else:
                obs["call"] = "pending"
            if dir_ in ("result", "error") and obs["delivered"] == "none" and ecalls == [(args, kwargs)] and False:
                pass
            obs["encOnWire"] = all(enc)
            obs["clearOnWire"] = any(clear)
        # sessions alive: still joined, transports not closed
        obs["alive"] = A.session_id is not None and B.session_id is not None and not getattr(ta, "closed", False) and not getattr(tb, "closed", False)
    except Exception as e:  # noqa
        obs["esc"] = type(e).__name__ + ":" + str(e)[:80]
    fw.reset()
    return dict(ev="e2e", dir=dir_, layout=layout, fault=fault, pos=pos, shape=repr(shape)[:50], obs=obs)


def unenc(dir_, layout, shape, pos, A, ta, B, tb, uri, obs):
    """the payload to be encrypted contains a value the box's inner serializer cannot encode (the transport's could):
    whatever else happens, it must not travel in clear"""
    args, kwargs = copy.deepcopy(shape)
    kwargs["when"] = unencodable()
    got = {}
    sent0 = (len(ta.sent), len(tb.sent))

    def leaked():
        for m, _ in ta.sent[sent0[0]:] + tb.sent[sent0[1]:]:
            if "when" in (getattr(m, "kwargs", None) or {}):
                return True
        return False
    if dir_ == "publish":
        B.subscribe(lambda *a, **kw: got.setdefault("calls", []).append(1), uri)
        fw.settle()
        rx(B, message.Subscribed(tb.sent[-1][0].request, 100))
        fw.settle()
        sent0 = (len(ta.sent), len(tb.sent))
        try:
            A.publish(uri, *args, **kwargs)
        except Exception:  # noqa
            pass
        fw.settle()
        obs["call"] = "na"
    else:
        def ep(*a, **kw):
            got.setdefault("calls", []).append(1)
            if dir_ == "error":
                raise ApplicationError("com.myapp.enc.error1", *args, **kwargs)
            if dir_ == "result":
                return CallResult(*args, **kwargs)
            return None
        B.register(ep, uri)
        fw.settle()
        rx(B, message.Registered(tb.sent[-1][0].request, 200))
        fw.settle()
        sent0 = (len(ta.sent), len(tb.sent))
        res = {}
        try:
            fut = A.call(uri, *args, **kwargs) if dir_ == "call" else A.call(uri, 1)
            txaio.add_callbacks(fut, lambda r: res.setdefault("ok", r), lambda f: res.setdefault("err", f.value if hasattr(f, "value") else f))
        except Exception:  # noqa
            res["refused"] = True
        fw.settle()
        calls = [m for m, _ in ta.sent[sent0[0]:] if isinstance(m, message.Call)]
        if calls:
            cm = calls[0]
            if cm.payload is not None:
                rx(B, message.Invocation(900, 200, payload=cm.payload, enc_algo=cm.enc_algo, enc_key=cm.enc_key, enc_serializer=cm.enc_serializer))
            else:
                rx(B, message.Invocation(900, 200, args=cm.args, kwargs=cm.kwargs))
            fw.settle()
            for rm, _ in tb.sent[sent0[1]:]:
                if isinstance(rm, message.Yield):
                    rx(A, message.Result(cm.request, args=rm.args, kwargs=rm.kwargs, payload=rm.payload, enc_algo=rm.enc_algo, enc_key=rm.enc_key,
                                         enc_serializer=rm.enc_serializer))
                elif isinstance(rm, message.Error):
                    rx(A, message.Error(message.Call.MESSAGE_TYPE, cm.request, rm.error, args=rm.args, kwargs=rm.kwargs, payload=rm.payload,
                                        enc_algo=rm.enc_algo, enc_key=rm.enc_key, enc_serializer=rm.enc_serializer))
                fw.settle()
        obs["call"] = "refused" if "refused" in res else "ok" if "ok" in res else "failed" if "err" in res else "pending"
    obs["clearOnWire"] = leaked()
    obs["encOnWire"] = not obs["clearOnWire"]
    obs["delivered"] = "none" if (dir_ in ("publish", "call") and not got.get("calls")) or dir_ in ("result", "error") and obs["call"] != "ok" else "altered"
    obs["alive"] = A.session_id is not None and B.session_id is not None and not getattr(ta, "closed", False) and not getattr(tb, "closed", False)
    fw.reset()
    return dict(ev="e2e", dir=dir_, layout=layout, fault="unencodable", pos=pos, shape=repr(shape)[:50], obs=obs)


def live(rng, shape):
    """one pair of sessions, one topic, keyrings that are changed between publications: none -> k1 -> k2, at one end first or
    at both; after every change one publication is sent, routed to the subscriber and judged"""
    args, kwargs = copy.deepcopy(shape)
    steps, esc = [], ""
    try:
        kr0 = KeyRing()
        keys = {}
        for name in ("k1", "k2"):
            o_priv, _ = kr0.generate_key()
            r_priv, _ = kr0.generate_key()
            keys[name] = (o_priv, r_priv)
        ka, kb = KeyRing(), KeyRing()
        A, ta = joined()
        B, tb = joined()
        A.set_payload_codec(ka)
        B.set_payload_codec(kb)
        got = []
        B.subscribe(lambda *a, **kw: got.append((list(a), dict(kw))), URI["publish"])
        fw.settle()
        rx(B, message.Subscribed(tb.sent[-1][0].request, 100))
        fw.settle()
        prefix = rng.choice(["com.myapp.enc", "com.myapp.enc.topic1", "com.myapp"])
        plan = rng.choice([[("none", "none"), ("k1", "k1"), ("k2", "k2")], [("k1", "k1"), ("k2", "k1"), ("k2", "k2")],
                           [("none", "none"), ("none", "k1"), ("k1", "k1"), ("none", "k1")], [("k1", "k1"), ("none", "none"), ("k2", "k2")],
                           [("none", "k1"), ("k1", "k1"), ("k1", "k2"), ("k2", "k2"), ("k1", "k1")]])
        for ko, kr in plan:
            for ring, k in ((ka, ko), (kb, kr)):
                ring.set_key(prefix, None if k == "none" else Key(originator_priv=keys[k][0], responder_priv=keys[k][1]))
            del got[:]
            A.publish(URI["publish"], *args, **kwargs)
            fw.settle()
            pm = ta.sent[-1][0]
            st = dict(ko=ko, kr=kr, encOnWire=bool(pm.enc_algo == "cryptobox" and pm.payload is not None), clearOnWire=bool(has_clear(pm) or pm.payload is None))
            if pm.payload is not None:
                ev = message.Event(100, 555, payload=pm.payload, enc_algo=pm.enc_algo, enc_key=pm.enc_key, enc_serializer=pm.enc_serializer)
            else:
                ev = message.Event(100, 555, args=pm.args, kwargs=pm.kwargs)
            rx(B, ev)
            fw.settle()
            st["delivered"] = "none" if not got else ("exact" if got == [(args, kwargs)] else "altered")
            steps.append(st)
        if A.session_id is None or B.session_id is None:
            esc = "session lost"
    except Exception as e:  # noqa
        esc = type(e).__name__ + ":" + str(e)[:80]
    fw.reset()
    return dict(ev="live", steps=steps, esc=esc, shape=repr(shape)[:50], dir="live", layout="live", fault="none", pos=len(steps))


def errkeyed(rng, shape, layout):
    """a procedure outside every keyed prefix (called in clear) raises an application error whose URI a key covers"""
    args, kwargs = copy.deepcopy(shape)
    obs = dict(encOnWire=False, clearOnWire=False, delivered="none", call="na", alive=True, esc="")
    try:
        ka, kb = keyrings("prefix" if layout == "prefix" else "split", "none", rng)
        A, ta = joined()
        B, tb = joined()
        A.set_payload_codec(ka)
        B.set_payload_codec(kb)
        calls = []

        def ep(*a, **kw):
            calls.append((list(a), dict(kw)))
            raise ApplicationError("com.myapp.enc.error1", *args, **kwargs)
        B.register(ep, "com.public.lookup")
        fw.settle()
        rx(B, message.Registered(tb.sent[-1][0].request, 200))
        fw.settle()
        del tb.sent[:]
        fut = A.call("com.public.lookup", 1)
        res = {}
        txaio.add_callbacks(fut, lambda r: res.setdefault("ok", r), lambda f: res.setdefault("err", f.value if hasattr(f, "value") else f))
        fw.settle()
        cm = ta.sent[-1][0]
        rx(B, message.Invocation(900, 200, args=cm.args, kwargs=cm.kwargs))
        fw.settle()
        errs = [m for m, _ in tb.sent if isinstance(m, message.Error)]
        if errs:
            rm = errs[0]
            obs["encOnWire"] = bool(rm.enc_algo == "cryptobox" and rm.payload is not None)
            obs["clearOnWire"] = bool(has_clear(rm) or rm.payload is None)
            fwd = message.Error(message.Call.MESSAGE_TYPE, cm.request, rm.error, args=rm.args, kwargs=rm.kwargs, payload=rm.payload, enc_algo=rm.enc_algo,
                                enc_key=rm.enc_key, enc_serializer=rm.enc_serializer) if rm.payload is not None else \
                message.Error(message.Call.MESSAGE_TYPE, cm.request, rm.error, args=rm.args, kwargs=rm.kwargs)
            rx(A, fwd)
            fw.settle()
        if "err" in res:
            e = res["err"]
            if isinstance(e, ApplicationError) and e.error == "com.myapp.enc.error1":
                obs["call"] = "apperror"
                obs["delivered"] = "exact" if (list(e.args), dict(e.kwargs)) == (args, kwargs) else "altered"
            else:
                obs["call"] = "othererror:" + (e.error if isinstance(e, ApplicationError) else type(e).__name__)
        elif "ok" in res:
            obs["call"] = "ok"
        else:
            obs["call"] = "pending"
        obs["alive"] = A.session_id is not None and B.session_id is not None
    except Exception as e:  # noqa
        obs["esc"] = type(e).__name__ + ":" + str(e)[:80]
    fw.reset()
    return dict(ev="errkeyed", obs=obs, shape=repr(shape)[:50], dir="errkeyed", layout=layout, fault="none", pos=0)


def main():
    inp = driver_in()
    rng = random.Random(int(os.environ.get("VERIF_SEED", "0")) * 17 + 3)
    traces = []
    for dir_ in ("publish", "call", "result", "error", "progress"):
        for layout in ("default", "prefix", "split", "nokey"):
            for fault in ("none", "tamper", "wrongkey", "uriswap", "unencodable"):
                if fault == "uriswap" and dir_ == "progress":
                    continue
                if fault == "unencodable" and (dir_ == "progress" or layout == "nokey"):
                    continue
                for si, shape in enumerate(SHAPES):
                    positions = [0]
                    if fault == "tamper":
                        if inp.get("tamper_positions") == "all":
                            positions = list(range(0, 400))
                        else:
                            positions = sorted(set([0, 1, 23, 24, 25, 39, 40] + [rng.randrange(400) for _ in range(int(inp.get("tamper_positions", 16)))]))
                        if si > 0 and inp.get("tamper_positions") != "all":
                            positions = positions[:6]
                    for pos in positions:
                        traces.append([one(dir_, layout, fault, shape, pos, rng)])
    for rep in range(6):
        for shape in SHAPES:
            traces.append([live(rng, shape)])
    for layout in ("prefix", "split"):
        for shape in SHAPES:
            traces.append([errkeyed(rng, shape, layout)])
    driver_out(dict(fw=fw.NAME, traces=traces, cases=len(traces)))


if __name__ == "__main__":
    main()
