"""C02 / C16 driver: feeds frames to one real endpoint (server or client role) and records, per fed header and per fed
payload, the observable reaction, as traces for WsRecvTrace.tla.

input (VERIF_IN): {mode: table|seq|limits, ctxs:[...], b0_range:[lo,hi], n:..., seg:[...]}
"""
import os
import random
import zlib

from harness import fw, wsx
from harness.common import driver_in, driver_out
from autobahn.websocket.compress import (PerMessageDeflateOffer, PerMessageDeflateOfferAccept,
                                         PerMessageDeflateResponse, PerMessageDeflateResponseAccept)

KEY = bytes([0x11, 0x22, 0x33, 0x44])


def _accept_offer(offers):
    for o in offers:
        if isinstance(o, PerMessageDeflateOffer):
            return PerMessageDeflateOfferAccept(o)


def _accept_resp(r):
    if isinstance(r, PerMessageDeflateResponse):
        return PerMessageDeflateResponseAccept(r)


def open_endpoint(ctx):
    opts = dict(failByDrop=ctx["failByDrop"])
    if ctx.get("maxFrame"):
        opts["maxFramePayloadSize"] = ctx["maxFrame"]
    if ctx.get("maxMsg"):
        opts["maxMessagePayloadSize"] = ctx["maxMsg"]
    opts.update(ctx.get("opts") or {})
    lim = {k: opts[k] for k in ("maxFramePayloadSize", "maxMessagePayloadSize") if k in opts}
    if ctx.get("via") == "attrs" and lim:
        opts["_attrs"] = {k: opts.pop(k) for k in lim}
    elif ctx.get("via") == "pre":
        opts["_pre"] = dict(maxFramePayloadSize=3, maxMessagePayloadSize=5)
        opts.setdefault("maxFramePayloadSize", 0)          # (0 lifts the earlier limit again)
        opts.setdefault("maxMessagePayloadSize", 0)
    if ctx.get("autoping"):
        opts.update(autoPingInterval=1, autoPingTimeout=0)
    log = []
    if ctx["role"] == "server":
        if ctx["compress"]:
            opts["perMessageCompressionAccept"] = _accept_offer
            p, t = wsx.open_server(opts, log, extra_headers=b"Sec-WebSocket-Extensions: permessage-deflate\r\n")
        else:
            p, t = wsx.open_server(opts, log)
    else:
        if ctx["compress"]:
            opts["perMessageCompressionOffers"] = [PerMessageDeflateOffer()]
            opts["perMessageCompressionAccept"] = _accept_resp
            p, t = wsx.open_client(opts, log, extra_headers=b"Sec-WebSocket-Extensions: permessage-deflate\r\n")
        else:
            p, t = wsx.open_client(opts, log)
    assert (p._perMessageCompress is not None) == bool(ctx["compress"])
    if ctx.get("autoping"):
        # the endpoint's own automatic ping is on its way and unanswered while the octets under test arrive: what they mean
        # does not depend on that
        fw.advance(1.0)
        assert t.unread(), "no automatic ping was sent"
    t.take()
    del log[:]
    return p, t, log


class Session:
    """one endpoint + the trace being recorded"""

    def __init__(self, ctx):
        self.ctx = ctx
        self.p, self.t, self.log = open_endpoint(ctx)
        self.trace = [dict(ev="open", role=ctx["role"], compress=bool(ctx["compress"]), failByDrop=bool(ctx["failByDrop"]),
                           maxFrame=ctx.get("maxFrame", 0), maxMsg=ctx.get("maxMsg", 0))]
        self.expect_msg = b""      # plaintext of the message being assembled (driver's view)
        self.msg_buf = b""
        self.msg_cmp = False
        self.total = []            # flat observable log (for segmentation-independence comparison)

    def _react(self, esc):
        msgs, pings, pongs, sent = [], [], [], []
        drop = False
        wbuf = b""
        for e in self.log:
            if e[0] == "onMessage":
                msgs.append(dict(bin=e[3], len=len(e[2]), same=(e[2] == self.expect_msg)))
                self.total.append(("msg", e[3], e[2]))
            elif e[0] == "onPing":
                pings.append(list(e[2]))
                self.total.append(("ping", e[2]))
            elif e[0] == "onPong":
                pongs.append(list(e[2]))
                self.total.append(("pong", e[2]))
            elif e[0] == "drop":
                drop = True
                self.total.append(("drop",))
            elif e[0] == "write":
                wbuf += e[2]
                frames, wbuf = wsx.split_frames(wbuf)
                for f in frames:
                    sent.append(dict(h=f["hdr"], p=list(f["payload"])))
                    self.total.append(("sent", f["hdr"][0], f["hdr"][1] & 0x7F, f["payload"]))
        del self.log[:]
        self.t.take()
        e = ""
        if esc is not None:
            e = type(esc).__name__
            self.total.append(("esc", e))
        elif wbuf:
            e = "unparsable-write"
        return dict(msgs=msgs, pings=pings, pongs=pongs, sent=sent, drop=drop, st=wsx.STATE[self.p.state], esc=e)

    def feed(self, data, seg):
        """seg: 'whole' | 'bytes' | int k (k-byte reads)"""
        esc = None
        if not data:
            return None
        if seg == "whole":
            parts = [data]
        elif seg == "bytes":
            parts = [data[i:i + 1] for i in range(len(data))]
        elif seg == "burst":
            # several reads before the event loop turns (asyncio: data_received() x n, then the consumer runs): same verdict
            k = max(1, len(data) // 3)
            parts = [data[i:i + k] for i in range(0, len(data), k)]
            return fw.feed_burst(self.p, parts)
        else:
            parts = [data[i:i + seg] for i in range(0, len(data), seg)]
        for part in parts:
            e = fw.feed(self.p, part)
            if e is not None and esc is None:
                esc = e
            # what the endpoint holds of the frame in flight once it has failed the connection (judged by TRetained)
            if getattr(self.p, "failedByMe", False):
                fd = getattr(self.p, "frame_data", None)
                self.retained = max(getattr(self, "retained", 0), sum(len(x) for x in (fd or [])))
        return esc

    def note_data(self, b0, plain):
        """driver-side bookkeeping of the message a data frame belongs to (to compute `same` and dlen)"""
        op = b0 & 0x0F
        if op >= 8:
            return len(plain)
        if op != 0:
            self.msg_cmp = bool(self.ctx["compress"]) and ((b0 >> 4) & 7) == 4
            self.msg_buf = plain
        else:
            self.msg_buf += plain
        if self.msg_cmp:
            try:
                self.expect_msg = inflate(self.msg_buf)
            except zlib.error:
                self.expect_msg = b"?"
        else:
            self.expect_msg = self.msg_buf
        return len(self.expect_msg)

    def lclose(self):
        self.p.sendClose()
        fw.pump()
        self.trace.append(dict(ev="lclose", react=self._react(None)))

    def header(self, h, seg="whole"):
        esc = self.feed(bytes(h), seg)
        fw.pump()
        self.trace.append(dict(ev="hdr", h=list(h), dlen=len(self.expect_msg), react=self._react(esc)))

    def payload(self, wire, plain, seg="whole", first=False, is_data=False, dlen=None):
        """wire: octets as on the wire (masked); plain: unmasked payload (for compressed data frames: compressed octets)"""
        if is_data:
            pass
        esc = self.feed(wire, seg)
        fw.pump()
        n = len(plain)
        log_data = n <= 130
        self.trace.append(dict(ev="pay", n=n, data=list(plain) if log_data else [], ascii=not log_data,
                               dlen=n if dlen is None else dlen, react=self._react(esc)))


def mask(payload, key):
    return wsx._unmask(payload, key) if payload else payload


_DEFL = {}


def deflate_prefix(n, rng):
    """n octets that are a valid prefix of a raw deflate stream which remains valid when 00 00 ff ff is appended"""
    if n in _DEFL:
        return _DEFL[n]
    if n == 0:
        r = b""
    elif n >= 5:
        ln = n - 5
        r = bytes([0x00, ln & 0xFF, ln >> 8, (~ln) & 0xFF, ((~ln) >> 8) & 0xFF]) + b"a" * ln
    else:
        r = None
        cands = {1: [b"\x00"], 2: [b"\x02\x00"], 3: [b"J\x04\x00"], 4: [b"JL\x04\x00"]}[n]
        for c in cands:
            if _defl_ok(c):
                r = c
        tries = 0
        while r is None:
            c = bytes(rng.getrandbits(8) for _ in range(n))
            tries += 1
            if _defl_ok(c):
                r = c
            assert tries < 200000
    assert len(r) == n and _defl_ok(r), (n, r)
    _DEFL[n] = r
    return r


def _defl_ok(c):
    try:
        d = zlib.decompressobj(-15)
        d.decompress(c)
        d.decompress(b"\x00\x00\xff\xff")
        return True
    except zlib.error:
        return False


def inflate(c):
    d = zlib.decompressobj(-15)
    return d.decompress(c + b"\x00\x00\xff\xff")


def completion(b0, b1, compress, inside_cmp, rng):
    """minimal legal completion of a header (b0, b1): extended length, mask key, payload of the announced length"""
    l7 = b1 & 0x7F
    masked = bool(b1 & 0x80)
    op = b0 & 0x0F
    if l7 == 126:
        n, ext = 126, bytes([0, 126])
    elif l7 == 127:
        n, ext = 65536, bytes([0, 0, 0, 0, 0, 1, 0, 0])
    else:
        n, ext = l7, b""
    hdr = bytes([b0, b1]) + ext + (KEY if masked else b"")
    rsv1 = (b0 >> 4) & 7 == 4
    dlen = n
    if op == 8 and n >= 2:
        plain = bytes([0x03, 0xE8]) + b"a" * (n - 2)
    elif op < 8 and compress and (inside_cmp or rsv1):
        # whatever the receiver will run through its decompressor must be valid deflate data: every data frame inside a
        # compressed message, and every data frame with RSV1 that starts one (also when it violates another rule and the
        # endpoint keeps reading in fail-by-close mode) - corrupt deflate data is not among the violations C02 lists
        plain = deflate_prefix(n, rng)
    else:
        plain = b"a" * n
    wire = mask(plain, KEY) if masked else plain
    return hdr, wire, plain


def run_table(inp, rng):
    traces, flat_mismatch = [], []
    lo, hi = inp["b0_range"]
    cases = 0
    for ctx in inp["ctxs"]:
        pre = ctx.get("pre", "open")    # open | closing | inside | insideplain (compression negotiated, the message is not compressed)
        for b0 in range(lo, hi):
            if ctx.get("b0_filter") == "rsv1" and (b0 >> 4) & 7 != 4:
                continue
            for b1 in range(256):
                cases += 1
                segs = ["whole"]
                if (b0 * 256 + b1 + ctx.get("salt", 0)) % inp.get("bytes_every", 16) == 0:
                    segs.append("bytes")
                runs = []
                for seg in segs + ["coalesced"]:
                    s = Session(ctx)
                    inside_cmp = False
                    if pre == "closing":
                        s.lclose()
                    elif pre in ("inside", "insideplain"):
                        # first fragment of a text message (compressed when negotiated, except "insideplain") precedes the cell
                        fb0 = 0x41 if (ctx["compress"] and pre == "inside") else 0x01
                        mbit = 0x80 if ctx["role"] == "server" else 0
                        h0, w0, p0 = completion(fb0, mbit | 6, ctx["compress"], False, rng)
                        d0 = s.note_data(fb0, p0)
                        s.header(h0)
                        s.payload(w0, p0, dlen=d0)
                        inside_cmp = bool(ctx["compress"]) and pre == "inside"
                    hdr, wire, plain = completion(b0, b1, ctx["compress"], inside_cmp, rng)
                    dlen = s.note_data(b0, plain)
                    if seg == "coalesced":
                        del s.total[:]
                        esc = s.feed(hdr + wire, "whole")
                        fw.pump()
                        s._react(esc)
                        runs.append(list(s.total))
                        continue
                    mark = len(s.total)
                    s.header(hdr, seg)
                    if len(wire) or True:
                        if len(plain) > 0:
                            s.payload(wire, plain, seg if len(wire) < 200 else 4096, dlen=dlen)
                    runs.append(s.total[mark:])
                    traces.append(s.trace)
                fw.reset()
                # segmentation independence of the implementation itself: flat observable logs agree
                base = runs[0]
                for r in runs[1:]:
                    if _norm(r) != _norm(base) and len(flat_mismatch) < 20:
                        flat_mismatch.append(dict(ctx=ctx, b0=b0, b1=b1, whole=_show(base), other=_show(r)))
    return dict(traces=traces, cases=cases, seg_mismatch=flat_mismatch)


def _norm(total):
    # the sequence of observable effects (payloads are logged unmasked).  After this endpoint has sent a close frame the
    # moment of the transport drop is unconstrained (spec: DropAfterFailEither) and is not compared.
    out, closed = [], False
    for x in total:
        if x[0] == "sent" and (x[1] & 0x0F) == 8:
            closed = True
        if x[0] == "drop" and closed:
            continue
        out.append(tuple(x))
    return out


def _show(total):
    return [[(y.hex() if isinstance(y, (bytes, bytearray)) else y) for y in x] for x in total]


# ---------------------------------------------------------------------------------------------------
# generated frame sequences

TEXTS = [b"", b"a", b"hello", "κόσμε".encode(), "𝄞x".encode(), b"\xce\xba", b"a" * 126, b"b" * 300]
BAD_TEXT = [b"\xff", b"\xc0\x80", b"\xed\xa0\x80", b"ab\xf4\x90\x80\x80", b"\xce", b"\xf0\x9d\x84"]
CLOSE_CODES = [1000, 1001, 1002, 1003, 1007, 1008, 1009, 1010, 1011, 3000, 4999, 4000,
               0, 999, 1004, 1005, 1006, 1015, 1016, 2999, 5000, 65535, 1012, 1013, 1014, 1100, 2000]


def gen_sequence(rng, ctx):
    """list of frames: (b0, plain payload, flags) forming a mostly valid stream with at most a few faults"""
    frames = []
    n = rng.randint(1, 7)
    fault_at = rng.randrange(n) if rng.random() < 0.6 else -1
    for i in range(n):
        kind = rng.choice(["text", "text", "binary", "fragtext", "fragbin", "ping", "pong", "close"] if i else
                          ["text", "binary", "fragtext", "fragbin", "ping", "pong"])
        faulty = i == fault_at
        if kind in ("text", "binary"):
            if kind == "text":
                pl = rng.choice(BAD_TEXT) if faulty and rng.random() < 0.5 else rng.choice(TEXTS)
            else:
                pl = bytes(rng.getrandbits(8) for _ in range(rng.choice([0, 1, 5, 125, 126, 200])))
            frames.append(dict(b0=0x80 | (1 if kind == "text" else 2), p=pl))
        elif kind in ("fragtext", "fragbin"):
            whole = rng.choice(TEXTS[2:6]) if kind == "fragtext" else bytes(rng.getrandbits(8) for _ in range(6))
            if faulty and kind == "fragtext" and rng.random() < 0.5:
                whole = rng.choice(BAD_TEXT) + b"zz"
            k = rng.randint(2, 4)
            cuts = sorted(rng.randint(0, len(whole)) for _ in range(k - 1))
            parts = [whole[a:b] for a, b in zip([0] + cuts, cuts + [len(whole)])]
            for j, part in enumerate(parts):
                op = (1 if kind == "fragtext" else 2) if j == 0 else 0
                fin = 0x80 if j == len(parts) - 1 else 0
                frames.append(dict(b0=fin | op, p=part))
                if rng.random() < 0.3 and j < len(parts) - 1:
                    frames.append(dict(b0=0x89, p=b"mid"))       # control frame inside fragmented message
                elif rng.random() < 0.15 and j < len(parts) - 1:
                    # a close frame inside a fragmented message (the text so far may end in the middle of a code point:
                    # the close reason is judged on its own)
                    code = rng.choice(CLOSE_CODES[:12])
                    frames.append(dict(b0=0x88, p=bytes([code >> 8, code & 0xFF]) + rng.choice([b"", b"bye", "tsch\u00fc\u00df \u20ac".encode(), b"x" * 123])))
                    frames.append(dict(b0=0x80, p=b"rest"))
                    return frames
            if faulty and rng.random() < 0.3:
                frames.append(dict(b0=0x80, p=b"stray"))            # continuation outside
        elif kind == "ping":
            frames.append(dict(b0=0x89, p=bytes(rng.getrandbits(8) for _ in range(rng.choice([0, 1, 4, 125])))))
        elif kind == "pong":
            frames.append(dict(b0=0x8A, p=b"unsolicited"[:rng.randint(0, 11)]))
        elif kind == "close":
            r = rng.random()
            if r < 0.2:
                pl = b""
            elif r < 0.3:
                pl = b"\x03"
            else:
                code = rng.choice(CLOSE_CODES) if faulty or rng.random() < 0.3 else rng.choice(CLOSE_CODES[:12])
                reason = rng.choice([b"", b"bye", "tschüß".encode(), b"x" * 123, b"\xff\xfe", b"\xce"]) if faulty else \
                    rng.choice([b"", b"bye", "tschüß".encode(), b"x" * 123])
                pl = bytes([code >> 8, code & 0xFF]) + reason
            frames.append(dict(b0=0x88, p=pl))
            frames.append(dict(b0=0x81, p=b"after-close"))
            break
        if faulty and rng.random() < 0.4:
            f = frames[-1]
            m = rng.choice(["rsv", "op", "nonmin", "mask", "ctlfrag", "biglen"])
            if m == "rsv":
                # (with a negotiated PMCE, RSV1 alone on a data frame is legal and would make the payload compressed data:
                # corrupt deflate streams are not among the violations C02 lists)
                f["b0"] |= rng.choice([0x10, 0x20, 0x70] if ctx["compress"] else [0x10, 0x20, 0x40, 0x70])
            elif m == "op":
                f["b0"] = (f["b0"] & 0xF0) | rng.choice([3, 7, 11, 15])
            elif m == "nonmin":
                f["len_form"] = 16 if len(f["p"]) < 126 else 64
            elif m == "mask":
                f["flipmask"] = True
            elif m == "ctlfrag":
                f["b0"] = 0x09
            elif m == "biglen":
                f["declared"] = "over63"
    return frames


def run_seq(inp, rng):
    traces = []
    seg_mismatch = []
    cases = 0
    for i in range(inp["n"]):
        ctx = rng.choice(inp["ctxs"])
        frames = gen_sequence(rng, ctx)
        cases += 1
        runs = []
        segsets = ["whole", "bytes", rng.choice([2, 3, 7]), "coalesced", "burst"]
        keyseed = rng.getrandbits(32)
        for seg in segsets:
            krng = random.Random(keyseed)
            s = Session(ctx)
            if ctx.get("pre") == "closing":
                s.lclose()
                del s.total[:]
            stream = b""
            for f in frames:
                want_mask = (ctx["role"] == "server") != bool(f.get("flipmask"))
                key = bytes(krng.getrandbits(8) for _ in range(4)) if want_mask else None
                plain = f["p"]
                if f.get("declared") == "over63":
                    hdr = bytes([f["b0"], (0x80 if key else 0) | 127, 0x80, 0, 0, 0, 0, 0, 0, 1]) + (key or b"")
                    wire, plain = b"", b""
                else:
                    raw = wsx.build_frame(f["b0"] & 0x0F, plain, fin=bool(f["b0"] & 0x80), rsv=(f["b0"] >> 4) & 7, mask=key,
                                          len_form=f.get("len_form"))
                    hl = len(raw) - len(plain)
                    hdr, wire = raw[:hl], raw[hl:]
                dlen = s.note_data(f["b0"], plain)
                if seg == "coalesced":
                    stream += hdr + wire
                    continue
                s.header(hdr, seg)
                if plain:
                    s.payload(wire, plain, seg if len(wire) < 400 else 1000, dlen=dlen)
            if seg == "coalesced":
                esc = s.feed(stream, "whole")
                fw.pump()
                s._react(esc)
            else:
                traces.append(s.trace)
            runs.append(list(s.total))
        fw.reset()
        for r in runs[1:]:
            if _cmp_total(r) != _cmp_total(runs[0]) and len(seg_mismatch) < 20:
                seg_mismatch.append(dict(ctx=ctx, frames=[dict(f, p=f["p"].hex()) for f in frames], whole=_show(runs[0]), other=_show(r)))
    return dict(traces=traces, cases=cases, seg_mismatch=seg_mismatch)


def deflate_exact(n, rng):
    """n octets of valid raw deflate data (stored blocks) for any n"""
    if n <= 65540:
        return deflate_prefix(n, rng)
    out = b""
    left = n
    while left > 65540 + 5:
        out += deflate_prefix(65540, rng)
        left -= 65540
    return out + deflate_prefix(left, rng)


def compositions(rng, total, k):
    """k non-negative parts summing to total (random, boundary-biased)"""
    if k == 1:
        return [total]
    cuts = sorted(rng.choice([0, total, rng.randint(0, total), rng.randint(0, total)]) for _ in range(k - 1))
    return [b - a for a, b in zip([0] + cuts, cuts + [total])]


def run_limits(inp, rng):
    """C16 receive side: messages of size limit-1 / limit / limit+1 / far beyond, spread over 1..4 fragments"""
    traces, seg_mismatch = [], []
    cases = 0
    for lim in inp["limits"]:
        for which in ("maxFrame", "maxMsg", "both", "equal"):
            for size in sorted({max(0, lim - 1), lim, lim + 1, min(lim * 100, 300000) + 7}):
                for k in (1, 2, 3, 4):
                    for rep in range(inp.get("reps", 1)):
                        role = rng.choice(["server", "client"])
                        ctx = dict(role=role, failByDrop=rng.random() < 0.5, compress=rng.random() < 0.4,
                                   maxFrame=lim if which in ("maxFrame", "both", "equal") else 0,
                                   maxMsg=lim if which in ("maxMsg", "equal") else (lim * 2 if which == "both" else 0))
                        # how the limits get configured must not matter: factory options, class attributes of the protocol
                        # subclass, or factory options that replace earlier ones
                        ctx["via"] = rng.choice(["opts", "opts", "attrs", "pre"])
                        closing_first = rng.random() < 0.25          # the application's own close is in flight
                        binary = rng.random() < 0.5
                        compressed_msg = ctx["compress"] and rng.random() < 0.6
                        parts = compositions(rng, size, k)
                        withhold = rng.random() < 0.3          # payload of the first over-limit frame is never sent
                        cases += 1
                        runs = []
                        keyseed = rng.getrandbits(32)
                        for seg in ("whole", rng.choice(["bytes", 2, 5])):
                            krng = random.Random(keyseed)
                            s = Session(ctx)
                            if closing_first:
                                s.lclose()
                                del s.total[:]
                            msgs = [(binary, compressed_msg, parts), (True, False, [min(3, lim)])]   # a small follow-up message
                            stop = False
                            for (mbin, mcmp, mparts) in msgs:
                                run_len = 0
                                stream = deflate_exact(sum(mparts), rng) if mcmp else b""   # one contiguous deflate stream, cut anywhere
                                for j, n in enumerate(mparts):
                                    op = (2 if mbin else 1) if j == 0 else 0
                                    fin = j == len(mparts) - 1
                                    rsv = 4 if (mcmp and j == 0) else 0
                                    plain = stream[run_len:run_len + n] if mcmp else (b"a" * n)
                                    key = bytes(krng.getrandbits(8) for _ in range(4)) if role == "server" else None
                                    raw = wsx.build_frame(op, plain, fin=fin, rsv=rsv, mask=key)
                                    hl = len(raw) - n
                                    b0 = raw[0]
                                    dlen = s.note_data(b0, plain)
                                    s.header(raw[:hl], seg if seg != "bytes" or hl < 20 else "bytes")
                                    run_len += n
                                    over = (ctx["maxFrame"] and n > ctx["maxFrame"]) or (ctx["maxMsg"] and run_len > ctx["maxMsg"])
                                    if over and withhold:
                                        stop = True
                                        break
                                    if n:
                                        s.payload(raw[hl:], plain, seg if n < 300 else 4096, dlen=dlen)
                                if stop:
                                    break
                            if hasattr(s.p, "frame_data"):          # (the frame buffer the anchor names; skipped if renamed)
                                s.trace.append(dict(ev="retained", octets=int(getattr(s, "retained", 0))))
                            traces.append(s.trace)
                            runs.append(list(s.total))
                        fw.reset()
                        if _norm(runs[0]) != _norm(runs[1]) and len(seg_mismatch) < 20:
                            seg_mismatch.append(dict(ctx=ctx, parts=parts, whole=_show(runs[0])[:12], other=_show(runs[1])[:12]))
    return dict(traces=traces, cases=cases, seg_mismatch=seg_mismatch)


def _cmp_total(total):
    return _norm(total)


def main():
    inp = driver_in()
    rng = random.Random(int(os.environ.get("VERIF_SEED", "0")) * 65537 + inp.get("shard", 0))
    if inp["mode"] == "table":
        out = run_table(inp, rng)
    elif inp["mode"] == "limits":
        out = run_limits(inp, rng)
    else:
        out = run_seq(inp, rng)
    out["fw"] = fw.NAME
    driver_out(out)


if __name__ == "__main__":
    main()
