"""C12 negotiation driver: replays the permessage-deflate offer / accept / response-accept lattice through the real classes
and the real extension header strings, and the client handshake over responses with extension faults.
input: {mode: "lattice", stride: k, offset: j} | {mode: "hs"}"""
import itertools
import os

from harness import fw, wsx
from harness.common import driver_in, driver_out
from autobahn.websocket.protocol import WebSocketProtocol as WSP
from autobahn.websocket.compress import (PERMESSAGE_COMPRESSION_EXTENSION, PerMessageDeflate, PerMessageDeflateOffer,
                                         PerMessageDeflateOfferAccept, PerMessageDeflateResponse,
                                         PerMessageDeflateResponseAccept)

W0 = [0] + list(range(9, 16))
TRI = {"none": None, "yes": True, "no": False}


def eff(pm):
    return dict(s2cW=pm.server_max_window_bits, s2cNCT=bool(pm.server_no_context_takeover),
                c2sW=pm.client_max_window_bits, c2sNCT=bool(pm.client_no_context_takeover))


def parse_one(header, kind):
    exts = WSP._parseExtensionsHeader(None, header)
    assert len(exts) == 1, exts
    name, params = exts[0]
    return PERMESSAGE_COMPRESSION_EXTENSION[name][kind].parse(params)


def lattice(inp):
    traces = []
    pairs = list(itertools.product(itertools.product([False, True], [False, True], [False, True], W0),
                                   itertools.product([False, True], W0, ["none", "yes", "no"], W0)))
    for idx in range(inp.get("offset", 0), len(pairs), inp.get("stride", 1)):
        (oa, om, orn, orw), (arn, arw, an, aw) = pairs[idx]
        o = dict(acceptNCT=oa, acceptMWB=om, reqNCT=orn, reqMWB=orw)
        a = dict(reqNCT=arn, reqMWB=arw, nct=an, wbits=aw)
        offer = PerMessageDeflateOffer(accept_no_context_takeover=oa, accept_max_window_bits=om,
                                       request_no_context_takeover=orn, request_max_window_bits=orw)
        # the offer travels as a header string and is parsed by the server
        soffer = parse_one(offer.get_extension_string(), "Offer")
        oparsed = dict(acceptNCT=bool(soffer.accept_no_context_takeover), acceptMWB=bool(soffer.accept_max_window_bits),
                       reqNCT=bool(soffer.request_no_context_takeover), reqMWB=int(soffer.request_max_window_bits))
        ev = dict(ev="accept", o=o, a=a, oparsed=oparsed, raised=False, resp=None, seff=None)
        try:
            acc = PerMessageDeflateOfferAccept(soffer, request_no_context_takeover=arn, request_max_window_bits=arw,
                                               no_context_takeover=TRI[an], window_bits=aw if aw else None)
        except Exception:
            ev["raised"] = True
            ev["resp"] = dict(serverNCT=False, serverMWB=0, clientNCT=False, clientMWB=0)
            ev["seff"] = dict(s2cW=0, s2cNCT=False, c2sW=0, c2sNCT=False)
            traces.append([ev])
            continue
        spm = PerMessageDeflate.create_from_offer_accept(True, acc)
        resp = parse_one(acc.get_extension_string(), "Response")
        ev["resp"] = dict(serverNCT=bool(resp.server_no_context_takeover), serverMWB=int(resp.server_max_window_bits),
                          clientNCT=bool(resp.client_no_context_takeover), clientMWB=int(resp.client_max_window_bits))
        ev["seff"] = eff(spm)
        t = [ev]
        for cn, cw in itertools.product(["none", "yes", "no"], W0):
            ce = dict(ev="caccept", ca=dict(nct=cn, wbits=cw), raised=False, ceff=dict(s2cW=0, s2cNCT=False, c2sW=0, c2sNCT=False))
            try:
                cacc = PerMessageDeflateResponseAccept(resp, no_context_takeover=TRI[cn], window_bits=cw if cw else None)
                cpm = PerMessageDeflate.create_from_response_accept(False, cacc)
                ce["ceff"] = eff(cpm)
            except Exception:
                ce["raised"] = True
            t.append(ce)
        traces.append(t)
    return traces


HS_FAULTS = {
    "none": b"permessage-deflate",
    "no-extension": None,
    "unknown-extension": b"x-webkit-deflate-frame",
    "pmce-twice": b"permessage-deflate, permessage-deflate",
    "two-different-pmce": b"permessage-deflate, permessage-bzip2",
    "unknown-param": b"permessage-deflate; foo_bar",
    "dup-param": b"permessage-deflate; server_no_context_takeover; server_no_context_takeover",
    "window-out-of-range": [b"permessage-deflate; server_max_window_bits=8", b"permessage-deflate; server_max_window_bits=16",
                            b"permessage-deflate; client_max_window_bits=7", b"permessage-deflate; client_max_window_bits=100"],
    "window-not-int": [b"permessage-deflate; server_max_window_bits=abc", b"permessage-deflate; client_max_window_bits"],
    "param-with-unexpected-value": [b"permessage-deflate; server_no_context_takeover=1", b"permessage-deflate; client_no_context_takeover=x"],
    "declined-by-policy": b"permessage-deflate",
}


def handshakes():
    from autobahn.websocket.compress import PerMessageBzip2Offer
    traces = []
    for fault, hdrs in HS_FAULTS.items():
        for hdr in (hdrs if isinstance(hdrs, list) else [hdrs]):
            def accept(resp, fault=fault):
                if fault == "declined-by-policy":
                    return None
                if isinstance(resp, PerMessageDeflateResponse):
                    return PerMessageDeflateResponseAccept(resp)
                from autobahn.websocket.compress import PerMessageBzip2Response, PerMessageBzip2ResponseAccept
                if isinstance(resp, PerMessageBzip2Response):
                    return PerMessageBzip2ResponseAccept(resp)
            opts = dict(perMessageCompressionOffers=[PerMessageDeflateOffer(), PerMessageBzip2Offer()], perMessageCompressionAccept=accept)
            log = []
            p, t = wsx.make_client(log, opts=opts)
            fw.settle()
            req = t.take()
            key = [ln.split(b":", 1)[1].strip() for ln in req.split(b"\r\n") if ln.lower().startswith(b"sec-websocket-key:")][0]
            resp = (b"HTTP/1.1 101 Switching Protocols\r\nUpgrade: websocket\r\nConnection: Upgrade\r\n"
                    b"Sec-WebSocket-Accept: " + wsx.accept_for(key) + b"\r\n")
            if hdr is not None:
                resp += b"Sec-WebSocket-Extensions: " + hdr + b"\r\n"
            e = fw.feed(p, resp + b"\r\n")
            fw.settle()
            traces.append([dict(ev="hs", fault=fault, header=(hdr or b"").decode(), opened=p.state == WSP.STATE_OPEN,
                                compressed=getattr(p, "_perMessageCompress", None) is not None and p.state == WSP.STATE_OPEN,
                                escaped="" if e is None else type(e).__name__)])
            fw.reset()
    return traces


def main():
    inp = driver_in()
    traces = lattice(inp) if inp["mode"] == "lattice" else handshakes()
    driver_out(dict(fw=fw.NAME, traces=traces, cases=len(traces)))


if __name__ == "__main__":
    main()
