"""G02 driver: random on/off/fire sequences on real ObservableMixin objects (child with a parent), both frameworks."""
import os
import random

from harness import fw
from harness.common import driver_in, driver_out

import txaio
from autobahn.util import ObservableMixin

EVENTS = ["join", "leave", "ready"]


class Obj(ObservableMixin):
    pass


def scenario(rng, nops):
    parent, child = Obj(), Obj()
    for o in (parent, child):
        o.set_valid_events(EVENTS)
    child._parent = parent
    objs = {"child": child, "parent": parent}
    calls = []
    handlers = {}
    for hid in (1, 2, 3):
        for oname in objs:
            def mk(hid=hid, oname=oname):
                def h(*a, **kw):
                    calls.append([oname, hid])
                    if hid == 3:
                        return txaio.create_future_success("async")      # an asynchronous handler
                    return hid
                return h
            handlers[(oname, hid)] = mk()
    trace = []

    def table():
        t = {}
        for oname, o in objs.items():
            t[oname] = {"init": o._listeners is not None}
            for e in EVENTS:
                lst = (o._listeners or {}).get(e, [])
                t[oname][e] = [next(h for (on, h), f in handlers.items() if f is x and on == oname) for x in lst]
        return t
    for _ in range(nops):
        oname = rng.choice(["child", "child", "parent"])
        o = objs[oname]
        op = rng.choice(["on", "on", "off", "fire", "fire"])
        e = rng.choice(EVENTS + ["no-such-event"] if rng.random() < 0.15 else EVENTS)
        hid = rng.choice([1, 2, 3])
        del calls[:]
        err = ""
        ev = dict(ev=op, o=oname, e=e, h=hid)
        try:
            if op == "on":
                o.on(e, handlers[(oname, hid)])
            elif op == "off":
                mode = rng.choice(["all", "event", "handler", "bad"])
                if mode == "all":
                    ev.update(e="", h=0)
                    o.off()
                elif mode == "event":
                    ev.update(h=0)
                    o.off(e)
                elif mode == "handler":
                    o.off(e, handlers[(oname, hid)])
                else:
                    ev.update(e="")
                    o.off(None, handlers[(oname, hid)])
            else:
                o.fire(e, "x", k=1)
                fw.settle()
        except RuntimeError:
            err = "RuntimeError"
        except Exception as x:  # noqa
            err = type(x).__name__
        ev["obs"] = dict(err=err, calls=[list(c) for c in calls], table=table())
        trace.append(ev)
    fw.reset()
    return trace


def main():
    inp = driver_in()
    rng = random.Random(int(os.environ.get("VERIF_SEED", "0")) * 31 + 2)
    traces = [scenario(rng, rng.randrange(3, 25)) for _ in range(inp.get("n", 300))]
    driver_out(dict(fw=fw.NAME, traces=traces, cases=len(traces)))


if __name__ == "__main__":
    main()
