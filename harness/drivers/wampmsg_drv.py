"""C03 / C08 driver.  input: {mode: "cases"|"codes"|"fuzz"|"roundtrip", table: {...}, shard, nshards, n}"""
import copy
import itertools
import json
import os
import random

from harness.common import driver_in, driver_out
from harness import fw  # noqa  (selects the txaio framework)

from autobahn.wamp import message
from autobahn.wamp.exception import InvalidUriError, ProtocolError  # noqa
from autobahn.wamp.serializer import (CBORSerializer, JsonSerializer, MsgPackSerializer, UBJSONSerializer)

def JsonHexSerializer(batched=False):
    """JSON with the "0x.." hex convention for binaries (instead of the default \\0 + base64)"""
    return JsonSerializer(batched=batched, use_binary_hex_encoding=True)


SERS = {"json": JsonSerializer, "msgpack": MsgPackSerializer, "cbor": CBORSerializer, "ubjson": UBJSONSerializer}
RT_SERS = dict(SERS, **{"json-hex": JsonHexSerializer})
FF = [{"session": 1, "authid": "a", "authrole": "r"}]
ROLES = {"subscriber": {"features": {"publisher_identification": True}}, "caller": {}}
WROLES = {"broker": {"features": {"publisher_identification": True}}, "dealer": {}}

# valid example per type: [base list, full options dict (merged into the dict position for "base+all")]
EX = {
    "hello": [1, "realm1", {"roles": ROLES}],
    "welcome": [2, 9129137332, {"roles": WROLES}],
    "abort": [3, {}, "wamp.error.no_such_realm"],
    "challenge": [4, "wampcra", {}],
    "authenticate": [5, "signature", {}],
    "goodbye": [6, {}, "wamp.close.normal"],
    "error": [8, 48, 7, {}, "com.myapp.error.e1", [1], {"k": 2}],
    "publish": [16, 7, {}, "com.myapp.topic1", [1], {"k": 2}],
    "published": [17, 7, 9],
    "subscribe": [32, 7, {}, "com.myapp.topic1"],
    "subscribed": [33, 7, 9],
    "unsubscribe": [34, 7, 9, {}],
    "unsubscribed": [35, 7, {}],
    "event": [36, 7, 9, {}, [1], {"k": 2}],
    "event_received": [337, 9],
    "call": [48, 7, {}, "com.myapp.proc1", [1], {"k": 2}],
    "cancel": [49, 7, {}],
    "result": [50, 7, {}, [1], {"k": 2}],
    "register": [64, 7, {}, "com.myapp.proc1"],
    "registered": [65, 7, 9],
    "unregister": [66, 7, 9, {}],
    "unregistered": [67, 7, {}],
    "invocation": [68, 7, 9, {}, [1], {"k": 2}],
    "interrupt": [69, 7, {}],
    "yield": [70, 7, {}, [1], {"k": 2}],
}
ENUMS = {"match": "prefix", "invoke": "roundrobin", "mode": "kill"}
KEY_VALUES = {"bool": True, "str": "text", "id": 4711, "int": 10, "uri": "com.myapp.x", "strlist": ["a", "b"], "idlist": [1, 2],
              "ff": FF, "anydict": {"x": 1}}


_VAR = [0]
INTKEY_DICTS = [{1: "x"}, {"a": 1, 5: 2}, {"k": "v", "z": 0, b"b": 1}]           # (a string key first: every key must be checked)
BAD_URIS = ["com. x#y", "com.my\u00a0app.topic1", "com.my\x1capp", "com.x\u2028y.z", "com.\u3000.x", "com.myapp.t\u0085"]


def concretise(c, key=""):
    _VAR[0] += 1
    if c == "dict_intkey":
        return copy.deepcopy(INTKEY_DICTS[_VAR[0] % len(INTKEY_DICTS)])
    if c == "str_baduri":
        return BAD_URIS[_VAR[0] % len(BAD_URIS)]
    return {
        "int0": 0, "int1": 1, "int53": 2 ** 53, "int53p": 2 ** 53 + 1, "intneg": -1, "float": 1.5, "true": True, "false": False,
        "null": None, "str_uri": "com.myapp.topic1", "str_loose": "com.myApp.Topic-1", "str_emptycomp": "com..x",
        "str_lastempty": "com.x.", "str_baduri": "com. x#y", "str_empty": "", "str_enum": ENUMS.get(key, "prefix"),
        "bytes": b"\x00\xff", "list_empty": [], "list_ints": [1, 2], "list_strs": ["a", "b"], "list_mixed": [1, "a", None],
        "dict_empty": {}, "dict_str": {"foo": "bar"}, "dict_intkey": {1: "x"}, "ff_ok": copy.deepcopy(FF), "ff_bad": [{"session": "x"}],
    }[c]


def klass(code):
    from autobahn.wamp.serializer import Serializer
    return Serializer.MESSAGE_TYPE_MAP.get(code)


def run_parse(raw):
    """-> (outcome, msg)"""
    try:
        cls = klass(raw[0]) if raw and isinstance(raw[0], int) and not isinstance(raw[0], bool) else None
        if cls is None:
            raise ProtocolError("unknown type")
        m = cls.parse(copy.deepcopy(raw))
        return "Message", m
    except Exception as e:  # noqa
        return type(e).__name__, None


def _nonstr_keys(x):
    if isinstance(x, (list, tuple)):
        return any(_nonstr_keys(i) for i in x)
    if isinstance(x, dict):
        return any(not isinstance(k, str) or _nonstr_keys(v) for k, v in x.items())
    return False


def jsonable(x):
    try:
        json.dumps(x)
        return not _has_bytes(x) and not _nonstr_keys(x)      # JSON cannot express bytes or non-string keys
    except Exception:  # noqa
        return False


def _has_bytes(x):
    if isinstance(x, bytes):
        return True
    if isinstance(x, (list, tuple)):
        return any(_has_bytes(i) for i in x)
    if isinstance(x, dict):
        return any(_has_bytes(k) or _has_bytes(v) for k, v in x.items())
    return False


def through_serializers(raw):
    """the raw structure encoded by each wire format (independently of autobahn's marshal) and handed to unserialize()"""
    out = []
    import cbor2
    import msgpack
    encs = {}
    if jsonable(raw):
        encs["json"] = json.dumps(raw).encode()
    try:
        encs["msgpack"] = msgpack.packb(raw, use_bin_type=True)
    except Exception:  # noqa
        pass
    try:
        encs["cbor"] = cbor2.dumps(raw)
    except Exception:  # noqa
        pass
    for name, data in encs.items():
        try:
            msgs = SERS[name]().unserialize(data)
            o = "Message" if len(msgs) == 1 else "Count%d" % len(msgs)
        except Exception as e:  # noqa
            o = type(e).__name__
        out.append(dict(ser=name, outcome=o))
    return out


def norm(x):
    if isinstance(x, tuple):
        return [norm(i) for i in x]
    if isinstance(x, list):
        return [norm(i) for i in x]
    if isinstance(x, dict):
        return {k: norm(v) for k, v in x.items()}
    return x


def run_cases(inp):
    traces = []
    table = inp["table"]
    cases, types = table["cases"], table["types"]
    from autobahn.wamp import role as _role
    import inspect as _inspect
    expanded = []
    for c in cases:
        if c["what"] == "features":
            roles = ("subscriber", "publisher", "caller", "callee") if c["t"] == "hello" else ("broker", "dealer")
            for r in roles:
                feats = [f for f in _inspect.signature(_role.ROLE_NAME_TO_CLASS[r].__init__).parameters if f not in ("self", "kwargs")]
                for a, b in zip(feats, feats[1:]):
                    expanded.append(dict(c, key="%s.%s,%s" % (r, a, b)))
                expanded.append(dict(c, key="%s.%s" % (r, ",".join(feats))))
            continue
        if c["what"] != "feature":
            expanded.append(c)
            continue
        roles = ("subscriber", "publisher", "caller", "callee") if c["t"] == "hello" else ("broker", "dealer")
        for r in roles:
            for feat in _inspect.signature(_role.ROLE_NAME_TO_CLASS[r].__init__).parameters:
                if feat in ("self", "kwargs"):
                    continue
                expanded.append(dict(c, key="%s.%s" % (r, feat)))
    cases = expanded
    for idx in range(inp["shard"], len(cases), inp["nshards"]):
        c = cases[idx]
        t = c["t"]
        raw = copy.deepcopy(EX[t])
        ty = types[t]
        check = None
        if c["what"] == "pos":
            v = concretise(c["c"])
            while len(raw) <= c["i"]:
                raw.append({} if ty["pos"][len(raw) - 1] in ("dict", "kwargs") else [])
            raw[c["i"]] = v
            check = ("pos", c["i"], v)
        elif c["what"] == "key":
            v = concretise(c["c"], c["key"])
            while len(raw) <= c["i"]:
                raw.append({})
            d = dict(raw[c["i"]])
            d[c["key"]] = v
            raw[c["i"]] = d
            check = ("key", c["i"], c["key"], v)
        elif c["what"] == "feature":
            r, feat = c["key"].split(".")
            v = concretise(c["c"])
            d = copy.deepcopy(raw[2])
            d["roles"] = {r: {"features": {feat: v}}}
            raw[2] = d
            check = ("feature", r, feat, v)
        elif c["what"] == "features":
            r, fl = c["key"].split(".")
            fl = fl.split(",")
            d = copy.deepcopy(raw[2])
            d["roles"] = {r: {"features": {f: True for f in fl}}}
            raw[2] = d
            check = ("features", r, fl)
        elif c["what"] == "pt":
            ai = ty["pos"].index("args") + 1
            raw = raw[:ai]
            while len(raw) <= ty["optpos"]:
                raw.append({})
            algo = {"algo_true": True, "algo_int": 1, "algo_list": [1], "algo_bytes": b"x"}.get(c["key"], "cryptobox")
            raw[ty["optpos"]] = dict(raw[ty["optpos"]], enc_algo=algo)
            raw.append(b"\x01opaque\xff")
            if c["key"].startswith("extra"):
                raw.append({} if c["key"] == "extra_dict" else [1])
        elif c["what"] == "role":
            r = c["key"]
            v = concretise(c["c"])
            own = ("subscriber", "publisher", "caller", "callee") if t == "hello" else ("broker", "dealer")
            d = copy.deepcopy(raw[2])
            d["roles"] = {r: v} if r in own else {own[idx % len(own)]: {}, r: v}
            raw[2] = d
            check = ("role", r, v)
        elif c["what"] == "reqtype":
            raw[1] = c["i"]
            check = ("pos", 1, c["i"])
        elif c["what"] == "len":
            n = c["i"]
            if n < len(raw):
                raw = raw[:n]
            else:
                kinds = ty["pos"]
                while len(raw) < n:
                    k = kinds[len(raw) - 1] if len(raw) - 1 < len(kinds) else "extra"
                    raw.append({"dict": {}, "kwargs": {}, "args": []}.get(k, 1))
        outcome, m = run_parse(raw)
        preserved, idem = False, False
        if m is not None:
            try:
                out = m.marshal()
                o2, m2 = run_parse(out)
                idem = o2 == "Message" and norm(m2.marshal()) == norm(out)
                if check is None:
                    preserved = all(norm(out[i]) == norm(raw[i]) for i in range(min(len(raw), len(out)))) if c["what"] == "base" else True
                elif check[0] == "features":
                    f = out[2].get("roles", {}).get(check[1], {}).get("features", {})
                    preserved = all(f.get(x) is True for x in check[2])
                elif check[0] == "feature":
                    f = out[2].get("roles", {}).get(check[1], {}).get("features", {})
                    preserved = f.get(check[2]) == check[3] or (check[3] in (False, None) and check[2] not in f)
                elif check[0] == "role":
                    preserved = check[1] in out[2].get("roles", {}) or c["verdict"] == "either"
                elif check[0] == "pos":
                    i = check[1]
                    preserved = i < len(out) and norm(out[i]) == norm(check[2]) or (check[2] in ([], {}, None) and i >= len(out)) \
                        or (ty["pos"][i - 1] in ("args", "kwargs") and check[2] in ([], {}, None))
                else:
                    i, k, v = check[1], check[2], check[3]
                    preserved = i < len(out) and isinstance(out[i], dict) and norm(out[i].get(k)) == norm(v)
                    if v in (False, "", [], {}) and not (i < len(out) and isinstance(out[i], dict) and k in out[i]):
                        preserved = True          # a default value may be omitted by marshal()
            except Exception as e:  # noqa
                outcome = "marshal:" + type(e).__name__
        ev = dict(ev="case", t=t, what=c["what"], i=c["i"], key=c["key"], c=c["c"], kind=c["kind"], outcome=outcome,
                  preserved=bool(preserved), idempotent=bool(idem), ser=through_serializers(raw), raw=repr(raw)[:160])
        traces.append([ev])
    return traces


def run_codes(inp):
    traces = []
    for code in [0, 7, 9, 15, 18, 31, 37, 47, 51, 63, 71, 336, 338, 999, -1, 2 ** 53, 1.0, "1", None, True, [], {}, [1], b"\x01"]:
        for rest in ([1, {}], [], [1, 2, 3, 4, 5, 6, 7]):
            raw = [code] + rest
            for s in through_serializers(raw):
                traces.append([dict(ev="code", code=repr(code), ser=s["ser"], outcome=s["outcome"])])
    for empty in ([], {}, "x", 5, None, [[]]):
        for s in through_serializers(empty):
            traces.append([dict(ev="code", code="toplevel:" + repr(empty), ser=s["ser"], outcome=s["outcome"])])
    return traces


def run_fuzz(inp, rng):
    traces = []
    valid = {}
    for name, S in SERS.items():
        ser = S()
        valid[name] = [ser.serialize(klass(EX[t][0]).parse(copy.deepcopy(EX[t])))[0] for t in EX]
    for i in range(inp["n"]):
        name = rng.choice(list(SERS))
        batched = rng.random() < 0.3
        ser = SERS[name](batched=batched)
        kind = rng.choice(["random", "bitflip", "truncate", "concat", "deep", "huge-int", "delimiters"])
        base = rng.choice(valid[name])
        if kind == "random":
            data = bytes(rng.getrandbits(8) for _ in range(rng.randint(0, 60)))
        elif kind == "bitflip":
            d = bytearray(base)
            for _ in range(rng.randint(1, 3)):
                if d:
                    d[rng.randrange(len(d))] ^= 1 << rng.randrange(8)
            data = bytes(d)
        elif kind == "truncate":
            data = base[:rng.randrange(len(base) + 1)]
        elif kind == "concat":
            data = base + rng.choice(valid[name])
        elif kind == "deep":
            data = {"json": b"[" * 200 + b"]" * 200, "msgpack": b"\x91" * 300 + b"\x01", "cbor": b"\x81" * 300 + b"\x01",
                    "ubjson": b"[" * 300 + b"]" * 300}[name]
        elif kind == "huge-int":
            data = {"json": b"[33, 1e400, 2]", "msgpack": b"\x93\x21\xcf\xff\xff\xff\xff\xff\xff\xff\xff\x02",
                    "cbor": b"\x83\x18\x21\x1b\xff\xff\xff\xff\xff\xff\xff\xff\x02", "ubjson": b"[i\x21HU\x05[i\x02]"}[name]
        else:
            data = rng.choice([b"\x18", b"\x18\x18", b"\x00\x00\x00\x01", b"\x00\x00\x00\xff" + base, b"\xff\xff\xff\xff", base + b"\x18", b"\x18" + base])
        try:
            msgs = ser.unserialize(data)
            o = "Message"
        except Exception as e:  # noqa
            o = type(e).__name__
        traces.append([dict(ev="fuzz", ser=name, batched=batched, kind=kind, outcome=o, data=list(data[:80]))])
    return traces


PAYLOADS = [([], None), ([1], None), ([1, "two", 3.5, None, True], {"a": 1}), ([], {"k": [1, [2, {"n": None}]], "ü": "ä𝄞"}),
            ([2 ** 31, 2 ** 53, -2 ** 31, 0], {"big": 2 ** 53}), ([b"\x00\xff\x10"], {"bin": b""}), ([{"n": {"m": [1, {"d": "deep"}]}}], {})]
IDS = [0, 1, 2 ** 53]


def build_variants(t, ty, rng, thorough, cases=()):
    """valid raw messages of type t: option subsets with boundary values"""
    base = copy.deepcopy(EX[t])
    keys = ty["keys"]
    out = []
    optpos = ty["optpos"]
    id_positions = [i + 1 for i, k in enumerate(ty["pos"]) if k == "id"]

    def with_opts(sel, idv, payload):
        raw = copy.deepcopy(base)
        for i in id_positions:
            if i < len(raw):
                raw[i] = idv
        if optpos:
            while len(raw) <= optpos:
                raw.append({})
            d = dict(raw[optpos])
            for k in sel:
                kind = k["kind"]
                if kind == "cond":
                    continue          # only valid in combination with other fields (request 0 / resume_token)
                if kind == "optid":
                    kind = "id"
                d[k["k"]] = ENUMS[k["k"]] if kind == "enum" else copy.deepcopy(KEY_VALUES[kind])
                if kind == "id":
                    d[k["k"]] = idv if idv != 0 else 1
                if kind == "ff":
                    d[k["k"]] = copy.deepcopy(FF) * rng.choice([1, 2])
            raw[optpos] = d
        if "args" in ty["pos"] and payload is not None:
            ai = ty["pos"].index("args") + 1
            raw = raw[:ai]
            a, kw = payload
            if kw is not None:
                raw += [copy.deepcopy(a), copy.deepcopy(kw)]
            elif a:
                raw += [copy.deepcopy(a)]
        return raw
    subsets = [[]] + [[k] for k in keys] + [list(keys)]
    if thorough and len(keys) <= 8:
        subsets = [list(c) for r in range(len(keys) + 1) for c in itertools.combinations(keys, r)]
    elif thorough:
        subsets += [list(c) for c in itertools.combinations(keys, 2)]
    for sel in subsets:
        # subscribe/register with match: keep uri compatible
        out.append(with_opts(sel, rng.choice(IDS[1:] if t in ("unsubscribed", "unregistered") else IDS), rng.choice(PAYLOADS)))
    # every positional element in every value class the grammar accepts for it (null realms, loosely spelled URIs, ...)
    for c in cases:
        if c["t"] == t and c["what"] == "pos" and c["verdict"] == "accept" and c["c"] in ("null", "str_uri", "str_loose", "str_enum", "str_empty",
                                                                                     "str_emptycomp", "str_lastempty"):
            raw = copy.deepcopy(base)
            if c["i"] < len(raw):
                raw[c["i"]] = concretise(c["c"])
                out.append(raw)
                if c["c"] == "str_loose" and ty["pos"][c["i"] - 1] == "uri_null":
                    for realm in ("r1", "1st.realm", "re\u00e4lm.\u20ac", "a"):
                        r2 = copy.deepcopy(base)
                        r2[c["i"]] = realm
                        out.append(r2)
    if t in ("subscribe", "register"):
        for match, uris in (("wildcard", ["com.myapp..create", "com..proc", ".x.y", "com.myapp.x"]), ("prefix", ["com.myapp", "com.myapp.topic"]),
                            ("exact", ["com.myapp.topic1"])):
            for u in uris:
                raw = copy.deepcopy(base)
                raw[2] = {"match": match}
                raw[3] = u
                out.append(raw)
                if t == "register":
                    for inv in ("single", "roundrobin", "random", "first", "last"):
                        r2 = copy.deepcopy(raw)
                        r2[2]["invoke"] = inv
                        out.append(r2)
    if t == "error":
        for rt in (16, 32, 34, 48, 64, 66, 68):         # an ERROR for every kind of request
            raw = copy.deepcopy(base)
            raw[1] = rt
            out.append(raw)
    if t in ("hello", "welcome"):
        from autobahn.wamp import role as _role
        import inspect as _inspect
        for r in (("subscriber", "publisher", "caller", "callee") if t == "hello" else ("broker", "dealer")):
            feats = [f for f in _inspect.signature(_role.ROLE_NAME_TO_CLASS[r].__init__).parameters if f not in ("self", "kwargs")]
            for sel in ([feats] + [list(p) for p in zip(feats, feats[1:])]):
                raw = copy.deepcopy(base)
                d = copy.deepcopy(raw[2])
                d["roles"] = {r: {"features": {f: True for f in sel}}}
                raw[2] = d
                out.append(raw)
        raw = copy.deepcopy(base)                          # all roles at once, two features each
        d = copy.deepcopy(raw[2])
        d["roles"] = {}
        for r in (("subscriber", "publisher", "caller", "callee") if t == "hello" else ("broker", "dealer")):
            feats = [f for f in _inspect.signature(_role.ROLE_NAME_TO_CLASS[r].__init__).parameters if f not in ("self", "kwargs")]
            d["roles"][r] = {"features": {f: True for f in feats[:2]}}
        raw[2] = d
        out.append(raw)
    # the keys that are only valid in certain combinations, in each valid combination
    if t in ("unsubscribed", "unregistered"):
        idk = "subscription" if t == "unsubscribed" else "registration"
        why = "wamp.%s.revoked" % idk
        for raw in ([base[0], 7, {"reason": why}],                       # a reason for an unsubscribe the client asked for
                    [base[0], 0, {idk: 5}],                              # revoked by the router: request 0, the id in the details
                    [base[0], 0, {idk: 5, "reason": why}], [base[0], 0, {idk: 9007199254740992, "reason": "com.myapp.gone"}]):
            out.append(copy.deepcopy(raw))
    if t == "welcome":
        raw = copy.deepcopy(base)
        raw[2] = dict(raw[2], resumable=True, resume_token="tok-1")
        out.append(raw)
        raw = copy.deepcopy(base)
        raw[2] = dict(raw[2], resumed=True, resumable=False, resume_token="tok-2")
        out.append(raw)
    for idv in IDS:
        if idv == 0 and t in ("unsubscribed", "unregistered"):
            continue                  # request 0 = revoked by the router, needs the id detail (covered by the C08 cases)
        out.append(with_opts([], idv, PAYLOADS[0]))
    for p in PAYLOADS:
        out.append(with_opts([], 1, p))
    # payload transparency triple
    if "args" in ty["pos"] and t != "error" or t == "error":
        ai = ty["pos"].index("args") + 1
        for triple in ({"enc_algo": "cryptobox"}, {"enc_algo": "cryptobox", "enc_key": "k1"}, {"enc_algo": "mqtt", "enc_serializer": "json"},
                       {"enc_algo": "xbr", "enc_key": "k", "enc_serializer": "cbor"}):
            # ... alone, with every other option / detail key, and with all of them: the opaque payload form must not
            # change how the rest of the message is read or written
            for sel in [[]] + [[k] for k in keys if not k["k"].startswith("enc_")] + [[k for k in keys if not k["k"].startswith("enc_")]]:
                raw = with_opts(sel, 1, None)[:ai]
                d = dict(raw[optpos])
                d.update(triple)
                raw[optpos] = d
                raw.append(b"\x01\x02opaque\xff")
                out.append(raw)
    return out


def run_roundtrip(inp, rng):
    traces = []
    types = inp["table"]["types"]
    thorough = inp.get("thorough", False)
    names = sorted(types)
    for ti in range(inp["shard"], len(names), inp["nshards"]):
        t = names[ti]
        ty = types[t]
        variants = build_variants(t, ty, rng, thorough, inp["table"].get("cases") or ())
        msgs = []
        for raw in variants:
            o, m = run_parse(raw)
            if m is None:
                traces.append([dict(ev="rt", t=t, ser="-", batched=False, n=1, count=0, same=False, typeSame=False, orderSame=False,
                                    binaryFlagOk=False, esc="valid variant rejected: %s %r" % (o, raw))])
                continue
            msgs.append((raw, m))
        for name, S in RT_SERS.items():
            for batched in (False, True):
                ser = S(batched=batched)
                groups = [[x] for x in msgs]
                if batched:
                    groups = []
                    i = 0
                    while i < len(msgs):
                        k = rng.choice([1, 2, 7])
                        groups.append(msgs[i:i + k])
                        i += k
                for g in groups:
                    esc = ""
                    same = type_same = order_same = flag_ok = False
                    count = 0
                    try:
                        if any(_has_bytes(r) for r, _ in g) and name == "json" and False:
                            pass
                        data = b""
                        flag_ok = True
                        for raw, m in g:
                            fresh = klass(raw[0]).parse(copy.deepcopy(raw))      # no cached serialization
                            payload, is_binary = ser.serialize(fresh)
                            flag_ok = flag_ok and (is_binary == ser._serializer.BINARY) and isinstance(payload, bytes)
                            if not is_binary:
                                payload.decode("utf8")                           # text framing must be valid UTF-8
                            data += payload
                        back = ser.unserialize(data)
                        count = len(back)
                        type_same = count == len(g) and all(type(b) is type(m) for b, (_, m) in zip(back, g))
                        order_same = count == len(g) and all(norm(b.marshal()) == norm(m.marshal()) for b, (_, m) in zip(back, g))
                        same = order_same and all(covers(r, b.marshal()) for b, (r, m) in zip(back, g))
                    except Exception as e:  # noqa
                        esc = type(e).__name__ + ":" + str(e)[:80]
                    traces.append([dict(ev="rt", t=t, ser=name, batched=batched, n=len(g), count=count, same=bool(same), typeSame=bool(type_same),
                                        orderSame=bool(order_same), binaryFlagOk=bool(flag_ok), esc=esc, raw=repr(g[0][0])[:140])])
    return traces


def json_bytes_fix(r, name):
    return r


def covers(raw, out):
    """every element / option of the raw input is present, with the same value, in the re-marshalled output"""
    raw, out = norm(raw), norm(out)
    for i, v in enumerate(raw):
        if i >= len(out):
            if v in ([], {}, None):
                continue              # trailing empty payload positions may be omitted
            return False
        if isinstance(v, dict) and isinstance(out[i], dict):
            for k, x in v.items():
                if k == "roles":
                    if k not in out[i]:
                        return False
                    # role feature dicts are expanded with defaults by the library: every announced feature must survive
                    for r, rd in x.items():
                        got = ((out[i][k].get(r) or {}).get("features") or {}) if isinstance(out[i][k], dict) else {}
                        if r not in out[i][k]:
                            return False
                        for f, fv in ((rd or {}).get("features") or {}).items():
                            if fv is True and got.get(f) is not True:
                                return False
                    continue
                if k not in out[i]:
                    if x in (False, "", [], {}, None) or (k, x) in (("match", "exact"), ("invoke", "single")):
                        continue          # default values may be omitted by marshal()
                    return False
                if out[i][k] != x:
                    return False
        elif out[i] != v:
            return False
    return True


def main():
    inp = driver_in()
    rng = random.Random(int(os.environ.get("VERIF_SEED", "0")) * 4001 + inp.get("shard", 0) * 13 + 1)
    mode = inp["mode"]
    if mode == "cases":
        traces = run_cases(inp)
    elif mode == "codes":
        traces = run_codes(inp)
    elif mode == "fuzz":
        traces = run_fuzz(inp, rng)
    else:
        traces = run_roundtrip(inp, rng)
    driver_out(dict(traces=traces, cases=len(traces)))


if __name__ == "__main__":
    main()
