"""C18 driver: a real callee session raises inside a real endpoint; the ERROR travels through every serializer to a real
caller session with a pending call.  All cells of spec/WampError.tla x payload shapes x traceback on/off x serializers."""
import copy
import os
import random

from harness import fw
from harness.common import driver_in, driver_out

import txaio
from autobahn import wamp
from autobahn.wamp import message, types
from autobahn.wamp.exception import ApplicationError
from autobahn.wamp.protocol import ApplicationSession
from autobahn.wamp.types import ComponentConfig, RegisterOptions
from autobahn.wamp.serializer import JsonSerializer, MsgPackSerializer, CBORSerializer, UBJSONSerializer
from autobahn.wamp.role import RoleBrokerFeatures, RoleDealerFeatures

SERS = {"json": JsonSerializer, "msgpack": MsgPackSerializer, "cbor": CBORSerializer, "ubjson": UBJSONSerializer}
SHAPES = [([], {}), ([1], {}), (["a", 2, 3.5], {}), ([], {"k": 1}), ([1, [2, {"n": None}]], {"x": "ü", "y": [1, 2]}), ([b"\x00\xff"], {"b": b"bin"})]


@wamp.error("com.myapp.error.decorated")
class DecoratedError(Exception):
    def __init__(self, *args, **kwargs):
        Exception.__init__(self, *args)
        self.kwargs = kwargs


@wamp.error("com.myapp.error.dual.new")
@wamp.error("com.myapp.error.dual.legacy")
class DualError(Exception):
    """decorated with two URIs: sender and receiver must agree on which one is used"""

    def __init__(self, *args, **kwargs):
        Exception.__init__(self, *args)
        self.kwargs = kwargs


class DefinedError(Exception):
    def __init__(self, *args, **kwargs):
        Exception.__init__(self, *args)
        self.kwargs = kwargs


class DefinedSubError(DefinedError):
    pass


class UndefSubError(DefinedError):
    pass


class AppSubError(ApplicationError):
    """an application error class of its own, registered on the callee, raised with more specific URIs"""


class RedefinedError(Exception):
    """made known to the session twice: the later definition replaces the earlier one"""

    def __init__(self, *args, **kwargs):
        Exception.__init__(self, *args)
        self.kwargs = kwargs


class FixedUriError(ApplicationError):
    """an application error class with a URI of its own (the pattern of the library's TypeCheckError): raised and
    re-constructed from the arguments alone"""

    def __init__(self, *args, **kwargs):
        ApplicationError.__init__(self, "com.myapp.error.fixed", *args, **kwargs)


class UndefinedError(Exception):
    def __init__(self, *args, **kwargs):
        Exception.__init__(self, *args)
        self.kwargs = kwargs


class BadCtor(Exception):
    def __init__(self, only_this_one_positional_argument_and_nothing_else_xyz):
        raise ValueError("constructor refuses")


class T:
    def __init__(self):
        self._serializer = JsonSerializer()
        self.sent = []
        self.transport_details = types.TransportDetails()

    def send(self, msg):
        self.sent.append(msg)

    def isOpen(self):
        return True

    def close(self):
        pass

    @property
    def is_closed(self):
        return txaio.create_future()


class Sess(ApplicationSession):
    def onUserError(self, fail, msg):
        pass


def joined():
    s = Sess(ComponentConfig(realm="realm1"))
    t = T()
    s.onOpen(t)
    fw.settle()
    s.onMessage(message.Welcome(77, {"broker": RoleBrokerFeatures(), "dealer": RoleDealerFeatures()}))
    fw.settle()
    del t.sent[:]
    return s, t


def norm(x):
    """serializer round trips turn tuples into lists"""
    if isinstance(x, (list, tuple)):
        return [norm(i) for i in x]
    if isinstance(x, dict):
        return {k: norm(v) for k, v in x.items()}
    return x


def one(kind, reg, tb, sername, shape, uri_app):
    args, kwargs = copy.deepcopy(shape)
    callee, ct = joined()
    caller, rt = joined()
    callee.traceback_app = tb
    uris = {"decorated": "com.myapp.error.decorated", "defined": "com.myapp.error.defined", "definedsub": "com.myapp.error.definedsub",
            "decorated2": "com.myapp.error.dual.legacy",          # (the decorator nearest to the class is applied first)
            "redefined": "com.myapp.error.redefined.now"}
    callee.define(DecoratedError)
    callee.define(DualError)
    callee.define(DefinedError, "com.myapp.error.defined")
    callee.define(DefinedSubError, "com.myapp.error.definedsub")      # after its base class
    callee.define(RedefinedError, "com.myapp.error.redefined.before")
    callee.define(RedefinedError, "com.myapp.error.redefined.now")
    if kind == "appsub":
        callee.define(AppSubError, "com.myapp.error.appsub")
    cls = {"app": None, "decorated": DecoratedError, "defined": DefinedError, "undefined": UndefinedError,
           "definedsub": DefinedSubError, "undefsub": UndefSubError, "appsub": AppSubError, "appsubundef": AppSubError,
           "decorated2": DualError, "redefined": RedefinedError, "appfixed": FixedUriError}[kind]
    carried = kind in ("app", "appsub", "appsubundef", "appfixed")
    if kind == "appfixed":
        uri_app = "com.myapp.error.fixed"
    if kind in ("appsub", "appsubundef"):
        uri_app = "com.myapp.error.appsub.detail"
    expected_uri = uri_app if carried else uris.get(kind, "wamp.error.runtime_error")
    regcls = None
    if reg == "same":
        regcls = {"decorated": DecoratedError, "defined": DefinedError, "definedsub": DefinedSubError, "decorated2": DualError,
                  "redefined": RedefinedError, "appfixed": FixedUriError}[kind]
        if kind in ("decorated", "decorated2"):
            caller.define(regcls)
        else:
            caller.define(regcls, expected_uri)
    elif reg == "badctor":
        caller.define(BadCtor, expected_uri)

    def endpoint(*a, **kw):
        if kind == "app":
            raise ApplicationError(uri_app, *args, **kwargs)
        if carried and kind != "appfixed":
            raise cls(uri_app, *args, **kwargs)
        raise cls(*args, **kwargs)
    esc = ""
    obs = dict(replied=False, wireUri="", wireArgsSame=False, wireKwargsSame=False, tbOnWire=False, failed=False,
               callerClass="", uriSame=False, argsSame=False, kwargsSame=False, esc="")
    try:
        # callee: register + invocation
        callee.register(endpoint, "com.myapp.proc")
        fw.settle()
        rid = ct.sent[-1].request
        callee.onMessage(message.Registered(rid, 5))
        fw.settle()
        del ct.sent[:]
        callee.onMessage(message.Invocation(900, 5))
        fw.settle()
        errs = [m for m in ct.sent if isinstance(m, message.Error)]
        obs["replied"] = len(errs) == 1 and len(ct.sent) == 1
        if errs:
            em = errs[0]
            obs["wireUri"] = "carried" if (carried and em.error == uri_app) else ("registered" if kind in uris and em.error == uris.get(kind) else ("runtime" if em.error == "wamp.error.runtime_error" else "other:" + str(em.error)))
            wk = dict(em.kwargs or {})
            obs["tbOnWire"] = "traceback" in wk
            wk.pop("traceback", None)
            obs["wireArgsSame"] = norm(em.args or []) == norm(args)
            obs["wireKwargsSame"] = norm(wk) == norm(kwargs)
            # through the serializer
            ser = SERS[sername]()
            payload, _ = ser.serialize(em)
            at_dealer = ser.unserialize(payload)[0]
            # caller: pending call, then the ERROR as the dealer forwards it (request type CALL, the caller's request id)
            fut = caller.call("com.myapp.proc")
            fw.settle()
            creq = rt.sent[-1].request
            fwd = message.Error(message.Call.MESSAGE_TYPE, creq, at_dealer.error, args=at_dealer.args, kwargs=at_dealer.kwargs)
            payload2, _ = ser.serialize(fwd)
            back = ser.unserialize(payload2)[0]
            res = {}
            txaio.add_callbacks(fut, lambda r: res.setdefault("ok", r), lambda f: res.setdefault("err", f.value if hasattr(f, "value") else f))
            caller.onMessage(back)
            fw.settle()
            if "err" in res:
                exc = res["err"]
                obs["failed"] = True
                generic = type(exc) is ApplicationError
                obs["callerClass"] = "generic" if generic else ("registered" if regcls is not None and type(exc) is regcls else "other:" + type(exc).__name__)
                euri = exc.error if isinstance(exc, ApplicationError) else None
                obs["uriSame"] = (euri == em.error) if generic else True
                ek = dict(getattr(exc, "kwargs", {}) or {})
                ek.pop("traceback", None)
                obs["argsSame"] = norm(list(exc.args)) == norm(args)
                obs["kwargsSame"] = norm(ek) == norm(kwargs)
    except Exception as e:  # noqa
        obs["esc"] = type(e).__name__ + ":" + str(e)[:60]
    fw.reset()
    return dict(ev="err", kind=kind, reg=reg, tb=tb, ser=sername, shape=repr(shape)[:60], obs=obs)


def main():
    inp = driver_in()
    rng = random.Random(int(os.environ.get("VERIF_SEED", "0")) * 31 + 7)
    traces = []
    for kind in ("app", "decorated", "decorated2", "defined", "undefined", "definedsub", "undefsub", "appsub", "appsubundef", "redefined", "appfixed"):
        for reg in ("same", "badctor", "none"):
            if reg == "same" and kind in ("app", "undefined", "undefsub", "appsub", "appsubundef"):
                continue      # no class of this driver is registered for an arbitrary / the runtime-error URI
            for tb in (False, True):
                for sername in SERS:
                    for shape in SHAPES:
                        if sername == "json" and any(isinstance(v, bytes) for v in list(shape[0]) + list(shape[1].values())) and False:
                            continue
                        uri_app = rng.choice(["com.myapp.error.custom", "wamp.error.invalid_argument"] + (["com.myapp.error.ünï"] if reg == "none" else []))
                        traces.append([one(kind, reg, tb, sername, shape, uri_app)])
    driver_out(dict(fw=fw.NAME, traces=traces, cases=len(traces)))


if __name__ == "__main__":
    main()
