"""C09 driver: runs one UTF-8 validator implementation against the transition relation exported
from spec/Utf8.tla.  argv: impl (py | nvx0 | nvx1 | nvx2)  mode (wmethod | exhaust | random)  param

Output JSON: {impl, file, cases, mismatches:[...], traces:[...] (for TLC), distinct}
"""
import os
import random
import sys

from harness.common import driver_in, driver_out


def make_factory(impl):
    if impl == "py":
        assert os.environ.get("AUTOBAHN_USE_NVX") == "0"
        from autobahn.websocket.utf8validator import Utf8Validator
        import autobahn.websocket.utf8validator as m
        assert Utf8Validator.__module__ == "autobahn.websocket.utf8validator", Utf8Validator.__module__
        return Utf8Validator, m.__file__
    import _nvx_utf8validator
    from autobahn.websocket.utf8validator import Utf8Validator
    assert Utf8Validator.__module__ == "autobahn.nvx._utf8validator", Utf8Validator.__module__
    want = int(impl[3:])

    def factory():
        v = Utf8Validator()
        if want:
            # the validator's native handle, whatever the wrapper calls it: the one attribute that is a cffi pointer
            ffi = _nvx_utf8validator.ffi
            handles = [x for x in vars(v).values() if isinstance(x, ffi.CData)]
            if len(handles) != 1:
                raise RuntimeError("cannot find the native validator handle on %r" % (vars(v),))
            got = _nvx_utf8validator.lib.nvx_utf8vld_set_impl(handles[0], want)
            if got != want:
                raise RuntimeError("nvx_utf8vld_set_impl: %r != %r" % (got, want))
        return v
    return factory, _nvx_utf8validator.__file__


class Oracle:
    """Fold of the exported Utf8!Step table; mirrors Utf8!Validate."""

    def __init__(self, table):
        self.t = table
        self.reset()

    def reset(self):
        self.st, self.total = "acc", 0

    def validate(self, chunk):
        if self.st == "rej":
            return (False, False, None, self.total)
        st = self.st
        n = len(chunk)
        for i, b in enumerate(chunk):
            st = self.t[st][b]
            if st == "rej":
                n = i
                break
        self.st = st
        self.total += n
        return (st != "rej", st == "acc", n, self.total)


def same(got, exp):
    return got[0] == exp[0] and got[1] == exp[1] and (exp[2] is None or got[2] == exp[2]) and got[3] == exp[3]


def access_and_w(table):
    states = list(table.keys())
    # access strings by BFS from acc
    acc = {"acc": []}
    frontier = ["acc"]
    while frontier:
        nxt = []
        for q in frontier:
            for b in range(256):
                r = table[q][b]
                if r not in acc:
                    acc[r] = acc[q] + [b]
                    nxt.append(r)
        frontier = nxt
    assert set(acc) == set(states), (set(states) - set(acc))

    def out(q):
        return (q != "rej", q == "acc")

    # pairwise shortest distinguishing sequences (outputs observed after every byte, and before the first)
    W = set()
    for i, p in enumerate(states):
        for q in states[i + 1:]:
            if out(p) != out(q):
                continue  # distinguished by the empty sequence
            seen = {(p, q): []}
            fr = [(p, q)]
            found = None
            while fr and found is None:
                nx = []
                for (a, b) in fr:
                    for x in range(256):
                        a2, b2 = table[a][x], table[b][x]
                        if (a2, b2) in seen:
                            continue
                        seen[(a2, b2)] = seen[(a, b)] + [x]
                        if out(a2) != out(b2):
                            found = seen[(a2, b2)]
                            break
                        nx.append((a2, b2))
                    if found:
                        break
                fr = nx
            assert found is not None, ("states not distinguishable", p, q)
            W.add(tuple(found))
    # drop sequences that are prefixes of others (outputs are observed after each byte)
    W = [w for w in W if not any(o != w and o[:len(w)] == w for o in W)]
    return acc, sorted(W)


def run_seq(v, orc, seq, chunks, mism, label):
    """feed seq split according to chunks (list of lengths) into fresh-reset validator; compare every quad"""
    v.reset()
    orc.reset()
    pos = 0
    for n in chunks:
        c = bytes(seq[pos:pos + n])
        pos += n
        got = tuple(v.validate(c))
        exp = orc.validate(c)
        if not same(got, exp):
            if len(mism) < 50:
                mism.append(dict(kind=label, seq=list(seq), chunks=list(chunks), at=pos - n, got=list(got), expected=list(exp)))
            return False
    return True


def record(v, seq, chunks, with_reset=False):
    tr = []
    if with_reset:
        v.reset()
        tr.append({"ev": "reset"})
    pos = 0
    for n in chunks:
        c = bytes(seq[pos:pos + n])
        pos += n
        g = v.validate(c)
        tr.append({"ev": "validate", "chunk": list(c), "valid": bool(g[0]), "eoc": bool(g[1]), "ci": int(g[2]), "ti": int(g[3])})
    return tr


VALID_POOL = ["a", "\x00", "\x7f", "\x80", "߿", "ࠀ", "࿿", "က", "쿿", "퀀", "퟿",
              "", "￿", "\U00010000", "\U0003ffff", "\U00040000", "\U000fffff", "\U00100000", "\U0010ffff",
              "κόσμε", "𝄞"]
BAD_POOL = [b"\x80", b"\xbf", b"\xc0\x80", b"\xc1\xbf", b"\xe0\x80\x80", b"\xe0\x9f\xbf", b"\xed\xa0\x80", b"\xed\xbf\xbf",
            b"\xf0\x80\x80\x80", b"\xf0\x8f\xbf\xbf", b"\xf4\x90\x80\x80", b"\xf5\x80\x80\x80", b"\xff", b"\xfe",
            b"\xc2", b"\xe1\x80", b"\xf1\x80\x80", b"\xc2\x41", b"\xe1\x80\x41", b"\xf1\x80\x80\x41", b"\xf8\x88\x80\x80\x80"]


def gen_stream(rng):
    parts = []
    for _ in range(rng.randint(0, 12)):
        if rng.random() < 0.8:
            parts.append(rng.choice(VALID_POOL).encode("utf8"))
        else:
            parts.append(rng.choice(BAD_POOL))
    if rng.random() < 0.3:
        parts.append(bytes(rng.getrandbits(8) for _ in range(rng.randint(1, 4))))
    return b"".join(parts)


def gen_chunks(rng, n):
    chunks = []
    left = n
    while left > 0:
        k = rng.choice([0, 1, 1, 2, 3, 5, left])
        k = min(k, left)
        chunks.append(k)
        left -= k
    if rng.random() < 0.3:
        chunks.append(0)
    return chunks


def main():
    impl, mode, param = sys.argv[1], sys.argv[2], int(sys.argv[3])
    table = driver_in()
    factory, file = make_factory(impl)
    orc = Oracle(table)
    v = factory()
    mism = []
    traces = []
    cases = 0
    distinct = 0
    if mode == "wmethod":
        acc, W = access_and_w(table)
        k = param
        mids = [()]
        layer = [()]
        for _ in range(k + 1):
            layer = [m + (b,) for m in layer for b in range(256)]
            mids += layer
        for q, p in acc.items():
            for m in mids:
                for w in W:
                    seq = list(p) + list(m) + list(w)
                    cases += 1
                    if cases % 2 == 0:
                        v = factory()  # alternate fresh object / reset()
                    run_seq(v, orc, seq, [1] * len(seq), mism, "wmethod")
                    if k == 0:
                        # the same sequences, whole and byte-at-a-time, go to TLC as traces
                        traces.append(record(v, seq, [1] * len(seq), with_reset=True))
                        traces.append(record(factory(), seq, [len(seq)]))
        distinct = cases
        info = dict(states=len(acc), W=[list(w) for w in W], k=k)
    elif mode == "exhaust":
        L = param
        info = dict(maxlen=L)

        def rec(prefix, depth):
            nonlocal cases
            for b in range(256):
                seq = prefix + [b]
                cases += 1
                run_seq(v, orc, seq, [len(seq)], mism, "exhaust-whole")
                if depth + 1 < L:
                    rec(seq, depth + 1)
        rec([], 0)
        # every split position of every string of length <= min(L,2)... covered by wmethod byte-wise; here: 2-chunk splits for L<=2
        for a in range(256):
            for b in range(256):
                cases += 1
                run_seq(v, orc, [a, b], [1, 1], mism, "exhaust-split")
        distinct = cases
    elif mode == "random":
        rng = random.Random(int(os.environ.get("VERIF_SEED", "0")) * 1000003 + hash(impl) % 1000)
        seen = set()
        info = {}
        for i in range(param):
            s = gen_stream(rng)
            ch = gen_chunks(rng, len(s))
            cases += 1
            seen.add((s, tuple(ch)))
            vv = factory() if i % 3 else v
            traces.append(record(vv, s, ch, with_reset=(vv is v)))
            run_seq(v, orc, s, ch, mism, "random")
            # chunk independence on the implementation itself: final verdict of whole vs chunked
            v.reset()
            whole = tuple(v.validate(s))
            v.reset()
            last = None
            firstbad = None
            for n, c in zip(ch, _split(s, ch)):
                last = tuple(v.validate(c))
                if not last[0] and firstbad is None:
                    firstbad = last
            fin = firstbad or last or (True, True, 0, 0)
            if ch and (fin[0], fin[1], fin[3]) != (whole[0], whole[1], whole[3]):
                if len(mism) < 50:
                    mism.append(dict(kind="chunk-dependence", seq=list(s), chunks=ch, whole=list(whole), chunked=list(fin)))
        distinct = len(seen)
        # long streams
        for i in range(max(1, param // 200)):
            s = b"".join(gen_stream(rng) if rng.random() < 0.02 else rng.choice(VALID_POOL).encode() for _ in range(2000))
            ch = []
            left = len(s)
            while left:
                k = min(left, rng.choice([1, 7, 64, 1000, 4096]))
                ch.append(k)
                left -= k
            cases += 1
            run_seq(v, orc, s, ch, mism, "random-long")
    else:
        raise SystemExit("bad mode")
    driver_out(dict(impl=impl, file=file, cases=cases, distinct=distinct, mismatches=mism, traces=traces, info=info))


def _split(s, ch):
    pos = 0
    for n in ch:
        yield s[pos:pos + n]
        pos += n


if __name__ == "__main__":
    main()
