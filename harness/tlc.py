"""TLC runner: exhaustive / simulation runs, batch trace validation, output parsing.

Everything TLC writes goes below /verif/.work/<run>/ (never /tmp).  All functions return
plain dicts so the evidence writer can embed them.
"""
import json
import os
import re
import shutil
import subprocess
import time
import uuid

VERIF = os.path.dirname(os.path.dirname(os.path.abspath(__file__)))
SPEC = os.path.join(VERIF, "spec")
WORK = os.path.join(VERIF, ".work")
JAR = "/opt/veriftools/tla/tla2tools.jar:/opt/veriftools/tla/CommunityModules-deps.jar"


class TlcMachineryError(Exception):
    pass


def workdir(tag):
    d = os.path.join(WORK, "%s-%s" % (tag, uuid.uuid4().hex[:8]))
    os.makedirs(d, exist_ok=True)
    return d


def cleanup(d):
    shutil.rmtree(d, ignore_errors=True)


_RE_STATES = re.compile(r"^(\d+) states generated, (\d+) distinct states found, (\d+) states left on queue")
_RE_COV = re.compile(r"^<(\w+) line (\d+), col \d+ to line \d+, col \d+ of module (\w+)>: (\d+):(\d+)")
_RE_DEPTH = re.compile(r"^The depth of the complete state graph search is (\d+)")


def run_tlc(module, cfg, workers=8, env=None, extra=None, timeout=3600, coverage=True,
            deque=False, tag=None, heap="4g", keep=False, spec_dir=SPEC):
    """Run TLC on spec/<module>.tla with spec/<cfg>.  Returns a dict:
    ok, exit, generated, distinct, depth, coverage{action: [distinct, generated]},
    violated (list of str), printed (list of raw PrintT lines), out (full text), wall_s."""
    wd = workdir(tag or module)
    cmd = ["java", "-Djava.io.tmpdir=" + wd, "-XX:+UseParallelGC", "-Xss32m", "-Xmx" + heap]       # (TLC's scratch directories go with the work dir)
    if deque:
        cmd.append("-Dtlc2.tool.queue.IStateQueue=StateDeque")
    cmd += ["-cp", JAR, "tlc2.TLC", "-workers", str(workers), "-metadir", os.path.join(wd, "meta"),
            "-noGenerateSpecTE", "-config", os.path.join(spec_dir, cfg)]
    if coverage:
        cmd += ["-coverage", "1"]
    if extra:
        cmd += list(extra)
    cmd.append(os.path.join(spec_dir, module + ".tla"))
    e = dict(os.environ)
    e.pop("JAVA_TOOL_OPTIONS", None)
    if env:
        e.update({k: str(v) for k, v in env.items()})
    t0 = time.time()
    try:
        p = subprocess.run(cmd, cwd=wd, env=e, stdout=subprocess.PIPE, stderr=subprocess.STDOUT,
                           timeout=timeout, text=True, errors="replace")
        out, code = p.stdout, p.returncode
    except subprocess.TimeoutExpired as ex:
        out = (ex.stdout or b"")
        if isinstance(out, bytes):
            out = out.decode("utf8", "replace")
        out += "\nTIMEOUT"
        code = -9
    wall = time.time() - t0
    res = parse_tlc_output(out)
    res.update(exit=code, wall_s=round(wall, 2), cmd=" ".join(cmd[cmd.index("tlc2.TLC"):]))
    res["ok"] = (code == 0 and not res["violated"] and not res["errors"])
    if keep:
        res["workdir"] = wd
    else:
        cleanup(wd)
    return res


def parse_tlc_output(out):
    generated = distinct = depth = None
    cov = {}
    violated, errors, printed = [], [], []
    for line in out.splitlines():
        m = _RE_STATES.match(line)
        if m:
            generated, distinct = int(m.group(1)), int(m.group(2))
            continue
        m = _RE_COV.match(line)
        if m:
            name = m.group(1)
            d, g = int(m.group(4)), int(m.group(5))
            if name in cov:
                cov[name] = [cov[name][0] + d, cov[name][1] + g]
            else:
                cov[name] = [d, g]
            continue
        m = _RE_DEPTH.match(line)
        if m:
            depth = int(m.group(1))
            continue
        if line.startswith("Error:"):
            if "is violated" in line or "violated" in line:
                violated.append(line[6:].strip())
            else:
                errors.append(line[6:].strip())
        elif line.startswith("<<\"") or line.startswith("[") and "|->" in line:
            printed.append(line)
    return dict(generated=generated, distinct=distinct, depth=depth, coverage=cov,
                violated=violated, errors=errors, printed=printed, out=out)


def sany(module, spec_dir=SPEC):
    cmd = ["java", "-cp", JAR, "tla2sany.SANY", os.path.join(spec_dir, module + ".tla")]
    p = subprocess.run(cmd, cwd=spec_dir, stdout=subprocess.PIPE, stderr=subprocess.STDOUT, text=True)
    ok = p.returncode == 0 and "Semantic errors" not in p.stdout and "Parse Error" not in p.stdout \
        and "Fatal errors" not in p.stdout and "*** Errors" not in p.stdout
    return ok, p.stdout


# --------------------------------------------------------------------------------------
# Batch trace validation.
#
# A trace spec reads JsonDeserialize(IOEnv.TRACE_FILE) = sequence of traces (each a sequence
# of event records), explores tid \in 1..N, stores in TLC register tid the highest position
# reached, and its POSTCONDITION prints <<"REJECT", tid, l>> for each trace not fully
# consumed, and <<"ACCEPTED", n>> with the number of accepted traces.
# --------------------------------------------------------------------------------------

_RE_REJECT = re.compile(r'<<"REJECT", (\d+), (\d+)>>')
_RE_ACCEPT = re.compile(r'<<"ACCEPTED", (\d+)>>')
_RE_KNOWN = re.compile(r'<<"KNOWN", (\d+), "([^"]*)">>')


def validate_traces(module, cfg, traces, env=None, shards=1, timeout=3600, tag=None, deque=True,
                    heap="3g", extra=None):
    """Validate `traces` (list of lists of event dicts) against trace spec `module`.
    Returns dict(accepted, rejected=[(index, prefix_len)], known=[(index, what)], n, wall_s, generated, distinct).
    Raises TlcMachineryError when TLC itself fails."""
    n = len(traces)
    if n == 0:
        return dict(accepted=0, rejected=[], known=[], n=0, wall_s=0.0, generated=0, distinct=0, coverage={})
    shards = max(1, min(shards, n))
    # very large batches are validated in rounds so that no single TLC instance has to parse more than ~48 MB of JSON
    if n > shards:
        step = max(1, n // 400)
        approx = len(json.dumps(traces[::step], separators=(",", ":"))) * step
        rounds = int(approx // (shards * 48 * 1024 * 1024)) + 1
        if rounds > 1:
            merged = dict(accepted=0, rejected=[], known=[], n=n, wall_s=0.0, generated=0, distinct=0, coverage={})
            size = (n + rounds - 1) // rounds
            for k in range(rounds):
                a = k * size
                part = validate_traces(module, cfg, traces[a:a + size], env=env, shards=shards, timeout=timeout, tag=tag, deque=deque,
                                       heap=heap, extra=extra)
                merged["accepted"] += part["accepted"]
                merged["rejected"] += [(i + a, l) for i, l in part["rejected"]]
                merged["known"] += [(i + a, w) for i, w in part["known"]]
                merged["wall_s"] += part["wall_s"]
                merged["generated"] += part["generated"]
                merged["distinct"] += part["distinct"]
                for ck, cv in part["coverage"].items():
                    old = merged["coverage"].get(ck)
                    merged["coverage"][ck] = cv if old is None else [old[0] + cv[0], old[1] + cv[1]] if isinstance(cv, (list, tuple)) else cv
            return merged
    wd = workdir(tag or module)
    bounds = [(i * n // shards, (i + 1) * n // shards) for i in range(shards)]
    procs = []
    t0 = time.time()
    for si, (a, b) in enumerate(bounds):
        tf = os.path.join(wd, "traces_%d.json" % si)
        with open(tf, "w") as f:
            json.dump(traces[a:b], f, separators=(",", ":"))
        swd = os.path.join(wd, "s%d" % si)
        os.makedirs(swd)
        cmd = ["java", "-Djava.io.tmpdir=" + swd, "-XX:+UseParallelGC", "-XX:ParallelGCThreads=2", "-XX:CICompilerCount=2", "-Xss32m", "-Xmx" + heap]
        if deque:
            cmd.append("-Dtlc2.tool.queue.IStateQueue=StateDeque")
        cmd += ["-cp", JAR, "tlc2.TLC", "-workers", "1", "-metadir", os.path.join(swd, "meta"),
                "-noGenerateSpecTE", "-coverage", "1", "-config", os.path.join(SPEC, cfg)]
        if extra:
            cmd += list(extra)
        cmd.append(os.path.join(SPEC, module + ".tla"))
        e = dict(os.environ)
        e.pop("JAVA_TOOL_OPTIONS", None)
        e["TRACE_FILE"] = tf
        if env:
            e.update({k: str(v) for k, v in env.items()})
        lf = open(os.path.join(swd, "out.txt"), "w")
        procs.append((subprocess.Popen(cmd, cwd=swd, env=e, stdout=lf, stderr=subprocess.STDOUT), lf, swd, a, b))
    accepted = 0
    rejected, known = [], []
    generated = distinct = 0
    cov = {}
    fail = None
    for p, lf, swd, a, b in procs:
        try:
            p.wait(timeout=max(1, timeout - (time.time() - t0)))
        except subprocess.TimeoutExpired:
            p.kill()
            fail = "TLC trace validation timed out"
        lf.close()
        out = open(os.path.join(swd, "out.txt"), errors="replace").read()
        r = parse_tlc_output(out)
        acc = _RE_ACCEPT.findall(out)
        if not acc:
            i = out.find("Error:")
            fail = fail or ("TLC trace validation produced no verdict:\n" + (out[i:i + 2500] if i >= 0 else out[-3000:]))
            continue
        if r["errors"] and not any("Postcondition" in x or "postcondition" in x for x in r["errors"]):
            # evaluation errors make the verdict untrustworthy
            bad = [x for x in r["errors"] if "ostcondition" not in x]
            if bad:
                fail = fail or ("TLC error during trace validation: %s\n%s" % (bad[0], out[-3000:]))
                continue
        accepted += int(acc[-1])
        for tid, l in _RE_REJECT.findall(out):
            rejected.append((a + int(tid) - 1, int(l)))
        for tid, what in _RE_KNOWN.findall(out):
            known.append((a + int(tid) - 1, what))
        generated += r["generated"] or 0
        distinct += r["distinct"] or 0
        for k, v in r["coverage"].items():
            c = cov.setdefault(k, [0, 0])
            c[0] += v[0]
            c[1] += v[1]
    wall = time.time() - t0
    cleanup(wd)
    if fail:
        raise TlcMachineryError(fail)
    if accepted + len(rejected) != n:
        raise TlcMachineryError("trace accounting mismatch: %d accepted + %d rejected != %d" % (accepted, len(rejected), n))
    return dict(accepted=accepted, rejected=sorted(rejected), known=known, n=n, wall_s=round(wall, 2),
                generated=generated, distinct=distinct, coverage=cov)


def simulate(module, cfg, num, depth, seed, env=None, timeout=600, tag=None, workers=1, spec_dir=SPEC):
    """tlc -simulate file=...: returns list of behaviours; each behaviour = list of (action_name, state_text)."""
    wd = workdir(tag or (module + "-sim"))
    prefix = os.path.join(wd, "b")
    cmd = ["java", "-Djava.io.tmpdir=" + wd, "-XX:+UseParallelGC", "-Xmx2g", "-cp", JAR, "tlc2.TLC", "-workers", str(workers),
           "-metadir", os.path.join(wd, "meta"), "-noGenerateSpecTE", "-config", os.path.join(spec_dir, cfg),
           "-simulate", "file=%s,num=%d" % (prefix, num), "-depth", str(depth), "-seed", str(seed),
           os.path.join(spec_dir, module + ".tla")]
    e = dict(os.environ)
    e.pop("JAVA_TOOL_OPTIONS", None)
    if env:
        e.update({k: str(v) for k, v in env.items()})
    t0 = time.time()
    p = subprocess.run(cmd, cwd=wd, env=e, stdout=subprocess.PIPE, stderr=subprocess.STDOUT, timeout=timeout,
                       text=True, errors="replace")
    files = sorted(f for f in os.listdir(wd) if f.startswith("b_") or f.startswith("b"))
    behaviours = []
    for f in files:
        fp = os.path.join(wd, f)
        if os.path.isfile(fp):
            behaviours.append(open(fp).read())
    cleanup(wd)
    return dict(out=p.stdout, exit=p.returncode, files=behaviours, wall_s=round(time.time() - t0, 2))


# ---------------------------------------------------------------- behaviours written by `-simulate file=`
def _tla_value(s, i=0):
    """tiny parser for the TLA+ values TLC prints in state dumps: ints, booleans, strings, <<tuples>>, {sets}, [records]"""
    n = len(s)
    while i < n and s[i].isspace():
        i += 1
    if s.startswith("<<", i):
        i += 2
        out = []
        while True:
            while s[i].isspace():
                i += 1
            if s.startswith(">>", i):
                return out, i + 2
            v, i = _tla_value(s, i)
            out.append(v)
            while s[i].isspace():
                i += 1
            if s[i] == ",":
                i += 1
    if s[i] == "{":
        i += 1
        out = []
        while True:
            while s[i].isspace():
                i += 1
            if s[i] == "}":
                return out, i + 1
            v, i = _tla_value(s, i)
            out.append(v)
            while s[i].isspace():
                i += 1
            if s[i] == ",":
                i += 1
    if s[i] == "[":
        i += 1
        out = {}
        while True:
            while s[i].isspace():
                i += 1
            if s[i] == "]":
                return out, i + 1
            j = s.index("|->", i)
            k = s[i:j].strip()
            v, i = _tla_value(s, j + 3)
            out[k] = v
            while s[i].isspace():
                i += 1
            if s[i] == ",":
                i += 1
    if s[i] == '"':
        j = s.index('"', i + 1)
        return s[i + 1:j], j + 1
    j = i
    while j < n and (s[j].isalnum() or s[j] in "-_"):
        j += 1
    tok = s[i:j]
    if tok == "TRUE":
        return True, j
    if tok == "FALSE":
        return False, j
    return int(tok), j


def parse_behaviour(text):
    """-> list of (action name, {variable: python value}) for one behaviour file of `tlc -simulate file=...`"""
    import re
    out = []
    for m in re.finditer(r"\\\* <(\w+)(?:\(([^)]*)\))? [^>]*>\s*\nSTATE_\d+ ==\s*\n((?:/\\ .*\n)+)", text):
        act, body = m.group(1) + (("(" + m.group(2) + ")") if m.group(2) is not None else ""), m.group(3)
        st = {}
        for line in body.strip().split("\n"):
            mm = re.match(r"/\\ (\w+) = (.*)$", line.strip())
            if mm:
                st[mm.group(1)] = _tla_value(mm.group(2))[0]
        out.append((act, st))
    return out
