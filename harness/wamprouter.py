"""A scripted router end for real WAMP *client* transports (WebSocket and RawSocket), played by the driver over fw.Transport.

    conn = RouterConn(kind, proto, transport, ser_id="json")
    conn.poll()            -> list of WAMP messages newly written by the client (answers the transport handshake on the way,
                              unless conn.fail_handshake is set; answers a WebSocket close frame; records .closed_by_client)
    conn.send(msg)         -> one WAMP message to the client
    conn.lose(clean)       -> the TCP connection goes away
"""
import struct

from harness import fw, wsx

from autobahn.wamp import message  # noqa
from autobahn.wamp.serializer import JsonSerializer, MsgPackSerializer, CBORSerializer

SER = {"json": JsonSerializer, "msgpack": MsgPackSerializer, "cbor": CBORSerializer}
RS_ID = {"json": 1, "msgpack": 2, "cbor": 3}


class RouterConn:
    def __init__(self, kind, proto, transport, ser_id="json", fail_handshake=False, rs_maxlen_exp=24):
        self.kind, self.proto, self.t = kind, proto, transport
        self.ser_id = ser_id
        self.ser = SER[ser_id]()
        self.fail_handshake = fail_handshake
        self.rs_maxlen_exp = rs_maxlen_exp
        self.hs_done = False
        self.hs_failed = False
        self.lost = False
        self.rpos = 0          # read position in transport.written
        self.buf = b""
        self.ws_close_seen = False
        self.ws_close_sent = False
        self.client_hs = None

    # ---- octets from the client
    def _take(self):
        data = bytes(self.t.written[self.rpos:])
        self.rpos = len(self.t.written)
        return data

    def _feed(self, data):
        if self.lost:
            return
        e = fw.feed(self.proto, data)
        fw.settle()
        return e

    def poll(self):
        out = []
        self.buf += self._take()
        if not self.hs_done and not self.hs_failed:
            if self.kind == "websocket":
                if b"\r\n\r\n" not in self.buf:
                    return out
                req, self.buf = self.buf.split(b"\r\n\r\n", 1)
                self.client_hs = req
                key, protos = None, []
                for line in req.split(b"\r\n"):
                    if line.lower().startswith(b"sec-websocket-key:"):
                        key = line.split(b":", 1)[1].strip()
                    if line.lower().startswith(b"sec-websocket-protocol:"):
                        protos = [p.strip().decode() for p in line.split(b":", 1)[1].split(b",")]
                self.offered = protos
                if self.fail_handshake:
                    self.hs_failed = True
                    if self.fail_handshake != "close":         # ("close": the peer says nothing and closes the connection cleanly)
                        self._feed(b"HTTP/1.1 400 Bad Request\r\n\r\n")
                    return out
                sub = "wamp.2." + self.ser_id
                self._feed(b"HTTP/1.1 101 Switching Protocols\r\nUpgrade: websocket\r\nConnection: Upgrade\r\nSec-WebSocket-Protocol: " + sub.encode() +
                           b"\r\nSec-WebSocket-Accept: " + wsx.accept_for(key) + b"\r\n\r\n")
                self.hs_done = True
            else:
                if len(self.buf) < 4:
                    return out
                self.client_hs, self.buf = self.buf[:4], self.buf[4:]
                if self.fail_handshake:
                    self.hs_failed = True
                    if self.fail_handshake != "close":
                        self._feed(b"\x7f\x10\x00\x00")         # error reply: serializer unsupported
                    return out
                self._feed(bytes([0x7F, ((self.rs_maxlen_exp - 9) << 4) | RS_ID[self.ser_id], 0, 0]))
                self.hs_done = True
            self.buf += self._take()
        if self.hs_failed:
            return out
        if self.kind == "websocket":
            frames, self.buf = wsx.split_frames(self.buf)
            for f in frames:
                op = f["hdr"][0] & 0x0F
                if op in (1, 2):
                    out.extend(self.ser.unserialize(f["payload"], isBinary=(op == 2)))
                elif op == 8:
                    self.ws_close_seen = True
                    if not self.ws_close_sent:
                        self.ws_close_sent = True
                        self._feed(wsx.build_frame(8, f["payload"][:2]))
                elif op == 9:
                    self._feed(wsx.build_frame(10, f["payload"]))
        else:
            while len(self.buf) >= 4:
                n = struct.unpack("!L", self.buf[:4])[0] & 0xFFFFFF
                typ = self.buf[0] & 7
                if len(self.buf) < 4 + n:
                    break
                payload, self.buf = self.buf[4:4 + n], self.buf[4 + n:]
                if typ == 0:
                    out.extend(self.ser.unserialize(payload))
        return out

    def send(self, msg):
        data, binary = self.ser.serialize(msg)
        if self.kind == "websocket":
            return self._feed(wsx.build_frame(2 if binary else 1, data))
        return self._feed(struct.pack("!L", len(data)) + data)

    def client_dropped(self):
        d = self.t.dropped
        return bool(d() if callable(d) else d)

    def lose(self, clean=True):
        if not self.lost:
            self.lost = True
            fw.lose(self.proto, clean=clean)
            fw.settle()
