------------------------- MODULE WampTransportRules -------------------------
(***************************************************************************)
(* Pure negotiation rules of the WAMP transports (no state): RawSocket     *)
(* handshake verdicts in both roles, replies, length limits, WebSocket     *)
(* subprotocol choice.  Used by WampTransport.tla (the two-ended model)    *)
(* and by WampTransportTrace.tla (judging the real transports).            *)
(***************************************************************************)
EXTENDS Integers, Sequences, FiniteSets, TLC


Hi(o) == o \div 16
Lo(o) == o % 16
MAGIC == 127

\* ---- RawSocket handshake rules.  o = the four octets received; sup = serializer ids the receiver supports /
\* req = the id the client asked for.  "either": the statement is silent (non-zero reserved octets) - both outcomes conform.
RsServerVerdict(o, sup) ==
  IF o[1] # MAGIC THEN "refuse"
  ELSE IF Lo(o[2]) \notin sup THEN "refuse"
  ELSE IF o[3] # 0 \/ o[4] # 0 THEN "either" ELSE "attach"
RsClientVerdict(r, req) ==
  IF r[1] # MAGIC THEN "refuse"
  ELSE IF Lo(r[2]) # req \/ req = 0 THEN "refuse"
  ELSE IF r[3] # 0 \/ r[4] # 0 THEN "either" ELSE "attach"
RsAcceptReply(o, exp) == <<MAGIC, (exp - 9) * 16 + Lo(o[2]), 0, 0>>
\* a refusing server stays silent or sends an error reply (serializer nibble 0); never something a client could take for an accept
RsRefuseReplyOK(rep) == rep = <<>> \/ (Len(rep) = 4 /\ rep[1] = MAGIC /\ Lo(rep[2]) = 0 /\ rep[3] = 0 /\ rep[4] = 0)
RsMaxSend(o) == 2 ^ (9 + Hi(o[2]))

\* ---- WebSocket: the subprotocol is the first of the client's list (its order of preference) the server also speaks
RECURSIVE FirstIn(_, _)
FirstIn(cl, sl) == IF cl = <<>> THEN "" ELSE IF Head(cl) \in sl THEN Head(cl) ELSE FirstIn(Tail(cl), sl)
WsChosen(cl, sl) == FirstIn(cl, sl)            \* "" = refused
\* the same for a peer that offers arbitrary subprotocol names: only names of the form wamp.2.<serializer> count, whatever else
\* stands before them in the list (offers: sequence of [p, v, s] = the three parts of the name, "" where a part is missing)
WampV2(offers) == LET f == SelectSeq(offers, LAMBDA o : o.p = "wamp" /\ o.v = "2") IN [i \in 1..Len(f) |-> f[i].s]
WsChosenRaw(offers, sl) == FirstIn(WampV2(offers), sl)

=============================================================================
