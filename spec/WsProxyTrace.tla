----------------------------- MODULE WsProxyTrace -----------------------------
EXTENDS WsProxy, Json, IOUtils, TLCExt, FiniteSets
Traces == JsonDeserialize(IOEnv.TRACE_FILE)
N == Len(Traces)
ASSUME \A i \in 1..N : TLCSet(i, 0)
VARIABLES tid, l
E == Traces[tid][l]
TInit == tid \in 1..N /\ l = 1 /\ v = "missing" /\ c = "missing"
TCase ==
  /\ l <= Len(Traces[tid]) /\ E.ev = "proxy" /\ l' = l + 1 /\ UNCHANGED tid /\ v' = E.v /\ c' = E.c
  /\ E.obs.esc = ""
  /\ E.obs.connectOk                               \* CONNECT host:port HTTP/1.1 + Host header, before anything else
  /\ IF Proceed(E.v, E.c)
     THEN E.obs.upgradeSent /\ ~E.obs.dropped /\ E.obs.opened = E.follow     \* goes on with the opening handshake
     ELSE ~E.obs.upgradeSent /\ E.obs.dropped /\ ~E.obs.opened               \* nothing more is written; dropped
TraceSpec == TInit /\ [][TCase]_<<v, c, tid, l>>
Progress == TLCSet(tid, IF TLCGet(tid) < l THEN l ELSE TLCGet(tid))
Post ==
  LET rej == {i \in 1..N : TLCGet(i) # Len(Traces[i]) + 1} IN
    /\ \A i \in rej : PrintT(<<"REJECT", i, TLCGet(i)>>)
    /\ PrintT(<<"ACCEPTED", N - Cardinality(rej)>>)
=============================================================================
