SPECIFICATION Spec
CONSTANTS
  Keys <- MCKeys
  Octets = {0, 90, 255}
  MaxChunk = 3
  MaxPtr = 6
INVARIANT TypeOK
INVARIANT RunningXor
INVARIANT PointerCounts
INVARIANT Involution
CHECK_DEADLOCK FALSE
