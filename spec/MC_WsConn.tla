------------------------------ MODULE MC_WsConn ------------------------------
EXTENDS WsConn
MkCfg(r, f, t, p) == [role |-> r, failByDrop |-> f, echo |-> FALSE, openTO |-> t[1], closeTO |-> t[2], dropTO |-> t[3],
                      pingInt |-> p[1], pingTO |-> p[2], restart |-> p[3]]
MCCfgs == {MkCfg(r, f, t, p) : r \in {"server", "client"}, f \in BOOLEAN,
                               t \in {<<1, 1, 1>>, <<2, 2, 1>>, <<1, 0, 0>>},
                               p \in {<<0, 0, TRUE>>, <<1, 1, TRUE>>, <<2, 1, FALSE>>, <<1, 0, TRUE>>}}
MCCfgsQuick == {MkCfg(r, f, t, p) : r \in {"server", "client"}, f \in BOOLEAN,
                               t \in {<<1, 1, 1>>, <<2, 2, 1>>},
                               p \in {<<0, 0, TRUE>>, <<1, 1, TRUE>>}}
ASSUME NeverEarlyByMoreThanGranularity
=============================================================================
