----------------------------- MODULE Utf8Def -----------------------------
(***************************************************************************)
(* RFC 3629 well-formedness of UTF-8, twice:                               *)
(*                                                                         *)
(*  (1) declaratively, from the ABNF of RFC 3629 section 4 (IsChar,        *)
(*      WellFormed, ValidPrefix, FirstBad), and                            *)
(*  (2) as the incremental byte-step machine an implementation has to be   *)
(*      (Step over nine states).                                           *)
(*                                                                         *)
(* TLC checks that (2) computes (1) on every string up to MaxLen over      *)
(* Alphabet, and that feeding a string in any split into chunks gives the  *)
(* same verdict (Validate is a fold, so this is a theorem of the spec; it  *)
(* is checked anyway).  The transition relation of (2) is exported as JSON *)
(* and is the oracle of the W-method conformance test of the three real    *)
(* implementations; Utf8Trace.tla validates recorded validate() calls.     *)
(*                                                                         *)
(* Code anchor: autobahn/websocket/utf8validator.py (Hoehrmann DFA),       *)
(* autobahn/nvx/_utf8validator.c (table and unrolled DFA).  The spec is    *)
(* NOT a transcription of the Hoehrmann table: states here are the ABNF    *)
(* positions.                                                              *)
(***************************************************************************)
EXTENDS Naturals, Sequences, SequencesExt, FiniteSets, TLC

Byte == 0..255
AllBytes == Byte
\* both ends of every byte range the RFC 3629 ABNF mentions, and their outer neighbours
RepBytes == {0, 127, 128, 143, 144, 159, 160, 191, 192, 193, 194, 223, 224, 225, 236, 237, 238, 239,
             240, 241, 243, 244, 245, 255}

InR(b, lo, hi) == b >= lo /\ b <= hi
IsTail(b) == InR(b, 128, 191)            \* UTF8-tail = %x80-BF

(***************************************************************************)
(* (1) RFC 3629 section 4, literally.                                      *)
(***************************************************************************)
IsChar(c) ==
  \/ Len(c) = 1 /\ InR(c[1], 0, 127)                                            \* UTF8-1
  \/ Len(c) = 2 /\ InR(c[1], 194, 223) /\ IsTail(c[2])                            \* UTF8-2 = C2-DF tail
  \/ Len(c) = 3 /\ \/ c[1] = 224 /\ InR(c[2], 160, 191) /\ IsTail(c[3])           \* E0 A0-BF tail
                   \/ InR(c[1], 225, 236) /\ IsTail(c[2]) /\ IsTail(c[3])           \* E1-EC 2(tail)
                   \/ c[1] = 237 /\ InR(c[2], 128, 159) /\ IsTail(c[3])           \* ED 80-9F tail
                   \/ InR(c[1], 238, 239) /\ IsTail(c[2]) /\ IsTail(c[3])           \* EE-EF 2(tail)
  \/ Len(c) = 4 /\ \/ c[1] = 240 /\ InR(c[2], 144, 191) /\ IsTail(c[3]) /\ IsTail(c[4])   \* F0 90-BF 2(tail)
                   \/ InR(c[1], 241, 243) /\ IsTail(c[2]) /\ IsTail(c[3]) /\ IsTail(c[4])   \* F1-F3 3(tail)
                   \/ c[1] = 244 /\ InR(c[2], 128, 143) /\ IsTail(c[3]) /\ IsTail(c[4])   \* F4 80-8F 2(tail)

RECURSIVE WellFormed(_)
WellFormed(s) ==
  \/ s = <<>>
  \/ \E k \in 1..(IF Len(s) < 4 THEN Len(s) ELSE 4) :
        IsChar(SubSeq(s, 1, k)) /\ WellFormed(SubSeq(s, k + 1, Len(s)))

\* c is a proper, non-empty prefix of some UTF8-char
IsCharPrefix(c) ==
  \/ Len(c) = 1 /\ InR(c[1], 194, 244)
  \/ Len(c) = 2 /\ \/ c[1] = 224 /\ InR(c[2], 160, 191)
                   \/ InR(c[1], 225, 236) /\ IsTail(c[2])
                   \/ c[1] = 237 /\ InR(c[2], 128, 159)
                   \/ InR(c[1], 238, 239) /\ IsTail(c[2])
                   \/ c[1] = 240 /\ InR(c[2], 144, 191)
                   \/ InR(c[1], 241, 243) /\ IsTail(c[2])
                   \/ c[1] = 244 /\ InR(c[2], 128, 143)
  \/ Len(c) = 3 /\ \/ c[1] = 240 /\ InR(c[2], 144, 191) /\ IsTail(c[3])
                   \/ InR(c[1], 241, 243) /\ IsTail(c[2]) /\ IsTail(c[3])
                   \/ c[1] = 244 /\ InR(c[2], 128, 143) /\ IsTail(c[3])

\* s can be extended to a well-formed string
ValidPrefix(s) ==
  \/ WellFormed(s)
  \/ \E k \in 1..(IF Len(s) < 3 THEN Len(s) ELSE 3) :
        WellFormed(SubSeq(s, 1, Len(s) - k)) /\ IsCharPrefix(SubSeq(s, Len(s) - k + 1, Len(s)))

\* 0-based index of the first offending byte, or Len(s) if there is none
FirstBad(s) ==
  IF ValidPrefix(s) THEN Len(s)
  ELSE (CHOOSE i \in 1..Len(s) : ~ValidPrefix(SubSeq(s, 1, i))
                               /\ \A j \in 1..(i - 1) : ValidPrefix(SubSeq(s, 1, j))) - 1

(***************************************************************************)
(* (2) The incremental machine.  acc = on a code point boundary; t1/t2/t3  *)
(* = that many unconstrained tail bytes pending; e0/ed/f0/f4 = the second  *)
(* byte is range-constrained; rej = absorbing.                             *)
(***************************************************************************)
States == {"acc", "t1", "t2", "t3", "e0", "ed", "f0", "f4", "rej"}

Step(st, b) ==
  CASE st = "acc" ->
         IF InR(b, 0, 127) THEN "acc"
         ELSE IF InR(b, 194, 223) THEN "t1"
         ELSE IF b = 224 THEN "e0"
         ELSE IF InR(b, 225, 236) \/ InR(b, 238, 239) THEN "t2"
         ELSE IF b = 237 THEN "ed"
         ELSE IF b = 240 THEN "f0"
         ELSE IF InR(b, 241, 243) THEN "t3"
         ELSE IF b = 244 THEN "f4"
         ELSE "rej"
    [] st = "t1" -> IF IsTail(b) THEN "acc" ELSE "rej"
    [] st = "t2" -> IF IsTail(b) THEN "t1" ELSE "rej"
    [] st = "t3" -> IF IsTail(b) THEN "t2" ELSE "rej"
    [] st = "e0" -> IF InR(b, 160, 191) THEN "t1" ELSE "rej"
    [] st = "ed" -> IF InR(b, 128, 159) THEN "t1" ELSE "rej"
    [] st = "f0" -> IF InR(b, 144, 191) THEN "t2" ELSE "rej"
    [] st = "f4" -> IF InR(b, 128, 143) THEN "t2" ELSE "rej"
    [] st = "rej" -> "rej"

(***************************************************************************)
(* One validate(chunk) call on validator state v = [st, total]:            *)
(* total = number of bytes consumed before the first offending byte (the   *)
(* "total index" of the API).  Result quad: valid, endsOnCodePoint,        *)
(* index in chunk, total index.                                            *)
(***************************************************************************)
\* returns [st, n] : state after the chunk and number of bytes consumed before rejection
\* (a left fold - SequencesExt!FoldLeft is evaluated iteratively by TLC; the third parameter is kept for readability:
\* feeding starts at octet i = 1)
FeedStep(a, b) ==
  IF a.st = "rej" THEN a
  ELSE LET nx == Step(a.st, b) IN
       IF nx = "rej" THEN [st |-> "rej", n |-> a.n] ELSE [st |-> nx, n |-> a.n + 1]
Feed(st, chunk, i) == FoldLeft(FeedStep, [st |-> st, n |-> 0], chunk)

Validate(v, chunk) ==
  IF v.st = "rej"
  THEN [st |-> "rej", total |-> v.total, valid |-> FALSE, eoc |-> FALSE, ci |-> 0, ti |-> v.total]
  ELSE LET r == Feed(v.st, chunk, 1) IN
       [st |-> r.st, total |-> v.total + r.n,
        valid |-> r.st # "rej", eoc |-> r.st = "acc", ci |-> r.n, ti |-> v.total + r.n]

V0 == [st |-> "acc", total |-> 0]

=============================================================================
