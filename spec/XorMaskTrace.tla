---------------------------- MODULE XorMaskTrace ----------------------------
(***************************************************************************)
(* Batch validation of recorded masker calls.  A `process` event logs how  *)
(* the input was generated (pattern id, length, seed - the input octets    *)
(* are *defined here*, or given explicitly for pattern 2), the output      *)
(* octets the implementation produced and pointer() afterwards; TLC        *)
(* recomputes the XOR.                                                     *)
(***************************************************************************)
EXTENDS XorMask, Json, IOUtils, TLCExt, FiniteSets

Traces == JsonDeserialize(IOEnv.TRACE_FILE)
N == Len(Traces)
ASSUME \A i \in 1..N : TLCSet(i, 0)

VARIABLES tid, l
tvars == <<key, ptr, inp, outp, tid, l>>

\* input patterns: 0 = arithmetic ramp, 1 = key-correlated (masks to a ramp of zeros at offset 0), 2 = explicit
Input(e) ==
  CASE e.pat = 0 -> [k \in 1..e.n |-> (k * 7 + e.seed) % 256]
    [] e.pat = 1 -> [k \in 1..e.n |-> key[((k + e.seed - 1) % 4) + 1]]
    [] e.pat = 2 -> e.data

TInit == /\ tid \in 1..N /\ l = 1
         /\ key = <<0, 0, 0, 0>> /\ ptr = 0 /\ inp = <<>> /\ outp = <<>>

Ev == Traces[tid][l]
IsEvent(name) == l <= Len(Traces[tid]) /\ Ev.ev = name /\ l' = l + 1 /\ UNCHANGED tid

TNew == /\ IsEvent("new")
        /\ key' = Ev.key /\ ptr' = 0 /\ inp' = <<>> /\ outp' = <<>>
        /\ Ev.ptr = 0

\* history variables are not needed for validation (and would make states huge): keep them empty
TProcess ==
  /\ IsEvent("process")
  /\ LET c == Input(Ev) IN
       /\ Ev.out = Mask(key, ptr, c)
       /\ ptr' = ptr + Len(c)
       /\ Ev.ptr = ptr'
       \* involution legs: the driver fed the previous output back through a fresh masker
       /\ ("restored" \in DOMAIN Ev) => Ev.restored
  /\ UNCHANGED <<key, inp, outp>>

TReset == /\ IsEvent("reset")
          /\ ptr' = 0 /\ Ev.ptr = 0
          /\ UNCHANGED <<key, inp, outp>>

TNext == TNew \/ TProcess \/ TReset
TraceSpec == TInit /\ [][TNext]_tvars

Progress == TLCSet(tid, IF TLCGet(tid) < l THEN l ELSE TLCGet(tid))
Post ==
  LET rej == {i \in 1..N : TLCGet(i) # Len(Traces[i]) + 1} IN
    /\ \A i \in rej : PrintT(<<"REJECT", i, TLCGet(i)>>)
    /\ PrintT(<<"ACCEPTED", N - Cardinality(rej)>>)
=============================================================================
