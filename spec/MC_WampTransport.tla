------------------------- MODULE MC_WampTransport -------------------------
EXTENDS WampTransport
MCSers == {1, 2}
MCExps == {9, 10}
MCLens == {512, 513, 1025}
Bound == nextId <= 3 /\ \A e \in Ends : errs[e] <= 1
=============================================================================
