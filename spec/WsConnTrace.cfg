SPECIFICATION TraceSpec
CONSTANTS
  Cfgs = {}
  Horizon = 0
  MaxEvents = 0
CONSTRAINT Progress
POSTCONDITION Post
CHECK_DEADLOCK FALSE
