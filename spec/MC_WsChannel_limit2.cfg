SPECIFICATION Spec
CONSTANTS
  MaxMsgs = 2
  Lens = {0, 1, 2, 3}
  Frags = {0, 1, 2}
  Chops = {0, 1, 2}
  Limit = 2
INVARIANT WirePiecesInOrder
INVARIANT WireWellFormed
INVARIANT InOrderExactlyOnce
INVARIANT NothingInvented
INVARIANT ReceiverNeverFails
INVARIANT QueueOnlyWhileTriggered
INVARIANT AllDeliveredWhenQuiet
INVARIANT NothingAfterClose
INVARIANT RefusedNeverOnWire
INVARIANT OverLimitRefused
CHECK_DEADLOCK FALSE
