\* 24 class-representative bytes (every boundary of every RFC 3629 range), all strings of length <= 4
SPECIFICATION Spec
CONSTANTS
  MaxLen = 4
CONSTANT Alphabet <- RepBytes
INVARIANT TypeOK
INVARIANT AcceptIffWellFormed
INVARIANT RejectIffNotPrefix
INVARIANT WholeVerdict
INVARIANT ChunkIndependent
CHECK_DEADLOCK FALSE
