SPECIFICATION TraceSpec
CONSTANTS
  Keys = {}
  Octets = {}
  MaxChunk = 0
  MaxPtr = 0
CONSTRAINT Progress
POSTCONDITION Post
CHECK_DEADLOCK FALSE
