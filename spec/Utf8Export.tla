---------------------------- MODULE Utf8Export ----------------------------
(* Exports the complete transition relation of Utf8!Step (9 states x 256    *)
(* bytes) as JSON; the Python W-method driver uses it as its only oracle.   *)
EXTENDS Utf8, Json, IOUtils

Table == [q \in States |-> [i \in 1..256 |-> Step(q, i - 1)]]

ASSUME JsonSerialize(IOEnv.OUT_FILE, Table)
=============================================================================
