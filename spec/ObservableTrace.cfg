SPECIFICATION TraceSpec
CONSTANTS
  Events = {"join", "leave", "ready"}
  Handlers = {1, 2, 3}
  MaxOps = 0
CONSTRAINT Progress
POSTCONDITION Post
CHECK_DEADLOCK FALSE
