SPECIFICATION TraceSpec
CONSTANTS
  Contexts = {}
  Headers = {}
  Payloads = {}
CONSTRAINT Progress
POSTCONDITION Post
CHECK_DEADLOCK FALSE
