SPECIFICATION Spec
CONSTANTS
  PC <- MCPC
  UC <- MCUC
  MaxLen = 3
INVARIANT BindsEachOnce
INVARIANT LengthMatters
INVARIANT RefusedIsFinal
CHECK_DEADLOCK FALSE
