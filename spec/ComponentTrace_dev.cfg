SPECIFICATION TraceSpec
CONSTANTS
  MaxT = 3
  MRS = {}
  Dev = {"F26"}
CONSTRAINT Progress
POSTCONDITION Post
CHECK_DEADLOCK FALSE
