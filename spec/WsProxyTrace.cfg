SPECIFICATION TraceSpec
CONSTRAINT Progress
POSTCONDITION Post
CHECK_DEADLOCK FALSE
