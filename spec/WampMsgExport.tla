---------------------------- MODULE WampMsgExport ----------------------------
EXTENDS WampMsg, Json, IOUtils, SequencesExt
ASSUME TableSane
ASSUME JsonSerialize(IOEnv.OUT_FILE, [cases |-> SetToSeq(Cases),
                                      types |-> [t \in TypeNames |-> [code |-> Types[t].code, pos |-> Types[t].pos, minlen |-> Types[t].minlen,
                                                                      optpos |-> Types[t].optpos, keys |-> SetToSeq(Types[t].keys)]]])
=============================================================================
