---------------------------- MODULE WampTransport ----------------------------
(***************************************************************************)
(* WAMP transports: negotiation, attachment, framing limits, fail-closed.  *)
(*                                                                         *)
(* Part 1 - pure rules (used by the model below and by the trace spec):    *)
(*   RawSocket 4-octet handshake in both roles; WebSocket subprotocol      *)
(*   choice; length limits.                                                *)
(* Part 2 - a two-ended link: client C and server S exchange the handshake *)
(*   over a channel that may alter octets, attach sessions, then exchange  *)
(*   length-framed messages, suffer corruption / loss, and tell their      *)
(*   sessions.  One action per code entry point:                           *)
(*     CHello        client connection_made: writes its 4 octets           *)
(*     SHandshake    server dataReceived (4 octets complete): verdict+reply*)
(*     CHandshake    client dataReceived (reply complete): verdict         *)
(*     Send(e,n)     ITransport.send of a message serialising to n octets  *)
(*     Deliver(e)    stringReceived / onMessage at end e                   *)
(*     Inject(e,k)   the peer of e writes something invalid (over-long     *)
(*                   frame, wrong frame type, undecodable payload, a WAMP  *)
(*                   violation, or e's session code raises)                *)
(*     Lose(e)       connectionLost at e                                   *)
(***************************************************************************)
EXTENDS WampTransportRules

-----------------------------------------------------------------------------
CONSTANTS Sers,       \* serializer ids in play, e.g. {1, 2}
          Exps,       \* announced length exponents in play (subset of 9..24)
          Lens,       \* message lengths in play
          MaxQ        \* bound on messages per direction

Ends == {"C", "S"}
Peer(e) == IF e = "C" THEN "S" ELSE "C"

VARIABLES
  cfg,        \* [creq, cexp, ssup, sexp]: client's serializer and announced exponent; server's set and exponent
  chello,     \* the 4 octets the server receives (after the channel) or <<>>
  sreply,     \* the octets the client receives (after the channel) or <<>>
  st,         \* per end: "init" | "wait" | "open" | "refused" | "closed"
  ser,        \* per end: serializer in use (0 = none)
  maxSend,    \* per end: largest message the peer accepts
  maxRecv,    \* per end: largest message this end accepts (announced)
  wire,       \* per direction (keyed by sender): sequence of [id, n] frames written and not yet read
  sent,       \* per sender: ids accepted by send()
  got,        \* per receiver: ids delivered to the session, in order
  opens,      \* per end: number of session.onOpen calls
  closes,     \* per end: number of session.onClose calls
  errs,       \* per sender: number of send() calls refused with an error
  nextId
vars == <<cfg, chello, sreply, st, ser, maxSend, maxRecv, wire, sent, got, opens, closes, errs, nextId>>

Octets2 == 0..255
Init ==
  /\ cfg \in [creq : Sers, cexp : Exps, ssup : SUBSET Sers, sexp : Exps]
  /\ chello = <<>> /\ sreply = <<>>
  /\ st = [e \in Ends |-> "init"] /\ ser = [e \in Ends |-> 0]
  /\ maxSend = [e \in Ends |-> 0] /\ maxRecv = [e \in Ends |-> 0]
  /\ wire = [e \in Ends |-> <<>>] /\ sent = [e \in Ends |-> <<>>] /\ got = [e \in Ends |-> <<>>]
  /\ opens = [e \in Ends |-> 0] /\ closes = [e \in Ends |-> 0] /\ errs = [e \in Ends |-> 0] /\ nextId = 1

\* the channel may deliver the honest octets or altered ones (magic or serializer/length octet)
Alter(o) == {o} \cup {<<0, o[2], 0, 0>>} \cup {<<MAGIC, x, 0, 0>> : x \in {0, 16, o[2] + 1, (o[2] + 16) % 256}}

CHello ==
  /\ st["C"] = "init"
  /\ \E o \in Alter(<<MAGIC, (cfg.cexp - 9) * 16 + cfg.creq, 0, 0>>) : chello' = o
  /\ st' = [st EXCEPT !["C"] = "wait"] /\ maxRecv' = [maxRecv EXCEPT !["C"] = 2 ^ cfg.cexp]
  /\ UNCHANGED <<cfg, sreply, ser, maxSend, wire, sent, got, opens, closes, errs, nextId>>

SHandshake ==
  /\ st["S"] = "init" /\ chello # <<>>
  /\ LET v == RsServerVerdict(chello, cfg.ssup) IN
     IF v = "attach"
     THEN /\ \E r \in Alter(RsAcceptReply(chello, cfg.sexp)) : sreply' = r
          /\ st' = [st EXCEPT !["S"] = "open"] /\ ser' = [ser EXCEPT !["S"] = Lo(chello[2])]
          /\ maxSend' = [maxSend EXCEPT !["S"] = RsMaxSend(chello)] /\ maxRecv' = [maxRecv EXCEPT !["S"] = 2 ^ cfg.sexp]
          /\ opens' = [opens EXCEPT !["S"] = @ + 1]
     ELSE /\ sreply' \in {<<>>, <<MAGIC, 16, 0, 0>>}
          /\ st' = [st EXCEPT !["S"] = "refused"]
          /\ UNCHANGED <<ser, maxSend, maxRecv, opens>>
  /\ UNCHANGED <<cfg, chello, wire, sent, got, closes, errs, nextId>>

CHandshake ==
  /\ st["C"] = "wait" /\ sreply # <<>>
  /\ IF RsClientVerdict(sreply, cfg.creq) = "attach"
     THEN /\ st' = [st EXCEPT !["C"] = "open"] /\ ser' = [ser EXCEPT !["C"] = cfg.creq]
          /\ maxSend' = [maxSend EXCEPT !["C"] = RsMaxSend(sreply)] /\ opens' = [opens EXCEPT !["C"] = @ + 1]
     ELSE /\ st' = [st EXCEPT !["C"] = "refused"] /\ UNCHANGED <<ser, maxSend, opens>>
  /\ UNCHANGED <<cfg, chello, sreply, maxRecv, wire, sent, got, closes, errs, nextId>>

Send(e, n) ==
  /\ st[e] = "open" /\ Len(sent[e]) < MaxQ
  /\ IF n > maxSend[e]
     THEN /\ errs' = [errs EXCEPT ![e] = @ + 1] /\ UNCHANGED <<wire, sent, nextId>>      \* error to the caller, nothing written
     ELSE /\ wire' = [wire EXCEPT ![e] = Append(@, [id |-> nextId, n |-> n])]
          /\ sent' = [sent EXCEPT ![e] = Append(@, nextId)] /\ nextId' = nextId + 1 /\ UNCHANGED errs
  /\ UNCHANGED <<cfg, chello, sreply, st, ser, maxSend, maxRecv, got, opens, closes>>

\* reading one frame at end e (sent by its peer)
Close(e) == /\ st' = [st EXCEPT ![e] = "closed"]
            /\ closes' = [closes EXCEPT ![e] = IF opens[e] > closes[e] THEN @ + 1 ELSE @]
Deliver(e) ==
  LET p == Peer(e) IN
  /\ st[e] = "open" /\ wire[p] # <<>>
  /\ LET f == Head(wire[p]) IN
     IF f.n > maxRecv[e] \/ f.id = 0          \* longer than announced, or invalid (injected): rejected, not delivered
     THEN Close(e) /\ UNCHANGED got
     ELSE got' = [got EXCEPT ![e] = Append(@, f.id)] /\ UNCHANGED <<st, closes>>
  /\ wire' = [wire EXCEPT ![p] = Tail(@)]
  /\ UNCHANGED <<cfg, chello, sreply, ser, maxSend, maxRecv, sent, opens, errs, nextId>>

\* the peer of e (or the channel) writes an invalid frame: id 0 marks it
Inject(e) ==
  /\ st[e] = "open" /\ Len(wire[Peer(e)]) < MaxQ
  /\ wire' = [wire EXCEPT ![Peer(e)] = Append(@, [id |-> 0, n |-> 1])]
  /\ UNCHANGED <<cfg, chello, sreply, st, ser, maxSend, maxRecv, sent, got, opens, closes, errs, nextId>>

Lose(e) ==
  /\ st[e] \in {"open", "wait", "init"}
  /\ Close(e)
  /\ UNCHANGED <<cfg, chello, sreply, ser, maxSend, maxRecv, wire, sent, got, opens, errs, nextId>>

Next == CHello \/ SHandshake \/ CHandshake \/ (\E e \in Ends : (\E n \in Lens : Send(e, n)) \/ Deliver(e) \/ Inject(e) \/ Lose(e))
Spec == Init /\ [][Next]_vars

-----------------------------------------------------------------------------
IsPrefix(a, b) == Len(a) <= Len(b) /\ \A i \in 1..Len(a) : a[i] = b[i]
\* a session is attached only after a valid handshake and with a shared serializer
AttachOnlyIfValid ==
  /\ (st["S"] = "open" => (chello[1] = MAGIC /\ Lo(chello[2]) \in cfg.ssup /\ ser["S"] = Lo(chello[2])))
  /\ (st["C"] = "open" => (sreply[1] = MAGIC /\ Lo(sreply[2]) = cfg.creq /\ ser["C"] = cfg.creq))
\* both attached => same serializer (no channel alteration can make them disagree)
SameSerializer == (st["C"] = "open" /\ st["S"] = "open") => ser["C"] = ser["S"]
\* delivered = a prefix of what send() accepted, intact and in order
InOrderIntact == \A e \in Ends : IsPrefix(got[e], sent[Peer(e)])
\* no frame longer than what the receiver of the handshake octets asked for is ever written
NeverOverLimit == \A e \in Ends : \A i \in 1..Len(wire[e]) : wire[e][i].id # 0 => wire[e][i].n <= maxSend[e]
\* the session is told exactly once that the transport is gone, and only if it was opened
ToldOnce == \A e \in Ends : closes[e] <= opens[e] /\ opens[e] <= 1 /\ (st[e] = "closed" => closes[e] = opens[e])
NoDeliveryUnlessOpen == \A e \in Ends : (got[e] # <<>> => opens[e] = 1)
RefusedNeverOpens == \A e \in Ends : st[e] = "refused" => opens[e] = 0
=============================================================================
