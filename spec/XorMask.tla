------------------------------ MODULE XorMask ------------------------------
(***************************************************************************)
(* RFC 6455 section 5.3 masking as a running-key XOR.                      *)
(*   transformed-octet-i = original-octet-i XOR masking-key-octet-(i MOD 4) *)
(* with i counted from the start of the frame payload, no matter how the   *)
(* payload is handed to the masker in chunks.                              *)
(*                                                                         *)
(* Code anchor: autobahn/websocket/xormasker.py (XorMaskerSimple,          *)
(* XorMaskerShifted1), autobahn/nvx/_xormasker.c (scalar, SSE2 with        *)
(* unaligned head / aligned body / tail).  One action per public method:   *)
(* New (constructor), Process, Reset; pointer() is the observable `ptr`.   *)
(***************************************************************************)
EXTENDS Naturals, Sequences, Bitwise, TLC

CONSTANTS Keys,      \* set of 4-octet keys explored by the exhaustive model
          Octets,    \* set of octet values used in chunks by the exhaustive model
          MaxChunk,  \* maximum chunk length in the exhaustive model
          MaxPtr     \* bound on total octets processed in the exhaustive model

Byte == 0..255
MCKeys == {<<0, 0, 0, 0>>, <<255, 255, 255, 255>>, <<1, 2, 4, 8>>, <<222, 173, 190, 239>>}

\* octet k (1-based) of a chunk processed when `ptr` octets were processed before
MaskOctet(key, ptr, k) == key[((ptr + k - 1) % 4) + 1]

Mask(key, ptr, chunk) == [k \in 1..Len(chunk) |-> chunk[k] ^^ MaskOctet(key, ptr, k)]

VARIABLES key,    \* the 4-octet masking key
          ptr,    \* octets processed so far (pointer())
          inp,    \* history: concatenation of all inputs since New/Reset
          outp    \* history: concatenation of all outputs since New/Reset
vars == <<key, ptr, inp, outp>>

Init == key \in Keys /\ ptr = 0 /\ inp = <<>> /\ outp = <<>>

Process(chunk) ==
  /\ ptr + Len(chunk) <= MaxPtr
  /\ outp' = outp \o Mask(key, ptr, chunk)
  /\ inp' = inp \o chunk
  /\ ptr' = ptr + Len(chunk)
  /\ UNCHANGED key

Reset == ptr' = 0 /\ inp' = <<>> /\ outp' = <<>> /\ UNCHANGED key

Chunks == UNION {[1..n -> Octets] : n \in 0..MaxChunk}

Next == (\E c \in Chunks : Process(c)) \/ Reset

Spec == Init /\ [][Next]_vars

\* whatever the chunking, the output is the input XORed with the key repeated from offset 0
RunningXor == outp = Mask(key, 0, inp)
PointerCounts == ptr = Len(inp)
\* masking twice with the same key restores the input
Involution == Mask(key, 0, outp) = inp
TypeOK == /\ key \in [1..4 -> Byte] /\ ptr \in Nat
          /\ \A i \in 1..Len(outp) : outp[i] \in Byte
=============================================================================
