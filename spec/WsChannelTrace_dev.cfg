SPECIFICATION TraceSpec
CONSTANTS
  MaxMsgs = 0
  Lens = {}
  Frags = {}
  Chops = {}
  Limit = 0
  Dev = {"F16", "F10"}
CONSTRAINT Progress
POSTCONDITION Post
CHECK_DEADLOCK FALSE
