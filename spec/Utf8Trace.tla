----------------------------- MODULE Utf8Trace -----------------------------
(***************************************************************************)
(* Batch trace validation of recorded Utf8Validator.reset()/validate()     *)
(* calls against Utf8!Validate.  Every event carries the chunk (octets)    *)
(* and the result quad the implementation returned; TLC recomputes the     *)
(* quad from the RFC-derived machine.                                      *)
(*                                                                         *)
(* After a rejection the statement fixes the verdict (still invalid) and   *)
(* the position of the first offending byte (total index); the in-chunk    *)
(* index of later calls is not constrained.                                *)
(***************************************************************************)
EXTENDS Utf8, Json, IOUtils, TLCExt

Traces == JsonDeserialize(IOEnv.TRACE_FILE)
N == Len(Traces)

ASSUME \A i \in 1..N : TLCSet(i, 0)

VARIABLES tid, l, total
tvars == <<s, st, tid, l, total>>

TInit == /\ tid \in 1..N
         /\ l = 1
         /\ s = <<>> /\ st = "acc" /\ total = 0

Ev == Traces[tid][l]
IsEvent(name) == l <= Len(Traces[tid]) /\ Ev.ev = name /\ l' = l + 1 /\ UNCHANGED <<tid, s>>

TReset == /\ IsEvent("reset")
          /\ st' = "acc" /\ total' = 0

TValidate ==
  /\ IsEvent("validate")
  /\ LET r == Validate([st |-> st, total |-> total], Ev.chunk) IN
       /\ st' = r.st /\ total' = r.total
       /\ Ev.valid = r.valid
       /\ Ev.eoc = r.eoc
       /\ Ev.ti = r.ti
       /\ (st # "rej") => Ev.ci = r.ci

TNext == TReset \/ TValidate

TraceSpec == TInit /\ [][TNext]_tvars

Progress == TLCSet(tid, IF TLCGet(tid) < l THEN l ELSE TLCGet(tid))

Post ==
  LET rej == {i \in 1..N : TLCGet(i) # Len(Traces[i]) + 1} IN
    /\ \A i \in rej : PrintT(<<"REJECT", i, TLCGet(i)>>)
    /\ PrintT(<<"ACCEPTED", N - Cardinality(rej)>>)
=============================================================================
