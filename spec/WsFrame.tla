------------------------------- MODULE WsFrame -------------------------------
(***************************************************************************)
(* RFC 6455 section 5.2 base framing: decoding of a frame header given as  *)
(* a sequence of octets, the payload-length classes (minimal encoding,     *)
(* 63-bit limit) and the close status codes of section 7.4.  Pure          *)
(* operators, shared by WsRecv (receiver), WsChannel (sender framing),     *)
(* WsConn (closing) and their trace specifications, which all decode the   *)
(* real header octets written / received by the implementation here.       *)
(***************************************************************************)
EXTENDS Naturals, Sequences

NoFrame == [op |-> 99]

\* ---------------------------------------------------------------- frame header decoding
Fin(h)    == h[1] >= 128
Rsv(h)    == (h[1] \div 16) % 8
Opcode(h) == h[1] % 16
Masked(h) == h[2] >= 128
Len7(h)   == h[2] % 128
IsControl(h) == Opcode(h) >= 8
ExtLen(h) == IF Len7(h) = 126 THEN 2 ELSE IF Len7(h) = 127 THEN 8 ELSE 0
HdrLen(h) == 2 + ExtLen(h) + (IF Masked(h) THEN 4 ELSE 0)

\* payload length class and value.  TLC integers are 32 bit: a 64-bit length is "huge" (legal, but its value is not
\* represented) unless its five high octets are zero and the sixth is < 128.
PLen(h) ==
  IF Len7(h) < 126 THEN [cls |-> "ok", v |-> Len7(h)]
  ELSE IF Len7(h) = 126 THEN
     LET v == h[3] * 256 + h[4] IN [cls |-> IF v < 126 THEN "nonminimal" ELSE "ok", v |-> v]
  ELSE IF h[3] >= 128 THEN [cls |-> "over63", v |-> 0]
  ELSE IF h[3] = 0 /\ h[4] = 0 /\ h[5] = 0 /\ h[6] = 0 /\ h[7] < 128 THEN
     LET v == ((h[7] * 256 + h[8]) * 256 + h[9]) * 256 + h[10] IN
       [cls |-> IF v < 65536 THEN "nonminimal" ELSE "ok", v |-> v]
  ELSE [cls |-> "huge", v |-> 2147483647]

\* ---------------------------------------------------------------- close codes (RFC 6455 7.4)
\* must be accepted
CloseCodeLegal(c) == c \in 1000..1003 \/ c \in 1007..1011 \/ c \in 3000..4999
\* registered with IANA after the RFC: either verdict
CloseCodeEither(c) == c \in 1012..1014
\* everything else must be rejected: 0..999, 1004..1006, 1015..2999 (unassigned / reserved), >= 5000

=============================================================================
