SPECIFICATION Spec
CONSTANTS
  Contexts <- MCContextsLimits
  Headers <- MCHeaders
  Payloads <- MCPayloads
CONSTRAINT Bound
INVARIANT NoDeliveryOnceFailed
INVARIANT FailCodes
INVARIANT DropMeansClosed
INVARIANT PongEchoesPing
INVARIANT DeliveredWithinLimits
PROPERTY NothingAfterClosed
PROPERTY ForwardOnly
PROPERTY FailByDropNeverSendsClose
PROPERTY AtMostOneCloseFrame
CHECK_DEADLOCK FALSE
