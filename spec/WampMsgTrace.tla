---------------------------- MODULE WampMsgTrace ----------------------------
(***************************************************************************)
(* Re-judges executed grammar cases.  Events:                              *)
(*  case  t, what ("base"|"pos"|"key"|"len"), i, key, c, kind,             *)
(*        outcome ("Message" | exception class name), preserved (the       *)
(*        substituted value / all fields come back from marshal()),        *)
(*        idempotent (parse(marshal(m)) marshals to the same list),        *)
(*        ser = outcomes through each serializer's unserialize()           *)
(*  code  code class, outcome                unknown message type codes    *)
(*  fuzz  ser, kind, outcome                 arbitrary / mutated octets    *)
(*  rt    t, ser, batched, n, same, typeSame, orderSame, binaryFlagOk      *)
(*        marshal-serialize-unserialize-parse round trip (C03)             *)
(***************************************************************************)
EXTENDS WampMsg, Json, IOUtils, TLCExt

Traces == JsonDeserialize(IOEnv.TRACE_FILE)
N == Len(Traces)
ASSUME \A i \in 1..N : TLCSet(i, 0)
VARIABLES tid, l
tvars == <<tid, l>>
E == Traces[tid][l]
IsEvent(name) == l <= Len(Traces[tid]) /\ E.ev = name /\ l' = l + 1 /\ UNCHANGED tid
TInit == tid \in 1..N /\ l = 1

OwnErrors == {"ProtocolError", "InvalidUriError"}
Total(o) == o \in {"Message"} \cup OwnErrors          \* never any other exception type

CaseVerdict ==
  CASE E.what = "base" -> "accept"
    [] E.what = "len" -> "reject"
    [] E.what = "feature" -> KeyVerdict("bool", E.c)
    [] E.what = "features" -> "accept"
    [] E.what = "reqtype" -> ReqTypeVerdict(E.i)
    [] E.what = "role" -> RoleVerdict(E.t, E.key, E.c)
    [] E.what = "pt" -> PtVerdict(E.key)
    [] E.what = "pos" -> PosVerdict(E.t, E.i, E.c)
    [] E.what = "key" -> KeyVerdict((CHOOSE k \in Types[E.t].keys : k.k = E.key).kind, E.c)

TCase ==
  /\ IsEvent("case")
  /\ E.t \in TypeNames
  /\ Total(E.outcome)
  /\ \A i \in 1..Len(E.ser) : Total(E.ser[i].outcome)
  /\ CaseVerdict = "accept" => /\ E.outcome = "Message" /\ E.preserved /\ E.idempotent
                               /\ \A i \in 1..Len(E.ser) : E.ser[i].outcome = "Message"
  /\ CaseVerdict = "reject" => /\ E.outcome \in OwnErrors
                               /\ \A i \in 1..Len(E.ser) : E.ser[i].outcome \in OwnErrors
  /\ E.outcome = "Message" => E.idempotent

TCode == IsEvent("code") /\ E.outcome \in OwnErrors
TFuzz == IsEvent("fuzz") /\ Total(E.outcome)
TRt == /\ IsEvent("rt")
       /\ E.t \in TypeNames
       /\ E.esc = "" /\ E.same /\ E.typeSame /\ E.orderSame /\ E.binaryFlagOk /\ E.count = E.n

TNext == TCase \/ TCode \/ TFuzz \/ TRt
TraceSpec == TInit /\ [][TNext]_tvars
Progress == TLCSet(tid, IF TLCGet(tid) < l THEN l ELSE TLCGet(tid))
Post ==
  LET rej == {i \in 1..N : TLCGet(i) # Len(Traces[i]) + 1} IN
    /\ \A i \in rej : PrintT(<<"REJECT", i, TLCGet(i)>>)
    /\ PrintT(<<"ACCEPTED", N - Cardinality(rej)>>)
=============================================================================
