--------------------------- MODULE WampErrorTrace ---------------------------
(***************************************************************************)
(* One event per executed cell: a real callee session raises inside a real *)
(* endpoint, the ERROR is serialized / unserialized with a real            *)
(* serializer and fed to a real caller session with a pending call.        *)
(*  err  kind, reg, tb, ser, shape,                                        *)
(*       obs = [replied, wireUri, wireArgsSame, wireKwargsSame, tbOnWire,  *)
(*              failed, callerClass, uriSame, argsSame, kwargsSame, esc]   *)
(***************************************************************************)
EXTENDS WampError, Sequences, FiniteSets, Json, IOUtils, TLCExt

Traces == JsonDeserialize(IOEnv.TRACE_FILE)
N == Len(Traces)
ASSUME \A i \in 1..N : TLCSet(i, 0)
VARIABLES tid, l
tvars == <<kind, reg, tb, tid, l>>
E == Traces[tid][l]
TInit == tid \in 1..N /\ l = 1 /\ kind = "app" /\ reg = "none" /\ tb = FALSE

TErr ==
  /\ l <= Len(Traces[tid]) /\ E.ev = "err" /\ l' = l + 1 /\ UNCHANGED tid
  /\ kind' = E.kind /\ reg' = E.reg /\ tb' = E.tb
  /\ E.kind \in Kinds /\ E.reg \in Registry
  /\ LET o == E.obs IN
       /\ o.esc = ""
       /\ o.replied                                  \* exactly one ERROR for the invocation
       /\ o.wireUri = WireUri(E.kind)
       /\ o.wireArgsSame /\ o.wireKwargsSame         \* same positional and keyword arguments (apart from the traceback)
       /\ o.tbOnWire = E.tb
       /\ o.failed                                   \* NeverLost: the pending call fails ...
       /\ o.uriSame                                  \* ... with an error carrying the ERROR's URI
       /\ o.argsSame /\ o.kwargsSame
       /\ o.callerClass = CallerClass(E.reg)

TraceSpec == TInit /\ [][TErr]_tvars
Progress == TLCSet(tid, IF TLCGet(tid) < l THEN l ELSE TLCGet(tid))
Post ==
  LET rej == {i \in 1..N : TLCGet(i) # Len(Traces[i]) + 1} IN
    /\ \A i \in rej : PrintT(<<"REJECT", i, TLCGet(i)>>)
    /\ PrintT(<<"ACCEPTED", N - Cardinality(rej)>>)
=============================================================================
