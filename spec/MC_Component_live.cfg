SPECIFICATION FailingSpec
CONSTANTS
  MaxT = 2
  MRS <- FiniteMRS
  Dev <- NoDev
PROPERTY EventuallyDone
INVARIANT Budget
CHECK_DEADLOCK FALSE
