---------------------------- MODULE WsRecvTrace ----------------------------
(***************************************************************************)
(* Batch validation of what a real WebSocket{Server,Client}Protocol did    *)
(* with the frames it was fed, against WsRecv.  One trace = one            *)
(* connection.  Events:                                                    *)
(*   open   role, compress, failByDrop, maxFrame, maxMsg                   *)
(*   lclose react            the application called sendClose()            *)
(*   hdr    h, react         the octets of one complete frame header fed   *)
(*   pay    n, data, ascii, dlen, react   the payload of that frame fed    *)
(* `react` is what was observed while those octets were fed (in whatever   *)
(* segmentation the driver chose): msgs/pings/pongs delivered to the       *)
(* application, frames written (header octets + unmasked payload),         *)
(* transport drop, protocol state afterwards, exception escaping.  TLC     *)
(* decodes the written frame headers itself.                               *)
(***************************************************************************)
EXTENDS WsRecv, Json, IOUtils, TLCExt

Traces == JsonDeserialize(IOEnv.TRACE_FILE)
N == Len(Traces)
ASSUME \A i \in 1..N : TLCSet(i, 0)

VARIABLES tid, l
tvars == <<ctx, cs, failed, inside, kind, u8, msgLen, cmp, cur, re, tid, l>>

Ev == Traces[tid][l]
IsEvent(name) == l <= Len(Traces[tid]) /\ Ev.ev = name /\ l' = l + 1 /\ UNCHANGED tid

TInit == /\ tid \in 1..N /\ l = 1
         /\ ctx = [role |-> "server", compress |-> FALSE, failByDrop |-> TRUE, maxFrame |-> 0, maxMsg |-> 0]
         /\ cs = "OPEN" /\ failed = FALSE /\ inside = FALSE /\ kind = "none" /\ u8 = "acc"
         /\ msgLen = 0 /\ cmp = FALSE /\ cur = NoFrame /\ re = Quiet

\* ---- what the written frames amount to
SentOk(f) ==  \* every frame this endpoint writes is itself well-formed (5.2) and masked per role (5.3)
  /\ Fin(f.h) /\ Rsv(f.h) = 0 /\ Opcode(f.h) \in {8, 10}
  /\ Masked(f.h) = (ctx.role = "client")
  /\ PLen(f.h).cls = "ok" /\ PLen(f.h).v = Len(f.p) /\ Len(f.p) <= 125
  /\ Len(f.h) = HdrLen(f.h)
CloseFrames(sent) == SelectSeq(sent, LAMBDA f : Opcode(f.h) = 8)
PongFrames(sent) == SelectSeq(sent, LAMBDA f : Opcode(f.h) = 10)
CloseCodeSent(sent) ==
  LET c == CloseFrames(sent) IN
    IF Len(c) = 0 THEN 0 ELSE IF Len(c[1].p) = 0 THEN 1 ELSE c[1].p[1] * 256 + c[1].p[2]
CloseReasonOk(sent) ==
  LET c == CloseFrames(sent) IN
    Len(c) = 0 \/ (/\ Len(c) = 1
                   /\ Len(c[1].p) # 1
                   /\ Len(c[1].p) > 2 => Feed("acc", SubSeq(c[1].p, 3, Len(c[1].p)), 1).st = "acc")

Matches(r) ==
  /\ r.esc = ""
  /\ \A i \in 1..Len(r.sent) : SentOk(r.sent[i])
  /\ CloseReasonOk(r.sent)
  /\ re'.msgs = r.msgs
  /\ re'.pings = r.pings
  /\ re'.pongs = r.pongs
  /\ re'.pongSent = [i \in 1..Len(PongFrames(r.sent)) |-> PongFrames(r.sent)[i].p]
  /\ re'.closeSent = CloseCodeSent(r.sent)
  /\ re'.drop = r.drop
  /\ cs' = r.st

TOpen == /\ IsEvent("open") /\ l = 1
         /\ ctx' = [role |-> Ev.role, compress |-> Ev.compress, failByDrop |-> Ev.failByDrop,
                    maxFrame |-> Ev.maxFrame, maxMsg |-> Ev.maxMsg]
         /\ UNCHANGED <<cs, failed, inside, kind, u8, msgLen, cmp, cur, re>>

TLocalClose == IsEvent("lclose") /\ LocalClose(CloseCodeSent(Ev.react.sent)) /\ Matches(Ev.react)

THeader == /\ IsEvent("hdr")
           /\ Len(Ev.h) = HdrLen(Ev.h)
           /\ Header(Ev.h, Ev.dlen) \/ AfterFailure \/ AfterClosed
           /\ Matches(Ev.react)

TPayload == /\ IsEvent("pay")
            /\ \/ Payload([n |-> Ev.n, data |-> Ev.data, ascii |-> Ev.ascii, dlen |-> Ev.dlen])
               \/ AfterFailure \/ AfterClosed
            /\ Matches(Ev.react)

\* "failed ... as soon as the header of the offending frame has been read, before its payload is buffered": once the endpoint has
\* failed the connection, none of the payload octets that keep arriving for that frame are kept (Ev.octets = what the endpoint
\* holds of the current frame at the end of the run)
TRetained == /\ IsEvent("retained") /\ (failed => Ev.octets = 0)
             /\ UNCHANGED <<ctx, cs, failed, inside, kind, u8, msgLen, cmp, cur, re>>
TNext == TOpen \/ TLocalClose \/ THeader \/ TPayload \/ TRetained
TraceSpec == TInit /\ [][TNext]_tvars

Progress == TLCSet(tid, IF TLCGet(tid) < l THEN l ELSE TLCGet(tid))
Post ==
  LET rej == {i \in 1..N : TLCGet(i) # Len(Traces[i]) + 1} IN
    /\ \A i \in rej : PrintT(<<"REJECT", i, TLCGet(i)>>)
    /\ PrintT(<<"ACCEPTED", N - Cardinality(rej)>>)
=============================================================================
