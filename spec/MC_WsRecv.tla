------------------------------ MODULE MC_WsRecv ------------------------------
EXTENDS WsRecv

K == <<1, 2, 3, 4>>   \* mask key octets of masked model frames

MCContexts ==
  {[role |-> r, compress |-> c, failByDrop |-> f, maxFrame |-> l[1], maxMsg |-> l[2]] :
     r \in {"server", "client"}, c \in BOOLEAN, f \in BOOLEAN, l \in {<<0, 0>>, <<2, 0>>, <<0, 3>>}}

MCContextsQuick ==
  {[role |-> r, compress |-> c, failByDrop |-> f, maxFrame |-> 0, maxMsg |-> IF c THEN 0 ELSE 3] :
     r \in {"server", "client"}, c \in BOOLEAN, f \in BOOLEAN}

MCContextsLimits ==
  {[role |-> r, compress |-> FALSE, failByDrop |-> f, maxFrame |-> l[1], maxMsg |-> l[2]] :
     r \in {"server", "client"}, f \in BOOLEAN, l \in {<<2, 0>>, <<0, 3>>}}

B0 == {129, 1, 128, 0, 130, 2, 137, 138, 136, 9, 193, 65, 192, 131, 139, 145}
\* text-fin, text, cont-fin, cont, bin-fin, bin, ping, pong, close, ping-nofin, rsv1 text-fin, rsv1 text, rsv1 cont-fin,
\* reserved data op 3, reserved control op 11, rsv3 text
Kx(m) == IF m = 128 THEN K ELSE <<>>
HS(b0, m) ==
    { <<b0, m + n>> \o Kx(m) : n \in {0, 1, 2} }
    \cup
    { <<b0, m + 126, 0, 126>> \o Kx(m), <<b0, m + 126, 0, 5>> \o Kx(m),
      <<b0, m + 127, 0, 0, 0, 0, 0, 1, 0, 0>> \o Kx(m),
      <<b0, m + 127, 0, 0, 0, 0, 0, 0, 0, 200>> \o Kx(m),
      <<b0, m + 127, 128, 0, 0, 0, 0, 0, 0, 0>> \o Kx(m),
      <<b0, m + 127, 0, 0, 1, 0, 0, 0, 0, 0>> \o Kx(m) }
MCHeaders == UNION { HS(b0, m) : b0 \in B0, m \in {0, 128} }

D(n, data) == [n |-> n, data |-> data, ascii |-> FALSE, dlen |-> n]
MCPayloads ==
  { D(1, <<97>>), D(1, <<195>>), D(1, <<169>>), D(1, <<255>>),
    D(2, <<97, 98>>), D(2, <<195, 169>>), D(2, <<195, 40>>), D(2, <<3, 232>>), D(2, <<3, 237>>), D(2, <<3, 244>>),
    D(2, <<11, 184>>), D(2, <<19, 136>>),
    [n |-> 126, data |-> <<>>, ascii |-> TRUE, dlen |-> 126], [n |-> 65536, data |-> <<>>, ascii |-> TRUE, dlen |-> 65536] }

Bound == msgLen <= 260 /\ TLCGet("level") <= 9
=============================================================================
