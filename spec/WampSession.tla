----------------------------- MODULE WampSession -----------------------------
(***************************************************************************)
(* The WAMP client session (wamp/protocol.py ApplicationSession) as a      *)
(* record s and one pure operator per entry point; every operator returns  *)
(* [s |-> next state, re |-> reaction], the reaction being everything the  *)
(* application / router can observe for that step:                         *)
(*   out     messages handed to the transport, in order                    *)
(*   cbs     session callbacks (onConnect, onJoin, ...) fired, in order    *)
(*   evs     observer events (connect, join, ready, leave, disconnect)     *)
(*           fired, in order (on asyncio these run a loop turn later than  *)
(*           the callbacks, so the two orders are stated separately)       *)
(*   done    request completions  [id, ok]   (ok = TRUE result, FALSE err) *)
(*   hcalls  event handler invocations  <<handler id>>                     *)
(*   ecalls  endpoint invocations [reg, req]                               *)
(*   prog    progress-handler invocations <<call id>>                      *)
(*   closes  transport.close() calls                                       *)
(*   exc     exception raised to the caller ("" = none)                    *)
(*                                                                         *)
(* Entry points: Open (ITransportHandler.onOpen), Rx(m)                    *)
(* (onMessage), Lost (onClose), and the API calls Call, Publish,           *)
(* Subscribe, Unsubscribe, Register, Unregister, Leave, Disconnect; for    *)
(* invocations the endpoint's behaviour is a parameter (returns at once /  *)
(* raises / returns a pending result that Resolve / Progress act on        *)
(* later).  Serves C04 (requests), C06 (session lifecycle), C10            *)
(* (invocations), C11 (events), C18 (errors), C20 (payload encryption      *)
(* flag).                                                                  *)
(***************************************************************************)
EXTENDS Integers, Sequences, FiniteSets, TLC

Kinds == {"call", "publish", "subscribe", "unsubscribe", "register", "unregister"}
NoRe == [out |-> <<>>, cbs |-> <<>>, evs |-> <<>>, done |-> <<>>, hcalls |-> <<>>, ecalls |-> <<>>, prog |-> <<>>, closes |-> 0, exc |-> ""]

\* pend[k] : set of [id, x]  (x: call -> has progress handler (0/1), +2 once the caller cancelled it (its result has
\*                            completed, the table entry waits for the router's answer); subscribe -> handler id;
\*                            unsubscribe -> sub id; unregister -> reg id; others 0)
S0 == [tr |-> FALSE, joined |-> FALSE, gb |-> FALSE, hello |-> FALSE, nreq |-> 0,
       ackf |-> FALSE,       \* the broker announced acknowledged event delivery in its WELCOME
       pend |-> [k \in Kinds |-> {}],
       subs |-> {},          \* set of [sub, hs]  hs = sequence of handler ids (possibly empty while UNSUBSCRIBE is in flight)
       regs |-> {},          \* set of registration ids
       invs |-> {}]          \* set of [req, rp]  invocations whose endpoint has not finished; rp = caller wants progress

Ids(ps) == {p.id : p \in ps}
Get(ps, id) == CHOOSE p \in ps : p.id = id
SubOf(s, sub) == CHOOSE x \in s.subs : x.sub = sub
HasSub(s, sub) == \E x \in s.subs : x.sub = sub
AllPending(s) == UNION {Ids(s.pend[k]) : k \in Kinds}
CancelledCalls(s) == {p.id : p \in {q \in s.pend["call"] : q.x >= 2}}
\* requests whose result is still open (a cancelled call's result has completed already)
AllOpen(s) == AllPending(s) \ CancelledCalls(s)
SetToSortedSeq(S) == \* ids in increasing order (completion order of the cleanup is by table, then id: not compared)
  LET RECURSIVE F(_) F(T) == IF T = {} THEN <<>> ELSE LET m == CHOOSE x \in T : \A y \in T : x <= y IN <<m>> \o F(T \ {m}) IN F(S)

Mk(s, re) == [s |-> s, re |-> re]

\* ---------------------------------------------------------------- request ids on the wire (C04)
\* Request ids are sequential from 1 and wrap from 2^53 to 1 (util.IdGenerator); an id is the limb pair <<hi, lo>> with
\* id = hi * 2^27 + lo because TLC integers have 32 bits.  The counter p holds the id issued last (<<0, 0>>: none yet).
Radix == 134217728
IdMaxP == <<67108864, 0>>                                  \* 2^53
IdSucc(p) == IF p = IdMaxP THEN <<0, 1>> ELSE IF p[2] = Radix - 1 THEN <<p[1] + 1, 0>> ELSE <<p[1], p[2] + 1>>
IdInRange(p) == /\ p[1] >= 0 /\ p[1] <= IdMaxP[1] /\ p[2] >= 0 /\ p[2] < Radix
                /\ p # <<0, 0>> /\ (p[1] = IdMaxP[1] => p[2] = 0)
RECURSIVE IdAfter(_, _)
IdAfter(p, k) == IF k = 0 THEN p ELSE IdAfter(IdSucc(p), k - 1)
ASSUME /\ IdAfter(<<0, 0>>, 3) = <<0, 3>> /\ IdSucc(<<0, Radix - 1>>) = <<1, 0>> /\ IdSucc(IdMaxP) = <<0, 1>>
       /\ \A k \in 1..8 : IdInRange(IdAfter(<<IdMaxP[1] - 1, Radix - 3>>, k))
       /\ ~IdInRange(<<0, 0>>) /\ ~IdInRange(<<IdMaxP[1], 1>>) /\ IdInRange(IdMaxP)

\* ---------------------------------------------------------------- session lifecycle (C06)
\* every pending request is completed with an error; the tables are emptied
FailAll(s) == [done |-> [i \in 1..Cardinality(AllOpen(s)) |-> [id |-> SetToSortedSeq(AllOpen(s))[i], ok |-> FALSE]],
               s |-> [s EXCEPT !.pend = [k \in Kinds |-> {}]]]

Open(s) == Mk([s EXCEPT !.tr = TRUE, !.hello = TRUE, !.gb = FALSE],
              [NoRe EXCEPT !.cbs = <<"onConnect">>, !.evs = <<"connect">>, !.out = <<[t |-> "hello"]>>])

\* the session ends while joined or by ABORT: onLeave (default: fail everything pending, then close the transport)
EndSession(s, reply) ==
  LET f == FailAll(s) IN
  Mk([f.s EXCEPT !.joined = FALSE],
     [NoRe EXCEPT !.out = reply, !.cbs = <<"onLeave">>, !.evs = <<"leave">>, !.done = f.done, !.closes = IF s.tr THEN 1 ELSE 0])

\* u = what the user callbacks do: [welcome |-> "ok"|"deny"|"raise", challenge |-> "ok"|"raise"]
RxHandshake(s, m, u) ==
  CASE m.t = "welcome" ->
         IF u.welcome = "ok"
         THEN Mk([s EXCEPT !.joined = TRUE, !.ackf = m.ackf], [NoRe EXCEPT !.cbs = <<"onWelcome", "onJoin">>, !.evs = <<"join", "ready">>])
         ELSE Mk(s, [NoRe EXCEPT !.cbs = <<"onWelcome">>, !.out = <<[t |-> "abort"]>>])
    [] m.t = "abort" -> EndSession(s, <<>>)
    [] m.t = "challenge" ->
         IF u.challenge = "ok"
         THEN Mk(s, [NoRe EXCEPT !.cbs = <<"onChallenge">>, !.out = <<[t |-> "authenticate"]>>])
         ELSE LET e == EndSession(s, <<[t |-> "abort"]>>) IN Mk(e.s, [e.re EXCEPT !.cbs = <<"onChallenge", "onLeave">>])
    [] OTHER -> Mk(s, [NoRe EXCEPT !.exc = "ProtocolError"])       \* anything else before the session is established

Leave(s) ==
  IF ~s.joined \/ s.gb THEN Mk(s, NoRe)
  ELSE Mk([s EXCEPT !.gb = TRUE], [NoRe EXCEPT !.out = <<[t |-> "goodbye"]>>])

\* the transport refuses the GOODBYE (e.g. a closing message beyond its size limit): leave() fails, nothing was said, so the
\* session has not begun to leave (a router GOODBYE is still answered, a later leave() still says GOODBYE)
LeaveFails(s, why) ==
  IF ~s.joined \/ s.gb THEN Mk(s, NoRe) ELSE Mk(s, [NoRe EXCEPT !.exc = why])

Disconnect(s) == Mk(s, [NoRe EXCEPT !.closes = IF s.tr THEN 1 ELSE 0])

Lost(s) ==
  IF ~s.tr THEN Mk(s, NoRe)
  ELSE LET f == FailAll(s) IN
       Mk([f.s EXCEPT !.tr = FALSE, !.joined = FALSE],
          [NoRe EXCEPT !.cbs = (IF s.joined THEN <<"onLeave">> ELSE <<>>) \o <<"onDisconnect">>,
                       !.evs = (IF s.joined THEN <<"leave">> ELSE <<>>) \o <<"disconnect">>,
                       !.done = f.done])

\* a user onLeave that fails (after the default clean-up has run): the session ends exactly as otherwise - state, callbacks,
\* completions, replies - only the listeners are not told "leave" (the event is fired when the callback returns)
LeaveRaises(r) == Mk(r.s, [r.re EXCEPT !.evs = SelectSeq(@, LAMBDA v : v # "leave")])

\* ---------------------------------------------------------------- requests (C04)
\* a request API call: fails fast without a transport, otherwise a fresh id (previous + 1), one message, one pending entry
Request(s, kind, x, pending) ==
  IF ~s.tr THEN Mk(s, [NoRe EXCEPT !.exc = "TransportLost"])
  ELSE LET id == s.nreq + 1 IN
       Mk([s EXCEPT !.nreq = id, !.pend[kind] = IF pending THEN @ \cup {[id |-> id, x |-> x]} ELSE @],
          [NoRe EXCEPT !.out = <<[t |-> kind, req |-> id]>>])

\* the transport refuses the request message (payload cannot be serialised / exceeds the size limit): the id is spent, nothing is
\* sent, nothing stays pending (so that a later reply bearing that id is a protocol violation), the caller gets the error
RequestFails(s, why) ==
  IF ~s.tr THEN Mk(s, [NoRe EXCEPT !.exc = "TransportLost"])
  ELSE Mk([s EXCEPT !.nreq = @ + 1], [NoRe EXCEPT !.exc = why])
Call(s, hasProgress) == Request(s, "call", IF hasProgress THEN 1 ELSE 0, TRUE)
Publish(s, ack) == Request(s, "publish", 0, ack)
Subscribe(s, h) == Request(s, "subscribe", h, TRUE)
Register(s) == Request(s, "register", 0, TRUE)
Unregister(s, reg) == Request(s, "unregister", reg, TRUE)

\* removing handler h from subscription sub: UNSUBSCRIBE goes out exactly when the last handler is removed
\* (pos = which of the subscription's handler entries: the same handler may be attached more than once)
Unsubscribe(s, sub, h, pos) ==
  IF ~s.tr THEN Mk(s, [NoRe EXCEPT !.exc = "TransportLost"])
  ELSE LET x == SubOf(s, sub)
           hs == [i \in 1..(Len(x.hs) - 1) |-> IF i < pos THEN x.hs[i] ELSE x.hs[i + 1]]
           s1 == [s EXCEPT !.subs = (@ \ {x}) \cup {[sub |-> sub, hs |-> hs]}]
       IN IF Len(hs) = 0
          THEN LET r == Request(s1, "unsubscribe", sub, TRUE) IN r
          ELSE Mk(s1, [NoRe EXCEPT !.done = <<[id |-> 0, ok |-> TRUE]>>])       \* completes at once, nothing sent

Complete(s, kind, id, ok) ==
  Mk([s EXCEPT !.pend[kind] = {p \in @ : p.id # id}],
     [NoRe EXCEPT !.done = IF id \in CancelledCalls(s) THEN <<>> ELSE <<[id |-> id, ok |-> ok]>>])   \* a cancelled call completed when cancelled

\* the caller cancels the result of a pending call: CANCEL goes out once, the result fails now, the request stays known
\* until the router answers (ERROR wamp.error.canceled, or a RESULT that was already on its way)
CancelCall(s, req) ==
  IF req \notin Ids(s.pend["call"]) \/ req \in CancelledCalls(s) THEN Mk(s, NoRe)
  ELSE LET p == Get(s.pend["call"], req) IN
       Mk([s EXCEPT !.pend["call"] = (@ \ {p}) \cup {[id |-> req, x |-> p.x + 2]}],
          [NoRe EXCEPT !.out = IF s.tr THEN <<[t |-> "cancel", req |-> req]>> ELSE <<>>, !.done = <<[id |-> req, ok |-> FALSE]>>])
Violation(s) == Mk(s, [NoRe EXCEPT !.exc = "ProtocolError"])

\* ---------------------------------------------------------------- invocations (C10)
\* beh: what the endpoint does.  Terminal replies: exactly one YIELD (no progress flag) or ERROR per invocation.
SyncBehaviours == {"value", "callresult", "none", "unserializable", "oversize", "apperror", "bigerror", "mapped", "unmapped"}
ReplyOf(beh) == IF beh \in {"value", "callresult", "none"} THEN "yield" ELSE "error"

Invocation(s, m, beh) ==
  IF m.req \in {i.req : i \in s.invs} \/ m.reg \notin s.regs THEN Violation(s)
  ELSE IF beh = "pending"
  THEN Mk([s EXCEPT !.invs = @ \cup {[req |-> m.req, rp |-> m.rp]}], [NoRe EXCEPT !.ecalls = <<[reg |-> m.reg, req |-> m.req]>>])
  ELSE Mk(s, [NoRe EXCEPT !.ecalls = <<[reg |-> m.reg, req |-> m.req]>>, !.out = <<[t |-> ReplyOf(beh), req |-> m.req, progress |-> FALSE]>>])

\* the endpoint's pending result resolves (how = a sync behaviour) - the terminal reply goes out unless the transport is gone
Resolve(s, req, how) ==
  LET i == CHOOSE x \in s.invs : x.req = req IN
  Mk([s EXCEPT !.invs = @ \ {i}],
     [NoRe EXCEPT !.out = IF s.tr THEN <<[t |-> ReplyOf(how), req |-> req, progress |-> FALSE]>> ELSE <<>>])

\* the endpoint emits a progressive result: only possible if the caller asked for progress (details.progress is set)
Progress(s, req) ==
  LET i == CHOOSE x \in s.invs : x.req = req IN
  IF i.rp /\ s.tr THEN Mk(s, [NoRe EXCEPT !.out = <<[t |-> "yield", req |-> req, progress |-> TRUE]>>]) ELSE Mk(s, NoRe)

Interrupt(s, req) ==
  IF req \in {i.req : i \in s.invs} THEN Resolve(s, req, "apperror")     \* the pending result is cancelled -> ERROR
  ELSE Mk(s, NoRe)                                                        \* not (or no longer) running: ignored

\* ---------------------------------------------------------------- events (C11)
\* Acknowledged delivery (growth beyond the listed clauses): an EVENT flagged x_acknowledged_delivery by a broker that announced the
\* feature is answered with EVENT_RECEIVED once the handler has returned normally.  The code answers once per handler of the
\* subscription (not once per event - upstream issue 764); the model says what the code does.  bad = handler ids that raise.
InSeq(x, q) == \E i \in 1..Len(q) : q[i] = x
Acks(s, hs, ack, bad) ==
  IF ack /\ s.ackf /\ s.tr THEN [i \in 1..Len(SelectSeq(hs, LAMBDA h : ~InSeq(h, bad))) |-> [t |-> "event_received"]] ELSE <<>>
Event(s, sub, ack, bad) ==
  IF ~HasSub(s, sub) THEN Violation(s)
  ELSE Mk(s, [NoRe EXCEPT !.hcalls = SubOf(s, sub).hs,             \* every current handler once, in subscription order
                          !.out = Acks(s, SubOf(s, sub).hs, ack, bad)])

\* an EVENT during whose dispatch the handler at position p unsubscribes the handler at position q (q = p: itself).  Every
\* handler subscribed when the event arrived is invoked, in order, except one that was unsubscribed before its turn (q > p);
\* the removal itself behaves like Unsubscribe (UNSUBSCRIBE goes out when the last handler is removed).
EventRe(s, sub, p, q) ==
  IF ~HasSub(s, sub) THEN Violation(s)
  ELSE LET hs == SubOf(s, sub).hs IN
       IF p = 0 \/ p > Len(hs) \/ q > Len(hs) \/ q = 0 THEN Event(s, sub, FALSE, <<>>)
       ELSE LET un == Unsubscribe(s, sub, hs[q], q)
                keep == SelectSeq([i \in 1..Len(hs) |-> i], LAMBDA i : ~(i = q /\ q > p))
            IN Mk(un.s, [un.re EXCEPT !.hcalls = [k \in 1..Len(keep) |-> hs[keep[k]]]])

\* ---------------------------------------------------------------- onMessage in an established session
RxSession(s, m, beh) ==
  CASE m.t = "goodbye" -> EndSession(s, IF s.gb THEN <<>> ELSE <<[t |-> "goodbye"]>>)
    [] m.t = "result" ->
         IF m.req \notin Ids(s.pend["call"]) THEN Violation(s)
         ELSE IF m.progress
         THEN Mk(s, [NoRe EXCEPT !.prog = IF Get(s.pend["call"], m.req).x % 2 = 1 THEN <<m.req>> ELSE <<>>])
         ELSE Complete(s, "call", m.req, TRUE)
    [] m.t = "error" ->
         IF m.kind \in Kinds /\ m.req \in Ids(s.pend[m.kind]) THEN Complete(s, m.kind, m.req, FALSE) ELSE Violation(s)
    [] m.t = "published" -> IF m.req \in Ids(s.pend["publish"]) THEN Complete(s, "publish", m.req, TRUE) ELSE Violation(s)
    [] m.t = "subscribed" ->
         IF m.req \notin Ids(s.pend["subscribe"]) THEN Violation(s)
         ELSE LET h == Get(s.pend["subscribe"], m.req).x
                  old == IF HasSub(s, m.sub) THEN SubOf(s, m.sub).hs ELSE <<>>
                  r == Complete(s, "subscribe", m.req, TRUE)
                  r2 == Mk([r.s EXCEPT !.subs = {x \in @ : x.sub # m.sub} \cup {[sub |-> m.sub, hs |-> Append(old, h)]}], r.re)
              IN IF ~m.unsub THEN r2
                 \* the application unsubscribes in the continuation of subscribe(): the handler is already recorded then
                 ELSE LET un == Unsubscribe(r2.s, m.sub, h, Len(old) + 1) IN
                      Mk(un.s, [un.re EXCEPT !.done = r2.re.done \o un.re.done])
    [] m.t = "unsubscribed" ->
         IF m.req \notin Ids(s.pend["unsubscribe"]) THEN Violation(s)
         ELSE LET sub == Get(s.pend["unsubscribe"], m.req).x
                  r == Complete(s, "unsubscribe", m.req, TRUE)
              IN Mk([r.s EXCEPT !.subs = {x \in @ : x.sub # sub}], r.re)
    [] m.t = "registered" ->
         IF m.req \notin Ids(s.pend["register"]) \/ m.reg \in s.regs THEN Violation(s)
         ELSE LET r == Complete(s, "register", m.req, TRUE) IN Mk([r.s EXCEPT !.regs = @ \cup {m.reg}], r.re)
    [] m.t = "unregistered" ->
         IF m.req \notin Ids(s.pend["unregister"]) THEN Violation(s)
         ELSE LET reg == Get(s.pend["unregister"], m.req).x
                  r == Complete(s, "unregister", m.req, TRUE)
              IN Mk([r.s EXCEPT !.regs = @ \ {reg}], r.re)
    [] m.t = "event" -> IF m.ack THEN Event(s, m.sub, TRUE, m.bad) ELSE EventRe(s, m.sub, m.p, m.q)
    [] m.t = "invocation" -> Invocation(s, m, beh)
    [] m.t = "interrupt" -> Interrupt(s, m.req)
    [] OTHER -> Violation(s)                                   \* handshake messages after the session is established

Rx(s, m, u, beh) == IF s.joined THEN RxSession(s, m, beh) ELSE RxHandshake(s, m, u)

(***************************************************************************)
(* Exhaustive model: the router sends anything, the application calls      *)
(* anything, the transport may be lost at any point.                       *)
(***************************************************************************)
CONSTANTS MaxEvents, MaxReq, SubIds, RegIds, Handlers

VARIABLES s, re, n, hist
\* hist: ghost history for the properties: [issued, completed (bag as sequence), terminal (per invocation), cbseq]
vars == <<s, re, n, hist>>

H0 == [completed |-> <<>>, terminals |-> <<>>, invoked |-> {}, stale |-> {}, cbs |-> <<>>, evs |-> <<>>, goodbyes |-> 0, lostAt |-> 0, opens |-> 0]
Init == s = S0 /\ re = NoRe /\ n = 0 /\ hist = H0

Terminals(out) == SelectSeq(out, LAMBDA o : o.t \in {"yield", "error"} /\ ~o.progress)
IsOpenStep(r) == Len(r.re.cbs) > 0 /\ r.re.cbs[1] = "onConnect"
Apply(r) ==
  /\ n < MaxEvents /\ n' = n + 1
  /\ s' = r.s /\ re' = r.re
  \* (callbacks, listener events and GOODBYEs are counted per transport connection: a session object may be opened again)
  /\ hist' = [[hist EXCEPT !.cbs = IF IsOpenStep(r) THEN <<>> ELSE @, !.evs = IF IsOpenStep(r) THEN <<>> ELSE @,
                            !.goodbyes = IF IsOpenStep(r) THEN 0 ELSE @, !.opens = IF IsOpenStep(r) THEN @ + 1 ELSE @,
                            \* (invocations belong to a connection too: what was running when the transport went is owed no reply)
                            !.invoked = IF IsOpenStep(r) THEN {} ELSE @, !.terminals = IF IsOpenStep(r) THEN <<>> ELSE @,
                            \* endpoints still running from the previous connection of this session object: when they finish, the code
                            \* sends their reply on the *new* connection (observation, DESIGN 13.3; found by TLC at MaxEvents = 8)
                            !.stale = IF IsOpenStep(r) THEN {i.req : i \in s.invs} ELSE @]
               EXCEPT !.completed = @ \o [i \in 1..Len(r.re.done) |-> r.re.done[i].id],
                          !.terminals = @ \o [i \in 1..Len(Terminals(r.re.out)) |-> Terminals(r.re.out)[i].req],
                          !.invoked = @ \cup {r.re.ecalls[i].req : i \in 1..Len(r.re.ecalls)},
                          !.cbs = @ \o r.re.cbs, !.evs = @ \o r.re.evs,
                          !.goodbyes = @ + Len(SelectSeq(r.re.out, LAMBDA o : o.t = "goodbye"))]

U == [welcome : {"ok", "deny"}, challenge : {"ok", "raise"}]
U0 == [welcome |-> "ok", challenge |-> "ok"]
Count(seq, c) == Len(SelectSeq(seq, LAMBDA x : x = c))
RouterMsgs ==
  {[t |-> "welcome", ackf |-> a] : a \in BOOLEAN} \cup {[t |-> "abort"], [t |-> "challenge"], [t |-> "goodbye"]}
  \cup {[t |-> "result", req |-> r, progress |-> p] : r \in 1..MaxReq, p \in BOOLEAN}
  \cup {[t |-> "error", kind |-> k, req |-> r] : k \in Kinds, r \in 1..MaxReq}
  \cup {[t |-> x, req |-> r] : x \in {"published", "unsubscribed", "unregistered"}, r \in 1..MaxReq}
  \cup {[t |-> "subscribed", req |-> r, sub |-> b, unsub |-> u] : r \in 1..MaxReq, b \in SubIds, u \in BOOLEAN}
  \cup {[t |-> "registered", req |-> r, reg |-> g] : r \in 1..MaxReq, g \in RegIds}
  \cup {[t |-> "event", sub |-> b, p |-> pq[1], q |-> pq[2], ack |-> FALSE, bad |-> <<>>] : b \in SubIds, pq \in {<<0, 0>>, <<1, 1>>, <<1, 2>>, <<2, 1>>, <<2, 2>>}}
  \cup {[t |-> "event", sub |-> b, p |-> 0, q |-> 0, ack |-> TRUE, bad |-> bd] : b \in SubIds, bd \in {<<>>, <<1>>}}
  \cup {[t |-> "invocation", req |-> r, reg |-> g, rp |-> p] : r \in 1..MaxReq, g \in RegIds, p \in BOOLEAN}
  \cup {[t |-> "interrupt", req |-> r] : r \in 1..MaxReq}

Next ==
  \/ ~s.tr /\ hist.opens < 2 /\ Apply(Open(s))             \* (a second transport connection for the same session object)
  \/ s.tr /\ \E m \in RouterMsgs :
        \* (a router following the session state machine sends WELCOME at most once per connection)
        /\ m.t = "welcome" => Count(hist.cbs, "onJoin") = 0
        /\ m.t = "invocation" => m.req \notin hist.invoked \cup hist.stale     \* (... and never reuses an invocation request id)
        /\ (m.t = "subscribed" /\ m.unsub) => s.nreq < MaxReq
        /\ (m.t = "event" /\ m.p > 0) => s.nreq < MaxReq            \* (a re-entrant unsubscribe may issue a request: same bound as the API)
        /\ IF m.t \in {"welcome", "challenge"} THEN \E u \in U : Apply(Rx(s, m, u, "value"))
           ELSE IF m.t = "invocation" THEN \E beh \in SyncBehaviours \cup {"pending"} : Apply(Rx(s, m, U0, beh))
           ELSE Apply(Rx(s, m, U0, "value"))
  \/ s.tr /\ Apply(Lost(s))
  \/ s.hello /\ Apply(Leave(s))
  \/ s.hello /\ Apply(LeaveFails(s, "PayloadExceededError"))
  \/ s.hello /\ Apply(Disconnect(s))
  \/ s.hello /\ s.nreq < MaxReq /\
       \/ \E p \in BOOLEAN : Apply(Call(s, p))
       \/ \E w \in {"SerializationError", "PayloadExceededError"} : Apply(RequestFails(s, w))
       \/ \E c \in s.pend["call"] : Apply(CancelCall(s, c.id))
       \/ \E a \in BOOLEAN : Apply(Publish(s, a))
       \/ \E h \in Handlers : Apply(Subscribe(s, h))
       \/ Apply(Register(s))
       \/ \E g \in s.regs : Apply(Unregister(s, g))
  \/ s.hello /\ s.nreq < MaxReq /\ \E x \in s.subs : \E i \in 1..Len(x.hs) : Apply(Unsubscribe(s, x.sub, x.hs[i], i))
  \/ \E i \in s.invs : \E how \in SyncBehaviours : Apply(Resolve(s, i.req, how))
  \/ \E i \in s.invs : Apply(Progress(s, i.req))

Spec == Init /\ [][Next]_vars

\* ---------------------------------------------------------------- properties
\* C04
FreshSequentialIds == s.nreq <= MaxReq /\ \A k \in Kinds : \A p \in s.pend[k] : p.id >= 1 /\ p.id <= s.nreq
ExactlyOnce == \A i, j \in 1..Len(hist.completed) : (i # j /\ hist.completed[i] # 0) => hist.completed[i] # hist.completed[j]
OnlyOwnReply == \A i \in 1..Len(re.done) : re.done[i].id = 0 \/ re.done[i].id \notin AllOpen(s)
CancelSentOnce == Len(SelectSeq(re.out, LAMBDA o : o.t = "cancel")) <= 1
UnknownReplyIsViolation == (re.exc = "ProtocolError") => (re.done = <<>> /\ re.out = <<>> /\ re.hcalls = <<>> /\ re.ecalls = <<>>)
\* C06
NothingPendingWithoutSession == (~s.tr) => AllPending(s) = {}
NothingPendingAfterSessionEnd == [][(s.joined /\ ~s'.joined) => AllPending(s') = {}]_vars
GoodbyeAtMostOncePerSession == hist.goodbyes <= 1
CallbackOrder ==
  /\ Count(hist.cbs, "onDisconnect") <= Count(hist.cbs, "onConnect")
  /\ Count(hist.cbs, "onJoin") <= Count(hist.cbs, "onConnect")
  /\ Count(hist.cbs, "onJoin") <= 1 /\ Count(hist.cbs, "onDisconnect") <= 1 /\ Count(hist.cbs, "onConnect") <= 1
  \* a joined session that ended was told so exactly once
  /\ (Count(hist.cbs, "onJoin") = 1 /\ ~s.joined) => Count(hist.cbs, "onLeave") >= 1
  \* listeners see the same lifecycle: connect, join (+ready), leave, disconnect
  /\ Count(hist.evs, "join") = Count(hist.cbs, "onJoin") /\ Count(hist.evs, "disconnect") = Count(hist.cbs, "onDisconnect")
  /\ Count(hist.evs, "connect") = Count(hist.cbs, "onConnect")
JoinedImpliesTransport == s.joined => s.tr
ApiFailsFastAfterEnd == (~s.tr /\ re.exc = "TransportLost") => re.out = <<>>
\* C10
AtMostOneTerminal == \A i, j \in 1..Len(hist.terminals) : i # j => hist.terminals[i] # hist.terminals[j]
TerminalOnlyForInvoked == \A i \in 1..Len(hist.terminals) : hist.terminals[i] \in hist.invoked \cup hist.stale
ExactlyOneTerminalWhileUp ==
  s.tr => \A r \in hist.invoked : (r \in {i.req : i \in s.invs}) \/ (\E i \in 1..Len(hist.terminals) : hist.terminals[i] = r)
ProgressOnlyWhileRunning ==
  \A i \in 1..Len(re.out) : (re.out[i].t = "yield" /\ re.out[i].progress) => \E x \in s.invs : x.req = re.out[i].req /\ x.rp
\* C11
\* EVENT_RECEIVED goes out only for the handlers just invoked, and only when the broker announced the feature
AcksOnlyWhenAnnounced == LET k == Len(SelectSeq(re.out, LAMBDA o : o.t = "event_received")) IN k <= Len(re.hcalls) /\ (k > 0 => s.ackf)
\* only handlers that were subscribed when the event arrived are invoked (pre-state: a handler may unsubscribe itself while running)
HandlersWereCurrent == [][\A i \in 1..Len(re'.hcalls) : \E x \in s.subs : \E j \in 1..Len(x.hs) : x.hs[j] = re'.hcalls[i]]_vars
=============================================================================
