----------------------------- MODULE WsHandshake -----------------------------
(***************************************************************************)
(* The opening handshake (RFC 6455 section 4) as two decision procedures   *)
(* over FEATURES of the HTTP header block, one feature per element the RFC *)
(* (or the library's documented configuration) constrains, each with a     *)
(* small domain of fault values:                                           *)
(*   ServerOpens(req, cfg)   4.2.1 / 4.2.2 + version, origin allow-list,   *)
(*                           connection limit, onConnect verdict           *)
(*   ClientOpens(resp)       4.1 (validation of the server response)       *)
(* Code anchors: WebSocketServerProtocol.processHandshake /               *)
(* succeedHandshake / failHandshake, WebSocketClientProtocol.              *)
(* processHandshake / failHandshake / _actuallyStartHandshake.             *)
(*                                                                         *)
(* The exhaustive "model" is the table itself: TLC enumerates every        *)
(* request / response with at most two faulty features (ReqCases,          *)
(* RespCases), exports it (WsHandshakeExport), the driver concretises each *)
(* case into octets (several spellings / segmentations) and feeds it to a  *)
(* real endpoint; WsHandshakeTrace re-judges every observed outcome.       *)
(***************************************************************************)
EXTENDS Integers, FiniteSets, Sequences, TLC

\* ---- request features: value "ok" (or a benign variant starting with "ok") is RFC-conformant
ReqDom ==
  [ line    |-> {"ok", "post", "http10", "two-parts", "fragment", "badversion"},     \* "HTTP/1.x", "HTTP/1.1junk", "HTTP/1.1.1": no HTTP version
    host    |-> {"ok", "missing", "dup", "badport"},
    upgrade |-> {"ok", "ok-mixedcase", "ok-in-list", "missing", "other", "superstring"},      \* "websocket2", "xwebsocket": not the token
    conn    |-> {"ok", "ok-in-list", "missing", "other"},
    version |-> {"ok", "ok-8", "unsupported", "missing", "dup", "nonint"},
    key     |-> {"ok", "missing", "dup", "short", "badpad", "badchar"},
    origin  |-> {"ok-absent", "ok-allowed", "notallowed", "allowed-as-prefix", "null", "dup", "unparsable"},
    protos  |-> {"ok-none", "ok-list", "dup"},
    exts    |-> {"ok-none", "ok-deflate", "ok-unknown", "dup", "emptyparam"},     \* "..; param=" (empty value): the offer is invalid; either declined or 400
    onconn  |-> {"ok-none", "ok-listed", "unlisted", "deny", "raises"} ]
ReqFeatures == DOMAIN ReqDom
IsOk(v) == v = "ok" \/ (Len(v) > 2 /\ SubSeq(v, 1, 3) = "ok-")

\* cfg = [origins ("any" | "list"), allowNull, full (connection limit reached), webStatus]
OriginOk(o, cfg) ==
  CASE o \in {"ok-absent"} -> TRUE
    [] o = "ok-allowed" -> TRUE
    [] o = "null" -> cfg.allowNull                                         \* the null origin matches no pattern
    [] o \in {"notallowed", "allowed-as-prefix"} -> cfg.origins = "any"     \* the allow-list matches whole origins only
    [] OTHER -> FALSE
\* the server can only select a subprotocol the client listed
OnConnOk(oc, protos) == oc \in {"ok-none"} \/ (oc = "ok-listed" /\ protos = "ok-list")

ServerOpens(r, cfg) ==
  /\ \A f \in ReqFeatures \ {"origin", "onconn"} : IsOk(r[f])
  /\ OriginOk(r.origin, cfg)
  /\ ~cfg.full
  /\ OnConnOk(r.onconn, r.protos)

\* an invalid extension offer may be declined (handshake completes without it) or refused: both conform
EitherExts(r) == r.exts = "emptyparam"
\* every case with at most two faulty features (all other features "ok"/first benign value)
Base == [line |-> "ok", host |-> "ok", upgrade |-> "ok", conn |-> "ok", version |-> "ok", key |-> "ok",
         origin |-> "ok-absent", protos |-> "ok-none", exts |-> "ok-none", onconn |-> "ok-none"]
ReqCases ==
  {Base}
  \cup {[Base EXCEPT ![f] = v] : f \in ReqFeatures, v \in UNION {ReqDom[g] : g \in ReqFeatures}} 
  \cup {[Base EXCEPT ![f] = v, ![g] = w] : f \in ReqFeatures, g \in ReqFeatures,
                                            v \in UNION {ReqDom[h] : h \in ReqFeatures}, w \in UNION {ReqDom[h] : h \in ReqFeatures}}
WellTyped(r) == \A f \in ReqFeatures : r[f] \in ReqDom[f]
ReqTable == {r \in ReqCases : WellTyped(r)}

\* ---- response features (client side)
RespDom ==
  [ status  |-> {"ok", "200", "404", "malformed"},
    upgrade |-> {"ok", "ok-mixedcase", "missing", "other", "superstring"},
    conn    |-> {"ok", "missing", "other"},
    accept  |-> {"ok", "missing", "dup", "wrong", "wrong-case", "other-key"},     \* wrong-case: right letters, other case = another value
    proto   |-> {"ok-none", "ok-requested", "notrequested", "substring-of-requested", "dup"},
    exts    |-> {"ok-none", "unknown", "emptyparam"} ]
RespFeatures == DOMAIN RespDom
ClientOpens(p) == \A f \in RespFeatures : IsOk(p[f])
RBase == [status |-> "ok", upgrade |-> "ok", conn |-> "ok", accept |-> "ok", proto |-> "ok-none", exts |-> "ok-none"]
RespTable ==
  {p \in ({RBase}
     \cup {[RBase EXCEPT ![f] = v] : f \in RespFeatures, v \in UNION {RespDom[g] : g \in RespFeatures}}
     \cup {[RBase EXCEPT ![f] = v, ![g] = w] : f \in RespFeatures, g \in RespFeatures,
                                               v \in UNION {RespDom[h] : h \in RespFeatures}, w \in UNION {RespDom[h] : h \in RespFeatures}})
     : \A f \in RespFeatures : p[f] \in RespDom[f]}

\* ---- the library's own client against its own server: completes whenever the server supports the client's version
PairOpens(m) == m.clientVersionSupported

\* sanity of the tables (checked by TLC as ASSUMEs in WsHandshakeExport)
TablesSane ==
  /\ Base \in ReqTable /\ ServerOpens(Base, [origins |-> "any", allowNull |-> TRUE, full |-> FALSE, webStatus |-> TRUE])
  /\ \A r \in ReqTable : (\E f \in ReqFeatures \ {"origin", "onconn"} : ~IsOk(r[f])) =>
         ~ServerOpens(r, [origins |-> "any", allowNull |-> TRUE, full |-> FALSE, webStatus |-> TRUE])
  /\ RBase \in RespTable /\ ClientOpens(RBase)
  /\ Cardinality({p \in RespTable : ClientOpens(p)}) >= 4
=============================================================================
