------------------------------ MODULE PmceTrace ------------------------------
(***************************************************************************)
(* Replay of the negotiation lattice through the real classes and the real *)
(* header strings.  One trace = one (offer, accept) pair:                  *)
(*   accept   o, a, raised, oparsed (the offer as the server parsed it     *)
(*            from the offer string), resp (the response as the client     *)
(*            parsed it from the response string), seff (parameters of the *)
(*            server's PerMessageDeflate object)                           *)
(*   caccept  ca, raised, ceff (parameters of the client's object)         *)
(*   hs       fault, opened, compressed   (client handshake on a response  *)
(*            with the given extension fault)                              *)
(***************************************************************************)
EXTENDS Pmce, Sequences, Json, IOUtils, TLCExt

Traces == JsonDeserialize(IOEnv.TRACE_FILE)
N == Len(Traces)
ASSUME \A i \in 1..N : TLCSet(i, 0)

VARIABLES tid, l
tvars == <<o, a, ca, stage, tid, l>>
E == Traces[tid][l]
IsEvent(name) == l <= Len(Traces[tid]) /\ E.ev = name /\ l' = l + 1 /\ UNCHANGED tid

TInit == /\ tid \in 1..N /\ l = 1 /\ stage = "offered"
         /\ o = [acceptNCT |-> FALSE, acceptMWB |-> FALSE, reqNCT |-> FALSE, reqMWB |-> 0] /\ a = NoneA /\ ca = NoneC

RecO(x) == [acceptNCT |-> x.acceptNCT, acceptMWB |-> x.acceptMWB, reqNCT |-> x.reqNCT, reqMWB |-> x.reqMWB]
RecA(x) == [reqNCT |-> x.reqNCT, reqMWB |-> x.reqMWB, nct |-> x.nct, wbits |-> x.wbits]
RecC(x) == [nct |-> x.nct, wbits |-> x.wbits]
RecR(x) == [serverNCT |-> x.serverNCT, serverMWB |-> x.serverMWB, clientNCT |-> x.clientNCT, clientMWB |-> x.clientMWB]
RecE(x) == [s2cW |-> x.s2cW, s2cNCT |-> x.s2cNCT, c2sW |-> x.c2sW, c2sNCT |-> x.c2sNCT]

TAccept ==
  /\ IsEvent("accept")
  /\ o' = RecO(E.o) /\ a' = RecA(E.a) /\ UNCHANGED ca
  /\ o' \in Offers /\ a' \in Accepts
  /\ RecO(E.oparsed) = [o' EXCEPT !.acceptNCT = TRUE]  \* the offer survives its extension string (client NCT is always acceptable)
  /\ E.raised = ~AcceptValid(o', a')                   \* an incompatible accept is refused by the constructor
  /\ ~E.raised => /\ RecR(E.resp) = Response(o', a')
                  /\ ResponseWithinOffer(o', a')
                  /\ RecE(E.seff) = SrvEff(o', a')
  /\ stage' = IF E.raised THEN "refused" ELSE "accepted"

TCAccept ==
  /\ IsEvent("caccept") /\ stage = "accepted"
  /\ LET c1 == RecC(E.ca) r == Response(o, a) IN
       /\ c1 \in CAccepts
       /\ E.raised = ~CAcceptValid(r, c1)
       /\ ~E.raised => /\ RecE(E.ceff) = CliEff(r, c1)
                       /\ DirectionCompatible(o, a, c1)
       /\ ca' = c1
  /\ UNCHANGED <<o, a, stage>>

THs == /\ IsEvent("hs")
       /\ E.fault \in RespFaults
       /\ E.opened = ClientOpens(E.fault)
       /\ E.compressed = ClientCompresses(E.fault)
       /\ E.escaped = ""
       /\ UNCHANGED <<o, a, ca, stage>>

TNext == TAccept \/ TCAccept \/ THs
TraceSpec == TInit /\ [][TNext]_tvars

Progress == TLCSet(tid, IF TLCGet(tid) < l THEN l ELSE TLCGet(tid))
Post ==
  LET rej == {i \in 1..N : TLCGet(i) # Len(Traces[i]) + 1} IN
    /\ \A i \in rej : PrintT(<<"REJECT", i, TLCGet(i)>>)
    /\ PrintT(<<"ACCEPTED", N - Cardinality(rej)>>)
=============================================================================
