------------------------------- MODULE WsConn -------------------------------
(***************************************************************************)
(* Lifecycle of one WebSocket endpoint: CONNECTING -> OPEN -> CLOSING ->   *)
(* CLOSED, close-frame bookkeeping, the transport drop, the close          *)
(* notification, and the five timers (opening handshake, closing           *)
(* handshake, server-did-not-drop, auto-ping send, auto-ping timeout) on a *)
(* discrete virtual clock (unit: half a second).                           *)
(*                                                                         *)
(* One action per entry point of websocket/protocol.py, each a pure        *)
(* operator on the endpoint record c (so that WsConnTrace can apply it to  *)
(* a logged event and compare the complete projection):                    *)
(*   Opened        succeedHandshake / client processHandshake success      *)
(*   LocalClose    sendClose -> sendCloseFrame                             *)
(*   LocalSend     sendMessage / sendPreparedMessage / streaming / sendPing *)
(*   PeerClose     onCloseFrame (valid, empty, illegal code, bad UTF-8)     *)
(*   PeerData / PeerPing / PeerPong   onFrameEnd, processControlFrame      *)
(*   PeerViolation _protocol_violation -> _fail_connection                 *)
(*   Advance       the clock moves on half a second; every timer due fires *)
(*                 (onOpenHandshakeTimeout, onCloseHandshakeTimeout,       *)
(*                 onServerConnectionDropTimeout, _sendAutoPing,           *)
(*                 onAutoPingTimeout), in any order                        *)
(*   ConnLost      _connectionLost (peer dropped TCP / our drop delivered) *)
(* Timers armed through the factory's batched timer fire at the whole      *)
(* second floor(now + delay) (txaio quantisation: up to < 1 s early, never *)
(* late); serverConnectionDropTimeout uses an exact call_later.            *)
(*                                                                         *)
(* The spec states the REQUIRED behaviour: timeout handlers have no effect *)
(* once CLOSED, the auto-ping timeout is armed only if a ping was sent,    *)
(* a client answering a server-initiated close arms its drop timer, and no *)
(* data frame follows a close frame.                                       *)
(***************************************************************************)
EXTENDS Integers, Sequences, FiniteSets, TLC

NoT == -1                       \* timer not armed
H(sec) == 2 * sec               \* seconds -> clock units
Batched(now, sec) == 2 * ((now + H(sec)) \div 2)     \* floor(now + delay) whole seconds
Exact(now, sec) == now + H(sec)

\* cfg = [role, failByDrop, echo, openTO, closeTO, dropTO, pingInt, pingTO, restart]   (timeouts in seconds, 0 = off)

New(cfg, now) ==
  [st |-> "CONNECTING", cbm |-> FALSE, fbm |-> FALSE, dbm |-> FALSE, clean |-> FALSE, why |-> "",
   nclose |-> 0, peerClose |-> FALSE, rcode |-> 0, rreason |-> 0, up |-> TRUE, drop |-> "",
   closes |-> <<>>, lateWrite |-> FALSE, dataAfterClose |-> FALSE,
   tOpen |-> IF cfg.openTO > 0 THEN Batched(now, cfg.openTO) ELSE NoT,
   tClose |-> NoT, tDrop |-> NoT, tPs |-> NoT, tPt |-> NoT, pend |-> FALSE, pings |-> 0, ndata |-> 0, npong |-> 0,
   since |-> NoT]      \* when CLOSING began

\* ---- transport.loseConnection / abortConnection (dropConnection)
\* abort = TRUE: the connection is aborted (every deadline: what is still buffered must not keep it alive), FALSE: closed after flushing
Drop(c, abort) ==
  IF c.st = "CLOSED" THEN c
  ELSE [c EXCEPT !.dbm = TRUE, !.st = "CLOSED", !.drop = IF abort THEN "abort" ELSE "lose"]
\* ... or the statements leave it open which of the two (the closing handshake is complete, or the connection is failed by dropping)
DropEither(c) == IF c.st = "CLOSED" THEN c ELSE [c EXCEPT !.dbm = TRUE, !.st = "CLOSED", !.drop = "either"]

\* ---- a frame is written; after the close notification nothing may be written, after a close frame no data frame
Write(c, kind) ==
  [c EXCEPT !.lateWrite = @ \/ Len(c.closes) > 0,
            !.dataAfterClose = @ \/ (kind = "data" /\ c.nclose > 0),
            !.nclose = IF kind = "close" THEN @ + 1 ELSE @,
            !.pings = IF kind = "ping" THEN @ + 1 ELSE @,
            !.ndata = IF kind = "data" THEN @ + 1 ELSE @,
            !.npong = IF kind = "pong" THEN @ + 1 ELSE @]

SendCloseFrame(cfg, c, now, isReply) ==
  IF c.st # "OPEN" THEN c
  ELSE LET w == Write(c, "close") IN
       [w EXCEPT !.st = "CLOSING", !.cbm = ~isReply, !.since = now,
                 !.tClose = IF ~isReply /\ cfg.closeTO > 0 THEN Batched(now, cfg.closeTO) ELSE w.tClose]

FailConnection(cfg, c, now) ==
  IF c.st = "CLOSED" THEN c
  ELSE LET f == [c EXCEPT !.fbm = TRUE] IN
       IF cfg.failByDrop THEN DropEither([f EXCEPT !.clean = FALSE, !.why = "i-dropped"])
       ELSE IF f.st # "CLOSING" THEN SendCloseFrame(cfg, f, now, FALSE)
       ELSE DropEither(f)

Opened(cfg, c, now) ==
  IF c.st # "CONNECTING" THEN c
  ELSE [c EXCEPT !.st = "OPEN", !.tOpen = NoT,
                 !.tPs = IF cfg.pingInt > 0 THEN Batched(now, cfg.pingInt) ELSE NoT]

LocalClose(cfg, c, now) == SendCloseFrame(cfg, c, now, FALSE)

\* api: "msg" | "prepared" | "stream" | "ping".  Returns [c, exc]
LocalSend(cfg, c, api) ==
  IF c.st = "OPEN" THEN [c |-> Write(c, IF api = "ping" THEN "ping" ELSE "data"), exc |-> ""]
  ELSE IF api \in {"msg", "prepared"} THEN [c |-> c, exc |-> "Disconnected"]
  ELSE [c |-> c, exc |-> ""]                    \* streaming calls and sendPing are silently ignored when not OPEN

\* kind: "valid" (legal code rc) | "empty" | "badcode" | "badutf8"
\* rr: which reason text the peer's close frame carried (0 = none; a token, the text itself is compared by the harness)
PeerCloseOk(cfg, c0, now, rc, rr) ==
  LET c == [c0 EXCEPT !.rcode = rc, !.rreason = rr, !.peerClose = TRUE] IN
  IF c0.st = "CLOSED" THEN c0                   \* nothing received after CLOSED is looked at
  ELSE IF c.st = "CLOSING"
  THEN LET d == [c EXCEPT !.tClose = NoT, !.clean = TRUE] IN
       IF cfg.role = "server" THEN DropEither(d)
       ELSE [d EXCEPT !.tDrop = IF cfg.dropTO > 0 THEN Exact(now, cfg.dropTO) ELSE NoT]
  ELSE IF c.st = "OPEN"
  THEN LET r == SendCloseFrame(cfg, [c EXCEPT !.clean = TRUE], now, TRUE) IN
       IF cfg.role = "server" THEN DropEither(r)
       ELSE [r EXCEPT !.tDrop = IF cfg.dropTO > 0 THEN Exact(now, cfg.dropTO) ELSE NoT]   \* the server must drop TCP in time
  ELSE c

\* ---- data / control frames from the peer (well-formed)
RestartPing(cfg, c, now) ==   \* data counts in lieu of a pong (autoPingRestartOnAnyTraffic)
  IF c.tPt # NoT /\ cfg.restart
  THEN [c EXCEPT !.tPt = NoT, !.pend = FALSE,
                 !.tPs = IF cfg.pingInt > 0 THEN Batched(now, cfg.pingInt) ELSE NoT]
  ELSE c
PeerData(cfg, c, now) == IF c.st \in {"OPEN", "CLOSING"} THEN RestartPing(cfg, c, now) ELSE c
PeerPing(cfg, c) == IF c.st = "OPEN" /\ ~c.fbm THEN Write(c, "pong") ELSE c
PeerPong(cfg, c, now, match) ==
  IF c.st \in {"OPEN", "CLOSING"} /\ ~c.fbm /\ c.pend /\ match
  THEN [c EXCEPT !.pend = FALSE, !.tPt = NoT, !.tPs = IF cfg.pingInt > 0 THEN Batched(now, cfg.pingInt) ELSE NoT]
  ELSE c
PeerViolation(cfg, c, now) == IF c.st \in {"OPEN", "CLOSING"} THEN FailConnection(cfg, c, now) ELSE c

\* ---- timers
Fire(cfg, c, now, t) ==
  CASE t = "open"  -> LET d == [c EXCEPT !.tOpen = NoT] IN
                      IF d.st = "CONNECTING" THEN Drop([d EXCEPT !.clean = FALSE, !.why = "open-to"], TRUE) ELSE d
    [] t = "close" -> LET d == [c EXCEPT !.tClose = NoT] IN
                      IF d.st # "CLOSED" THEN Drop([d EXCEPT !.clean = FALSE, !.why = "close-to"], TRUE) ELSE d
    [] t = "drop"  -> LET d == [c EXCEPT !.tDrop = NoT] IN
                      IF d.st # "CLOSED" THEN Drop([d EXCEPT !.clean = FALSE, !.why = "drop-to"], TRUE) ELSE d
    [] t = "ps"    -> LET d == [c EXCEPT !.tPs = NoT] IN
                      IF d.st = "OPEN"
                      THEN [Write(d, "ping") EXCEPT !.pend = TRUE,
                                                   !.tPt = IF cfg.pingTO > 0 THEN Batched(now, cfg.pingTO) ELSE NoT]
                      ELSE d                                    \* no ping is sent, so no pong is awaited
    [] t = "pt"    -> LET d == [c EXCEPT !.tPt = NoT] IN
                      IF d.st # "CLOSED" THEN Drop([d EXCEPT !.clean = FALSE, !.why = "ping-to"], TRUE) ELSE d

Due(c, now) == {t \in {"open", "close", "drop", "ps", "pt"} :
                  LET v == CASE t = "open" -> c.tOpen [] t = "close" -> c.tClose [] t = "drop" -> c.tDrop
                                [] t = "ps" -> c.tPs [] t = "pt" -> c.tPt
                  IN v # NoT /\ v <= now}

RECURSIVE FireAll(_, _, _, _)
FireAll(cfg, c, now, order) ==
  IF order = <<>> THEN c
  ELSE LET t == Head(order) IN
       \* a handler may have cancelled a timer that was due in the same instant
       FireAll(cfg, IF t \in Due(c, now) THEN Fire(cfg, c, now, t) ELSE c, now, Tail(order))

Perms(S) == {s \in [1..Cardinality(S) -> S] : \A i, j \in 1..Cardinality(S) : i # j => s[i] # s[j]}

\* ---- connectionLost
ConnLost(cfg, c) ==
  IF ~c.up THEN c
  ELSE LET a == [c EXCEPT !.up = FALSE, !.tDrop = NoT, !.tPs = NoT, !.tPt = NoT, !.tOpen = NoT,
                          !.st = "CLOSED"]
           why == IF ~a.clean /\ ~a.dbm /\ a.why = "" THEN "peer-dropped" ELSE a.why
       IN [a EXCEPT !.why = why,
                    !.closes = Append(@, [clean |-> a.clean, code |-> IF a.clean THEN a.rcode ELSE 1006, why |-> IF a.clean THEN "" ELSE why,
                                           reason |-> IF a.clean THEN a.rreason ELSE 0])]      \* a clean close reports the peer's code and reason

(***************************************************************************)
(* Exhaustive model                                                        *)
(***************************************************************************)
CONSTANTS Cfgs, Horizon, MaxEvents

VARIABLES cfg, c, now, nev
vars == <<cfg, c, now, nev>>

Init == /\ cfg \in Cfgs /\ now = 0 /\ nev = 0 /\ c = New(cfg, 0)

Ev(next) == /\ nev < MaxEvents /\ nev' = nev + 1 /\ c' = next /\ UNCHANGED <<cfg, now>>
NoneDue == Due(c, now) = {}

AOpened == c.up /\ c.st = "CONNECTING" /\ NoneDue /\ Ev(Opened(cfg, c, now))
ALocalClose == c.st # "CONNECTING" /\ NoneDue /\ Ev(LocalClose(cfg, c, now))
ALocalSend(api) == c.st # "CONNECTING" /\ NoneDue /\ Ev(LocalSend(cfg, c, api).c)
APeerClose(rc) == c.up /\ c.st \in {"OPEN", "CLOSING"} /\ ~c.peerClose /\ NoneDue /\ Ev(PeerCloseOk(cfg, c, now, rc, IF rc = 3000 THEN 1 ELSE 0))
APeerData == c.up /\ c.st \in {"OPEN", "CLOSING"} /\ NoneDue /\ Ev(PeerData(cfg, c, now))
APeerPing == c.up /\ c.st \in {"OPEN", "CLOSING"} /\ NoneDue /\ Ev(PeerPing(cfg, c))
APeerPong(m) == c.up /\ c.st \in {"OPEN", "CLOSING"} /\ NoneDue /\ Ev(PeerPong(cfg, c, now, m))
APeerViolation == c.up /\ c.st \in {"OPEN", "CLOSING"} /\ NoneDue /\ Ev(PeerViolation(cfg, c, now))
AConnLost == c.up /\ NoneDue /\ Ev(ConnLost(cfg, c))
AAdvance == /\ now < Horizon /\ NoneDue
            /\ now' = now + 1
            /\ \E order \in Perms(Due(c, now + 1)) : c' = FireAll(cfg, c, now + 1, order)
            /\ UNCHANGED <<cfg, nev>>

Next == AOpened \/ ALocalClose \/ (\E api \in {"msg", "prepared", "stream", "ping"} : ALocalSend(api))
        \/ (\E rc \in {0, 1000, 3000} : APeerClose(rc)) \/ APeerData \/ APeerPing \/ (\E m \in BOOLEAN : APeerPong(m))
        \/ APeerViolation \/ AConnLost \/ AAdvance

Spec == Init /\ [][Next]_vars /\ WF_vars(AAdvance)

\* ---------------------------------------------------------------- C05
Rank(s) == CASE s = "CONNECTING" -> 0 [] s = "OPEN" -> 1 [] s = "CLOSING" -> 2 [] s = "CLOSED" -> 3
ForwardOnly == [][Rank(c'.st) >= Rank(c.st)]_vars
OnCloseAtMostOnce == Len(c.closes) <= 1
OnCloseOnlyAfterTransportGone == Len(c.closes) > 0 => ~c.up
OnCloseWhenTransportGone == ~c.up => Len(c.closes) = 1
NothingWrittenAfterOnClose == ~c.lateWrite
AtMostOneCloseFrame == c.nclose <= 1
NoDataAfterCloseFrame == ~c.dataAfterClose
CleanOnlyIfBothCloseFrames ==
  \A i \in 1..Len(c.closes) : c.closes[i].clean => (c.nclose = 1 /\ c.peerClose /\ c.closes[i].code = c.rcode /\ c.closes[i].reason = c.rreason)
UncleanIs1006 == \A i \in 1..Len(c.closes) : ~c.closes[i].clean => c.closes[i].code = 1006
ClosedMeansDroppedOrLost == c.st = "CLOSED" => (c.dbm \/ ~c.up)
\* once CLOSING, some timer guarantees progress unless the transport is already gone or the timeouts are disabled
ClosingIsGuarded ==
  (c.st = "CLOSING" /\ c.up) =>
     \/ c.tClose # NoT \/ c.tDrop # NoT
     \/ (c.cbm /\ cfg.closeTO = 0) \/ (cfg.role = "client" /\ cfg.dropTO = 0 /\ c.peerClose)
     \/ (~c.cbm /\ cfg.role = "server")          \* (unreachable: a replying server drops at once)
\* ... and explicitly: CLOSING never lasts longer than the close timeout plus the drop timeout
BoundedClose ==
  (c.st = "CLOSING" /\ c.up /\ cfg.closeTO > 0 /\ (cfg.role = "server" \/ cfg.dropTO > 0))
     => now <= c.since + H(cfg.closeTO) + (IF cfg.role = "client" THEN H(cfg.dropTO) ELSE 0)

\* ---------------------------------------------------------------- C17
OpenHandshakeDeadline == (c.st = "CONNECTING" /\ c.up /\ cfg.openTO > 0) => now <= H(cfg.openTO)
PongDeadline == (c.st = "OPEN" /\ c.pend /\ cfg.pingTO > 0) => now <= c.tPt
NeverEarlyByMoreThanGranularity ==
  \A n \in 0..40, d \in 1..6 : Batched(n, d) > n + H(d) - 2 /\ Batched(n, d) <= n + H(d)
PingLoopAlive == (c.st = "OPEN" /\ cfg.pingInt > 0) => (c.tPs # NoT \/ c.pend)
PingTimeoutGuardsPending == (c.st = "OPEN" /\ c.pend /\ cfg.pingTO > 0) => c.tPt # NoT
NoTimerEffectAfterClosed ==
  [][(c.st = "CLOSED" /\ now' # now) =>
        (c'.st = "CLOSED" /\ c'.clean = c.clean /\ c'.why = c.why /\ c'.nclose = c.nclose /\ c'.pings = c.pings
         /\ c'.closes = c.closes /\ c'.drop = c.drop)]_vars
\* a timer only drops a connection whose peer missed the corresponding deadline
TimeoutReasonMatchesState ==
  /\ c.why = "open-to" => ~c.peerClose /\ c.nclose = 0
  /\ c.why = "close-to" => c.cbm \/ c.fbm
  /\ c.why = "drop-to" => cfg.role = "client" /\ c.peerClose
=============================================================================
