SPECIFICATION Spec
CONSTANTS
  Alphabet = {0}
  MaxLen = 0
CHECK_DEADLOCK FALSE
