------------------------------- MODULE WsProxy -------------------------------
(***************************************************************************)
(* Growth (not a listed property): the explicit HTTP proxy phase of the    *)
(* WebSocket client (STATE_PROXY_CONNECTING): the client writes a CONNECT  *)
(* request for the target, and continues with the WebSocket opening        *)
(* handshake exactly when the proxy answers with a 2xx status on HTTP/1.0  *)
(* or 1.1; any other answer fails the connection without writing more.     *)
(* A status line is abstracted to (version class, code class).             *)
(***************************************************************************)
EXTENDS Integers, Sequences, TLC
Versions == {"HTTP/1.1", "HTTP/1.0", "HTTP/2.0", "HTTP/0.9", "junk", "missing"}
Codes == {"200", "204", "299", "199", "300", "301", "403", "407", "500", "nan", "missing"}
Proceed(v, c) == v \in {"HTTP/1.1", "HTTP/1.0"} /\ c \in {"200", "204", "299"}
\* what must be on the wire after the proxy's answer was read completely
\*   proceed: the CONNECT request, then a GET ... Upgrade request; connection still up
\*   fail:    only the CONNECT request; connection dropped
VARIABLES v, c
Init == v \in Versions /\ c \in Codes
Next == UNCHANGED <<v, c>>
Spec == Init /\ [][Next]_<<v, c>>
OnlySuccessProceeds == Proceed(v, c) => (v \in {"HTTP/1.1", "HTTP/1.0"} /\ c \notin {"199", "300", "301", "403", "407", "500", "nan", "missing"})
=============================================================================
