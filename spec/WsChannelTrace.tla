--------------------------- MODULE WsChannelTrace ---------------------------
(***************************************************************************)
(* Batch validation of recorded executions of a real client/server pair    *)
(* joined by an in-memory pipe (both directions in one trace) against the  *)
(* channel specification: every frame header the implementation wrote is   *)
(* decoded here (WsFrame) and run through WsChannel!Framing; every         *)
(* delivery must be the next fully written, not yet delivered message of   *)
(* the peer, with identical type, length and bytes.                        *)
(*                                                                         *)
(* Events                                                                  *)
(*   open    compress, limit = [C, S], mask = [C, S]                       *)
(*   send    who, id, bin, len, dnc, api, exc      a send-API call         *)
(*   wire    who, frames = <<[h, plen]>>           frames completed on the *)
(*                                                 writer's transport      *)
(*   deliver to, id, bin, len, same                onMessage at the peer   *)
(*   end                                           scenario quiescent      *)
(***************************************************************************)
EXTENDS WsChannel, WsFrame, Json, IOUtils, TLCExt

Traces == JsonDeserialize(IOEnv.TRACE_FILE)
N == Len(Traces)
ASSUME \A i \in 1..N : TLCSet(i, 0)

Who == {"C", "S"}
Other(w) == IF w = "C" THEN "S" ELSE "C"

VARIABLES tid, l,
  opt,     \* [compress, limit, mask]
  acc,     \* [Who -> Seq(message)]  accepted by the send API
  wfs,     \* [Who -> framing state]
  wdone,   \* [Who -> Nat]  messages completely framed on the wire
  wsum,    \* [Who -> Nat]  payload octets of the message being framed so far
  dl,      \* [Who -> Nat]  messages of this sender delivered to the peer
  krun,    \* [Who -> [key, n]]  masking key of the last masked frame and how many consecutive frames carried it
  poison,  \* [Who -> BOOLEAN]  deviation bookkeeping (see Dev below): a compressed send of this sender was refused
  overd,   \* [Who -> BOOLEAN]  this sender sent a compressed message larger than the peer's decompression limit
  failed1009, \* [Who -> BOOLEAN]  the peer of this sender failed the connection with 1009 because of such a message
  wnf,     \* [Who -> Nat]  data frames written so far for the message being framed
  wcounts, \* [Who -> Seq(Nat)]  number of data frames each completely framed message was written in
  wcmp     \* [Who -> BOOLEAN]  the message being framed travels compressed (its first frame carried RSV1)
tvars == <<tid, l, opt, acc, wfs, wdone, wsum, dl, krun, poison, overd, failed1009, wnf, wcounts, wcmp>>

(***************************************************************************)
(* Deviation actions for recorded (not repaired) defects, DESIGN 3.5.      *)
(* Dev = {} in the strict configuration.  With "F16" in Dev the trace may  *)
(* additionally contain what the code is known to do after sendMessage()   *)
(* refused an over-limit message it had already run through the shared     *)
(* compressor: later messages of that sender are undecodable at the peer   *)
(* (zlib error escaping data_received, connection failed, messages lost    *)
(* or altered).                                                            *)
(***************************************************************************)
CONSTANT Dev

Ev == Traces[tid][l]
IsEvent(name) == l <= Len(Traces[tid]) /\ Ev.ev = name /\ l' = l + 1 /\ UNCHANGED tid

TInit == /\ tid \in 1..N /\ l = 1
         /\ opt = [compress |-> FALSE, limit |-> [w \in Who |-> 0], mask |-> [w \in Who |-> w = "C"], dlimit |-> [w \in Who |-> 0], closer |-> ""]
         /\ acc = [w \in Who |-> <<>>] /\ wfs = [w \in Who |-> Ground]
         /\ wdone = [w \in Who |-> 0] /\ wsum = [w \in Who |-> 0] /\ dl = [w \in Who |-> 0]
         /\ krun = [w \in Who |-> [key |-> <<>>, n |-> 0, bad |-> FALSE]]
         /\ poison = [w \in Who |-> FALSE] /\ overd = [w \in Who |-> FALSE] /\ failed1009 = [w \in Who |-> FALSE]
         /\ wnf = [w \in Who |-> 0] /\ wcounts = [w \in Who |-> <<>>] /\ wcmp = [w \in Who |-> FALSE]

TOpen == /\ IsEvent("open") /\ l = 1
         /\ opt' = [compress |-> Ev.compress, limit |-> [w \in Who |-> Ev.limit[w]], mask |-> [w \in Who |-> Ev.mask[w]],
                    dlimit |-> [w \in Who |-> Ev.dlimit[w]],   \* decompression size limit of receiver w (0 = none)
                    closer |-> Ev.closer]   \* "" or the end that will finish the scenario with sendClose() right behind queued sends
         /\ UNCHANGED <<acc, wfs, wdone, wsum, dl, krun, poison, overd, failed1009, wnf, wcounts, wcmp>>

\* ---- send API: accepted unless over the sender's message limit (sendMessage only); nothing else may be raised
TSend ==
  /\ IsEvent("send")
  /\ LET w == Ev.who
         cmpd == opt.compress /\ ~Ev.dnc            \* the size compared is then the compressed size (not known here)
         over == opt.limit[w] > 0 /\ Ev.api = "msg" /\ Ev.len > opt.limit[w]
     IN /\ Ev.exc \in {"", "PayloadExceededError"}
        /\ (~cmpd /\ over) => Ev.exc = "PayloadExceededError"
        /\ (~cmpd /\ ~over) => Ev.exc = ""
        /\ (opt.limit[w] = 0 \/ Ev.api # "msg") => Ev.exc = ""
        /\ acc' = IF Ev.exc = ""
                  THEN [acc EXCEPT ![w] = Append(@, [id |-> Ev.id, bin |-> Ev.bin, len |-> Ev.len, dnc |-> Ev.dnc, api |-> Ev.api])]
                  ELSE acc
        /\ poison' = IF Ev.exc # "" /\ cmpd THEN [poison EXCEPT ![w] = TRUE] ELSE poison
        /\ overd' = IF Ev.exc = "" /\ cmpd /\ opt.dlimit[Other(w)] > 0 /\ Ev.len > opt.dlimit[Other(w)]
                    THEN [overd EXCEPT ![w] = TRUE] ELSE overd
  /\ UNCHANGED <<opt, wfs, wdone, wsum, dl, krun, failed1009, wnf, wcounts, wcmp>>

\* ---- one written frame: st = [fs, done, sum, nf, counts]  (nf: data frames of the message being framed; counts: per completed message)
WriteFrame(w, st, f) ==
  LET h == f.h
      ctl == Opcode(h) >= 8
      okHdr == /\ Len(h) = HdrLen(h)
               /\ PLen(h).cls = "ok" /\ PLen(h).v = f.plen
      \* masking follows the endpoint's options; a prepared message is framed in advance by role (client masked, server not)
      okMask(m) == Masked(h) = (IF m.api = "prepared" /\ ~(opt.compress /\ ~m.dnc) THEN w = "C" ELSE opt.mask[w])
  IN IF st.fs = Bad \/ ~okHdr THEN [st EXCEPT !.fs = Bad]
     ELSE IF ctl
     THEN IF Masked(h) # opt.mask[w] THEN [st EXCEPT !.fs = Bad]
          ELSE [st EXCEPT !.fs = Framing(st.fs, [mid |-> 0, op |-> Opcode(h), fin |-> Fin(h), len |-> f.plen, ctl |-> TRUE])]
     ELSE IF st.done >= Len(acc[w]) THEN [st EXCEPT !.fs = Bad]          \* a data frame nobody asked to send
     ELSE LET m == acc[w][st.done + 1]
              first == ~st.fs.inside
              \* with an extension negotiated a message not flagged do-not-compress may travel compressed (RSV1 on its first
              \* frame, and only there) or not - the sender's choice; a flagged one, or any without the extension, must not
              may == opt.compress /\ ~m.dnc
              cmpd == IF first THEN may /\ Rsv(h) = 4 ELSE st.cmp
              okData == /\ okMask(m)
                        /\ first => (Opcode(h) = (IF m.bin THEN 2 ELSE 1))
                        /\ Rsv(h) = (IF first /\ cmpd THEN 4 ELSE 0)
              nfs == Framing(st.fs, [mid |-> st.done + 1, op |-> Opcode(h), fin |-> Fin(h), len |-> f.plen, ctl |-> FALSE])
              sum == st.sum + f.plen
          IN IF ~okData \/ nfs = Bad THEN [st EXCEPT !.fs = Bad]
             ELSE IF Fin(h)
             THEN IF ~cmpd /\ sum # m.len THEN [st EXCEPT !.fs = Bad]    \* fragments must add up to the message
                  ELSE IF opt.limit[w] > 0 /\ m.api = "msg" /\ sum > opt.limit[w]
                  THEN [st EXCEPT !.fs = Bad]                            \* an accepted message never exceeds the limit on the wire
                  ELSE [st EXCEPT !.fs = nfs, !.done = st.done + 1, !.sum = 0, !.nf = 0, !.counts = Append(@, st.nf + 1), !.cmp = FALSE]
             ELSE [st EXCEPT !.fs = nfs, !.sum = sum, !.nf = st.nf + 1, !.cmp = cmpd]

\* "masked with a per-frame key": a fresh 32-bit key per frame.  Two equal consecutive keys happen by chance once in
\* 2^32 frames; three in a row (2^-64) is taken as key reuse.
KeyOf(h) == SubSeq(h, HdrLen(h) - 3, HdrLen(h))
KeyRun(kr, f) == IF ~Masked(f.h) \/ Len(f.h) # HdrLen(f.h) THEN kr
                 ELSE IF KeyOf(f.h) = kr.key THEN [kr EXCEPT !.n = kr.n + 1, !.bad = kr.bad \/ kr.n + 1 >= 3]
                 ELSE [key |-> KeyOf(f.h), n |-> 1, bad |-> kr.bad]

TWire ==
  /\ IsEvent("wire")
  /\ krun' = [krun EXCEPT ![Ev.who] = FoldLeft(KeyRun, @, Ev.frames)]
  /\ ~krun'[Ev.who].bad
  /\ LET w == Ev.who
         st == FoldLeft(LAMBDA s, f : WriteFrame(w, s, f),
                        [fs |-> wfs[w], done |-> wdone[w], sum |-> wsum[w], nf |-> wnf[w], counts |-> wcounts[w], cmp |-> wcmp[w]], Ev.frames)
     IN /\ st.fs # Bad
        /\ wfs' = [wfs EXCEPT ![w] = st.fs]
        /\ wdone' = [wdone EXCEPT ![w] = st.done]
        /\ wsum' = [wsum EXCEPT ![w] = st.sum]
        /\ wnf' = [wnf EXCEPT ![w] = st.nf]
        /\ wcounts' = [wcounts EXCEPT ![w] = st.counts]
        /\ wcmp' = [wcmp EXCEPT ![w] = st.cmp]
  /\ UNCHANGED <<opt, acc, dl, poison, overd, failed1009>>

DevF16(w) == ("F16" \in Dev /\ poison[w]) \/ ("F10" \in Dev /\ overd[w])

Bracket(st, tag) ==
  CASE st = "idle" /\ tag = "mb" -> "msg"
    [] st \in {"msg", "between"} /\ tag = "fb" -> "frame"
    [] st = "frame" /\ tag = "fd" -> "frame"
    [] st = "frame" /\ tag = "fe" -> "between"
    [] st = "between" /\ tag = "me" -> "idle"
    [] OTHER -> "bad"
TDeliver ==
  /\ IsEvent("deliver")
  /\ LET w == Other(Ev.to) IN
       \* the next undelivered message of the peer that is completely on the wire (strict); under a deviation of this
       \* sender earlier messages may have been lost
       \E k \in (dl[w] + 1)..wdone[w] :
          /\ k = dl[w] + 1 \/ DevF16(w)
          /\ LET m == acc[w][k] IN m.id = Ev.id /\ m.bin = Ev.bin /\ m.len = Ev.len /\ Ev.same
          \* the frame-level receive API saw exactly this message: onMessageBegin (FrameBegin FrameData* FrameEnd)+ onMessageEnd,
          \* one bracket per data frame the sender wrote, and the data callbacks add up to the payload
          /\ FoldLeft(Bracket, "idle", Ev.cb) = "idle" /\ Len(Ev.cb) > 0
          /\ Ev.nfb = wcounts[w][k]
          /\ Ev.fdsum = Ev.len
          /\ dl' = [dl EXCEPT ![w] = k]
  /\ UNCHANGED <<opt, acc, wfs, wdone, wsum, krun, poison, overd, failed1009, wnf, wcounts, wcmp>>

\* the receiver may refuse an over-limit compressed message by failing the connection with 1009 (then nothing of that
\* sender is delivered any more); it must never deliver it truncated
TClosedLimit == /\ IsEvent("closed") /\ Ev.code = 1009
                /\ \E w \in Who : overd[w] /\ failed1009' = [failed1009 EXCEPT ![w] = TRUE]
                /\ UNCHANGED <<opt, acc, wfs, wdone, wsum, dl, krun, poison, overd, wnf, wcounts, wcmp>>

\* The scenario ends with a closing handshake: the closer calls sendClose() while messages it sent before still wait in its
\* send queue.  Both ends are then told of a clean close - and TEnd still demands that everything accepted was written and
\* delivered (the close frame is queued behind the data, and a closing connection keeps writing its queue).
TLClose == /\ IsEvent("lclose") /\ Ev.who = opt.closer
           /\ UNCHANGED <<opt, acc, wfs, wdone, wsum, dl, krun, poison, overd, failed1009, wnf, wcounts, wcmp>>
TClosedClean == /\ IsEvent("closed") /\ opt.closer # "" /\ Ev.clean /\ Ev.code \in {0, 1000}     \* (0: the close frame carried no code)
                /\ UNCHANGED <<opt, acc, wfs, wdone, wsum, dl, krun, poison, overd, failed1009, wnf, wcounts, wcmp>>

TEnd == /\ IsEvent("end")
        \* (a connection lost to a recorded deviation or failed with 1009 ends with unsent / undelivered messages)
        /\ \/ DevF16("C") \/ DevF16("S") \/ failed1009["C"] \/ failed1009["S"]
           \/ \A w \in Who : wdone[w] = Len(acc[w]) /\ wfs[w] = Ground /\ dl[w] = Len(acc[w])
        /\ UNCHANGED <<opt, acc, wfs, wdone, wsum, dl, krun, poison, overd, failed1009, wnf, wcounts, wcmp>>

\* an exception escaping data_received / the connection being closed is never part of a correct execution
TDevEscape == /\ IsEvent("escape") /\ DevF16(Other(Ev.at))
              /\ UNCHANGED <<opt, acc, wfs, wdone, wsum, dl, krun, poison, overd, failed1009, wnf, wcounts, wcmp>>
TDevClosed == /\ IsEvent("closed") /\ (DevF16("C") \/ DevF16("S"))
              /\ UNCHANGED <<opt, acc, wfs, wdone, wsum, dl, krun, poison, overd, failed1009, wnf, wcounts, wcmp>>
TDevSend == /\ IsEvent("send") /\ Ev.exc = "Disconnected" /\ (DevF16("C") \/ DevF16("S"))   \* the connection was lost to the deviation
            /\ UNCHANGED <<opt, acc, wfs, wdone, wsum, dl, krun, poison, overd, failed1009, wnf, wcounts, wcmp>>
TDevDeliver == /\ IsEvent("deliver") /\ DevF16(Other(Ev.to)) /\ ~Ev.same
               /\ dl' = [dl EXCEPT ![Other(Ev.to)] = IF @ < wdone[Other(Ev.to)] THEN @ + 1 ELSE @]
               /\ UNCHANGED <<opt, acc, wfs, wdone, wsum, krun, poison, overd, failed1009, wnf, wcounts, wcmp>>

TNext == (TLClose \/ TClosedClean \/ TOpen \/ TSend \/ TWire \/ TDeliver \/ TEnd \/ TClosedLimit \/ TDevEscape \/ TDevClosed \/ TDevDeliver \/ TDevSend) /\ UNCHANGED vars
TraceSpec == TInit /\ Init /\ [][TNext]_<<tvars, vars>>

Progress == TLCSet(tid, IF TLCGet(tid) < l THEN l ELSE TLCGet(tid))
Post ==
  LET rej == {i \in 1..N : TLCGet(i) # Len(Traces[i]) + 1} IN
    /\ \A i \in rej : PrintT(<<"REJECT", i, TLCGet(i)>>)
    /\ PrintT(<<"ACCEPTED", N - Cardinality(rej)>>)
=============================================================================
