SPECIFICATION TraceSpec
CONSTANTS
  MaxMsgs = 0
  Lens = {}
  Frags = {}
  Chops = {}
  Limit = 0
  Dev = {}
CONSTRAINT Progress
POSTCONDITION Post
CHECK_DEADLOCK FALSE
