----------------------------- MODULE Component -----------------------------
(***************************************************************************)
(* The reconnect loop of autobahn.wamp.component.Component (_start,        *)
(* _connect_once, stop) with the framework halves (_connect_transport and  *)
(* the connection-lost wrapper).  One action per callback of the code:     *)
(*   Start            start(): fire "start", then transport_check          *)
(*   Check            transport_check(): exhausted -> reject _done_f, else  *)
(*                    next transport of itertools.cycle that can_reconnect,*)
(*                    next_delay(), txaio.sleep                            *)
(*   Fire             attempt_connect(): connect_attempts += 1, connect    *)
(*   Fail(fatal)      connect_error -> "connectfailure" listeners ->       *)
(*                    handle_connect_error: is_fatal => transport.failed();*)
(*                    call_later(0, transport_check)                       *)
(*   Join             WELCOME: session joins; the transport's counters and *)
(*                    retry delay are reset                                *)
(*   Leave            GOODBYE handshake done (leave(), main finished,      *)
(*                    stop() on a joined session): on_leave resolves the   *)
(*                    per-connection future -> session_done -> _done_f     *)
(*   MainFails        main raised: the property wants _done_f to fail      *)
(*   Stop             stop() in each phase                                 *)
(* `done` is the future returned by start(): written at most once.         *)
(***************************************************************************)
EXTENDS Integers, Sequences, FiniteSets

CONSTANTS MaxT,         \* configurations explored: 1..MaxT transports
          MRS,          \* ... with max_retries drawn from this set (-1: unlimited)
          Dev           \* deviation actions enabled (known findings): "F26"

VARIABLES T,            \* configuration (never changes): number of transports,
          MaxRetries,   \*   max_retries per transport,
          HasMain,      \*   a main function was given
          attempts,     \* connect_attempts per transport (since its last successful join)
          perm,         \* _permanent_failure per transport
          cursor,       \* the transport itertools.cycle yields next
          phase,        \* "init" | "check" | "delay" | "connecting" | "joined" | "idle"
          cand,         \* transport_candidate[0]
          first,        \* cand had connect_attempts = 0 when chosen: next_delay() = 0
          done,         \* "pending" | "ok" | "err"
          stopping,     \* _stopping
          total,        \* history: attempts made over all transports
          stale         \* (deviation F26 only) _session still refers to the session whose main failed
cfg == <<T, MaxRetries, HasMain>>
vars == <<T, MaxRetries, HasMain, attempts, perm, cursor, phase, cand, first, done, stopping, total, stale>>

Tr == 1..T
Can(t) == ~perm[t] /\ (MaxRetries[t] = -1 \/ attempts[t] < MaxRetries[t] + 1)
AnyCan == \E t \in Tr : Can(t)
\* cyclic order starting at c: c, c+1, .., T, 1, .., c-1
Cyc(c, k) == ((c - 1 + k) % T) + 1
NextCan(c) == LET k == CHOOSE k \in 0..(T-1) : Can(Cyc(c, k)) /\ \A j \in 0..(k-1) : ~Can(Cyc(c, j)) IN Cyc(c, k)

Complete(d, how) == IF d = "pending" THEN how ELSE d      \* a future fires once; the code guards with is_called / _done_f

Init == /\ T \in 1..MaxT /\ MaxRetries \in [1..T -> MRS] /\ HasMain \in BOOLEAN
        /\ attempts = [t \in Tr |-> 0] /\ perm = [t \in Tr |-> FALSE] /\ cursor = 1 /\ phase = "init"
        /\ cand = 0 /\ first = FALSE /\ done = "pending" /\ stopping = FALSE /\ total = 0 /\ stale = FALSE

Start == phase = "init" /\ phase' = "check" /\ UNCHANGED <<cfg, attempts, perm, cursor, cand, first, done, stopping, total, stale>>

Check ==
  /\ phase = "check"
  /\ IF ~AnyCan
     THEN /\ done' = Complete(done, "err") /\ phase' = "idle"
          /\ UNCHANGED <<cfg, attempts, perm, cursor, cand, first, stopping, total, stale>>
     ELSE LET t == NextCan(cursor) IN
          /\ cand' = t /\ cursor' = Cyc(t, 1) /\ first' = (attempts[t] = 0) /\ phase' = "delay"
          /\ UNCHANGED <<cfg, attempts, perm, done, stopping, total, stale>>

Fire ==
  /\ phase = "delay"
  /\ attempts' = [attempts EXCEPT ![cand] = @ + 1] /\ total' = total + 1 /\ phase' = "connecting"
  /\ UNCHANGED <<cfg, perm, cursor, cand, first, done, stopping, stale>>

\* refused / transport handshake failed / ABORT before join / transport lost after join
Fail(fatal) ==
  /\ phase \in {"connecting", "joined"}
  /\ perm' = [perm EXCEPT ![cand] = @ \/ fatal] /\ phase' = "check"
  /\ UNCHANGED <<cfg, attempts, cursor, cand, first, done, stopping, total, stale>>

Join ==
  /\ phase = "connecting"
  /\ attempts' = [attempts EXCEPT ![cand] = 0] /\ phase' = "joined" /\ stale' = FALSE
  /\ UNCHANGED <<cfg, perm, cursor, cand, first, done, stopping, total>>

Leave ==
  /\ phase = "joined"
  /\ done' = Complete(done, "ok") /\ phase' = "idle"
  /\ UNCHANGED <<cfg, attempts, perm, cursor, cand, first, stopping, total, stale>>

MainFails(fatal) ==
  /\ phase = "joined" /\ HasMain
  /\ \/ /\ "F26" \notin Dev                              \* the property: start() completes with an error
        /\ done' = Complete(done, "err") /\ phase' = "idle"
        /\ UNCHANGED <<cfg, attempts, perm, cursor, cand, first, stopping, total, stale>>
     \/ /\ "F26" \in Dev                                 \* the code: treated like a lost connection (classifier consulted),
        /\ perm' = [perm EXCEPT ![cand] = @ \/ fatal] /\ phase' = "check" /\ stale' = TRUE   \* the failed session stays referenced
        /\ UNCHANGED <<cfg, attempts, cursor, cand, first, done, stopping, total>>

Stop ==
  /\ ~stopping /\ stopping' = TRUE
  /\ \/ stale /\ UNCHANGED <<done, phase>>      \* (F26) stop() is forwarded to the stale session's leave(): nothing completes
     \/ CASE phase = "delay"  -> done' = Complete(done, "ok") /\ phase' = "idle"      \* the sleep is cancelled
       [] phase = "joined" -> UNCHANGED <<done, phase>>                             \* session.leave(): Leave follows
       [] OTHER            -> done' = Complete(done, "ok") /\ UNCHANGED phase       \* no session, no delay: resolve now;
                                                                                   \* an attempt in flight runs on
  /\ UNCHANGED <<cfg, attempts, perm, cursor, cand, first, total, stale>>

Next == Start \/ Check \/ Fire \/ (\E f \in BOOLEAN : Fail(f) \/ MainFails(f)) \/ Join \/ Leave \/ Stop
Spec == Init /\ [][Next]_vars
FairSpec == Spec /\ WF_vars(Start) /\ WF_vars(Check) /\ WF_vars(Fire)

-----------------------------------------------------------------------------
TypeOK == /\ attempts \in [Tr -> Nat] /\ perm \in [Tr -> BOOLEAN] /\ cursor \in Tr /\ cand \in 0..T
          /\ phase \in {"init", "check", "delay", "connecting", "joined", "idle"} /\ done \in {"pending", "ok", "err"}
\* at most max_retries+1 attempts per transport since its last successful join
Budget == \A t \in Tr : MaxRetries[t] # -1 => attempts[t] <= MaxRetries[t] + 1
\* none after an error classified as fatal
NoAttemptAfterFatal == [][\A t \in Tr : perm[t] => attempts'[t] <= attempts[t]]_vars
PermIsForever == [][\A t \in Tr : perm[t] => perm'[t]]_vars
\* round robin: a transport is chosen only if every transport between the previous choice and it cannot reconnect
RoundRobin == [][(phase = "check" /\ phase' = "delay") =>
                   \A k \in 0..(T-1) : (\A j \in 0..k : Cyc(cursor, j) # cand') => ~Can(Cyc(cursor, k))]_vars
\* first use of a transport (since its last join) is immediate
FirstImmediate == [][(phase = "check" /\ phase' = "delay") => (first' = (attempts[cand'] = 0))]_vars
\* a failed or lost connection leads to a new attempt as long as any transport has attempts left
RetryWhileBudgetLeft == [][(phase = "check" /\ done = "pending" /\ done' = "err") => ~AnyCan]_vars
ExhaustedMeansError == [][(phase = "check" /\ phase' # "check" /\ ~AnyCan /\ done = "pending") => done' = "err"]_vars
\* the start() result completes exactly once
DoneOnce == [][done # "pending" => done' = done]_vars
\* ... successfully on normal leave / main finished / stop; with an error when main fails or all transports are exhausted
DoneOkOnlyBy == [][(done = "pending" /\ done' = "ok") => (phase = "joined" \/ stopping')]_vars
DoneErrOnlyBy == [][(done = "pending" /\ done' = "err") => ((phase = "check" /\ ~AnyCan) \/ (phase = "joined" /\ HasMain))]_vars
\* liveness: with finite budgets everywhere and every attempt failing, start() completes
AllFinite == \A t \in Tr : MaxRetries[t] # -1
\* liveness (checked with MC_Component_live.cfg, finite budgets, no state constraint): if no attempt ever joins and every
\* attempt eventually fails, start() completes - the retry loop cannot spin forever on finite budgets
NextNoJoin == Start \/ Check \/ Fire \/ (\E f \in BOOLEAN : Fail(f)) \/ Stop
FailingSpec == Init /\ [][NextNoJoin]_vars /\ WF_vars(Start) /\ WF_vars(Check) /\ WF_vars(Fire) /\ WF_vars(\E f \in BOOLEAN : Fail(f))
EventuallyDone == <>(done # "pending")
=============================================================================
