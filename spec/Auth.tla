-------------------------------- MODULE Auth --------------------------------
(***************************************************************************)
(* WAMP authentication exchanges with symbolic cryptography.               *)
(*                                                                         *)
(* WAMP-SCRAM (mutual authentication, RFC 5802 style) is modelled as a     *)
(* protocol: what each end binds into its signature and when the client    *)
(* accepts.  Cryptographic values are TERMS (records); two values are      *)
(* equal iff they were built from equal inputs - HMAC / KDF / signatures   *)
(* are treated as injective, nothing else is assumed.                      *)
(*   Salted(pw, salt, it, kdf, mem)                  salted password        *)
(*   AuthMsg(authid, cnonce, snonce, salt, it, cb)   the auth message       *)
(*   Proof(salted, authmsg), ServerSig(salted, authmsg)                     *)
(* Code anchor: wamp/auth.py AuthScram.on_challenge / on_welcome.           *)
(*                                                                         *)
(* The model: an honest server and an honest client share the password;    *)
(* between them an attacker alters at most one field of the CHALLENGE, or  *)
(* of the server's view of the client's first message, or replaces the     *)
(* server signature in WELCOME.  Property: the client accepts only if the   *)
(* server signature was computed over exactly the values the client itself *)
(* used - i.e. any alteration is detected (by the server through the       *)
(* proof, or by the client through the server signature).                  *)
(***************************************************************************)
EXTENDS Naturals, FiniteSets, TLC

Fields == {"authid", "cnonce", "snonce", "salt", "it", "kdf", "mem", "cb", "pw"}
\* a view assigns a (symbolic) value to every field; 0 = the honest value, 1 = a different value
Honest == [f \in Fields |-> 0]
Alter(v, f) == [v EXCEPT ![f] = 1]

Salted(v) == [pw |-> v.pw, salt |-> v.salt, it |-> v.it, kdf |-> v.kdf, mem |-> v.mem]
AuthMsg(v) == [authid |-> v.authid, cnonce |-> v.cnonce, snonce |-> v.snonce, salt |-> v.salt, it |-> v.it, cb |-> v.cb]
Proof(v) == [k |-> "proof", s |-> Salted(v), m |-> AuthMsg(v)]
ServerSig(v) == [k |-> "ssig", s |-> Salted(v), m |-> AuthMsg(v)]
Forged == [f \in Fields |-> 2]                       \* values the attacker made up
NoTerm == [k |-> "none", s |-> Salted(Forged), m |-> AuthMsg(Forged)]

VARIABLES phase, cview, sview, proof, ssig, accepted, serverOk
vars == <<phase, cview, sview, proof, ssig, accepted, serverOk>>

Init == /\ phase = "start" /\ cview = Honest /\ sview = Honest /\ proof = NoTerm /\ ssig = NoTerm
        /\ accepted = "undecided" /\ serverOk = "undecided"

\* CHALLENGE travels to the client: the attacker may alter one of the fields the challenge carries
Challenge ==
  /\ phase = "start"
  /\ \E f \in {"snonce", "salt", "it", "kdf", "mem", "cb"} \cup {"none"} :
       cview' = IF f = "none" THEN cview ELSE Alter(cview, f)
  /\ phase' = "challenged" /\ UNCHANGED <<sview, proof, ssig, accepted, serverOk>>

\* a client using another password / authid / nonce than the server expects (or a server with a wrong credential)
Mismatch ==
  /\ phase = "start"
  /\ \E f \in {"pw", "authid", "cnonce"} : sview' = Alter(sview, f)
  /\ UNCHANGED <<phase, cview, proof, ssig, accepted, serverOk>>

\* AUTHENTICATE: the client proof over the client's view; the server checks it against its own view
Authenticate ==
  /\ phase = "challenged"
  /\ proof' = Proof(cview)
  /\ serverOk' = IF Proof(cview) = Proof(sview) THEN "yes" ELSE "no"
  /\ phase' = "authenticated" /\ UNCHANGED <<cview, sview, ssig, accepted>>

\* WELCOME: the server signature over the server's view - or whatever an attacker puts there
Welcome ==
  /\ phase = "authenticated"
  /\ \E s \in {ServerSig(sview), ServerSig(Forged), NoTerm} : ssig' = s
  /\ accepted' = IF ssig' = ServerSig(cview) THEN "yes" ELSE "no"     \* the client recomputes it from its OWN state
  /\ phase' = "done" /\ UNCHANGED <<cview, sview, proof, serverOk>>

Next == Challenge \/ Mismatch \/ Authenticate \/ Welcome
Spec == Init /\ [][Next]_vars

\* mutual authentication: the client accepts only a signature made with the right credential over the very same exchange
AcceptOnlyIfServerSigValid == accepted = "yes" => (ssig = ServerSig(cview) /\ Salted(sview) = Salted(cview) /\ AuthMsg(sview) = AuthMsg(cview))
\* every input is bound: if the two views differ in any field, at least one end notices
AnyAlterationDetected == (phase = "done" /\ cview # sview) => (serverOk = "no" \/ accepted = "no")
HonestRunSucceeds == (phase = "done" /\ cview = sview /\ ssig = ServerSig(sview)) => (serverOk = "yes" /\ accepted = "yes")
=============================================================================
