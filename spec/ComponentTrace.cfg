SPECIFICATION TraceSpec
CONSTANTS
  MaxT = 3
  MRS = {}
  Dev = {}
CONSTRAINT Progress
POSTCONDITION Post
CHECK_DEADLOCK FALSE
