SPECIFICATION Spec
CONSTANTS
  Cfgs <- MCCfgsQuick
  Horizon = 8
  MaxEvents = 5
INVARIANT OnCloseAtMostOnce
INVARIANT OnCloseOnlyAfterTransportGone
INVARIANT OnCloseWhenTransportGone
INVARIANT NothingWrittenAfterOnClose
INVARIANT AtMostOneCloseFrame
INVARIANT NoDataAfterCloseFrame
INVARIANT CleanOnlyIfBothCloseFrames
INVARIANT UncleanIs1006
INVARIANT ClosedMeansDroppedOrLost
INVARIANT ClosingIsGuarded
INVARIANT BoundedClose
INVARIANT OpenHandshakeDeadline
INVARIANT PongDeadline
INVARIANT PingLoopAlive
INVARIANT PingTimeoutGuardsPending
INVARIANT TimeoutReasonMatchesState
PROPERTY ForwardOnly
PROPERTY NoTimerEffectAfterClosed
CHECK_DEADLOCK FALSE
