------------------------------- MODULE WsRecv -------------------------------
(***************************************************************************)
(* The RFC 6455 receiver: what an endpoint must do with the frames it      *)
(* receives on an established connection (sections 5.1-5.6, 7.1.7, 7.4,    *)
(* 8.1) plus the library's documented payload limits (status 1009).        *)
(*                                                                         *)
(* Grain: the code consumes a frame in two steps - when the complete       *)
(* header is buffered (processData, header branch: rule cascade, then      *)
(* onFrameBegin with the size limits) and when payload arrives             *)
(* (onFrameData / onFrameEnd / processControlFrame / onCloseFrame).  The   *)
(* spec has exactly these two actions, Header(h) and Payload(d); how the   *)
(* octets of either are split into reads is invisible here, which is the   *)
(* statement "the verdict is independent of how the bytes are split".      *)
(*                                                                         *)
(* Every action leaves in `re` the reaction the application / peer can     *)
(* observe for that step: messages, pings and pongs delivered, frames      *)
(* sent (pong, close), transport drop.  WsRecvTrace.tla compares it with   *)
(* what the real protocol object did.                                      *)
(*                                                                         *)
(* Written from the RFC, not from the code.  Where the RFC/property is     *)
(* silent the spec is nondeterministic (named *Either* below).             *)
(***************************************************************************)
EXTENDS Utf8Def, WsFrame, FiniteSetsExt

VARIABLES
  ctx,      \* [role, compress, failByDrop, maxFrame, maxMsg]  role = role of the receiving endpoint
  cs,       \* "OPEN" | "CLOSING" | "CLOSED"
  failed,   \* this endpoint failed the connection
  inside,   \* inside a fragmented message
  kind,     \* "text" | "binary" | "none"
  u8,       \* UTF-8 machine state of the current text message
  msgLen,   \* sum of the payload lengths of the frames of the current message
  cmp,      \* current message is compressed (RSV1 on its first frame)
  cur,      \* header of the frame whose payload is awaited, or NoFrame
  re        \* reaction of the last step

vars == <<ctx, cs, failed, inside, kind, u8, msgLen, cmp, cur, re>>

Quiet == [msgs |-> <<>>, pings |-> <<>>, pongs |-> <<>>, pongSent |-> <<>>, closeSent |-> 0, drop |-> FALSE]

\* ---------------------------------------------------------------- header rules (5.2, 5.4, 5.5)
Violations(c, ins, h) ==
  LET op == Opcode(h) IN
  {r \in {"rsv", "mask", "ctl-frag", "ctl-len", "ctl-op", "close-len1", "ctl-rsv1", "data-op", "cont-outside",
          "new-inside", "cont-rsv1", "len-nonminimal", "len-over63"} :
     CASE r = "rsv"          -> Rsv(h) # 0 /\ ~(c.compress /\ Rsv(h) = 4)
       [] r = "mask"         -> IF c.role = "server" THEN ~Masked(h) ELSE Masked(h)
       [] r = "ctl-frag"     -> op >= 8 /\ ~Fin(h)
       [] r = "ctl-len"      -> op >= 8 /\ Len7(h) > 125
       [] r = "ctl-op"       -> op >= 8 /\ op \notin {8, 9, 10}
       [] r = "close-len1"   -> op = 8 /\ Len7(h) = 1
       [] r = "ctl-rsv1"     -> op >= 8 /\ c.compress /\ Rsv(h) = 4
       [] r = "data-op"      -> op < 8 /\ op \notin {0, 1, 2}
       [] r = "cont-outside" -> op = 0 /\ ~ins
       [] r = "new-inside"   -> op < 8 /\ op # 0 /\ ins
       [] r = "cont-rsv1"    -> op < 8 /\ ins /\ c.compress /\ Rsv(h) = 4
       [] r = "len-nonminimal" -> PLen(h).cls = "nonminimal"
       [] r = "len-over63"   -> PLen(h).cls = "over63"}

SizeViolation(c, ml, h) ==
  /\ Opcode(h) < 8
  /\ \/ c.maxMsg > 0 /\ (PLen(h).cls = "huge" \/ ml + PLen(h).v > c.maxMsg)
     \/ c.maxFrame > 0 /\ (PLen(h).cls = "huge" \/ PLen(h).v > c.maxFrame)

\* ---------------------------------------------------------------- failing the connection (7.1.7)
\* With failByDrop the transport is dropped and no close frame is sent.  Otherwise the status code is announced in a
\* close frame (unless one was already sent); whether the endpoint then waits for the peer's close frame or drops the
\* transport right away is not constrained by RFC 6455 7.1.7 ("MAY"), and the code does either depending on how often
\* its rule cascade sees the offending header (once per read) - DropAfterFailEither.
Fail(code) ==
  /\ failed' = TRUE
  /\ IF ctx.failByDrop \/ cs = "CLOSING"
     THEN /\ cs' = "CLOSED"
          /\ re' = [Quiet EXCEPT !.drop = TRUE]
     ELSE \E d \in BOOLEAN :
          /\ cs' = (IF d THEN "CLOSED" ELSE "CLOSING")
          /\ re' = [Quiet EXCEPT !.closeSent = code, !.drop = d]

\* ---------------------------------------------------------------- a complete frame
\* d = [n |-> payload length, data |-> unmasked octets or <<>> when not logged, ascii |-> BOOLEAN, dlen |-> delivered length]
TextStep(st, d) == IF d.n = 0 THEN st
                   ELSE IF d.ascii THEN Step(st, 97)
                   ELSE Feed(st, d.data, 1).st

CloseCodeOf(d) == d.data[1] * 256 + d.data[2]

CompleteControl(f, d) ==
  /\ UNCHANGED <<inside, kind, u8, msgLen, cmp>>
  /\ cur' = NoFrame
  /\ CASE f.op = 9 ->
            /\ UNCHANGED <<failed>>
            /\ \E answer \in (IF cs = "OPEN" THEN {TRUE} ELSE BOOLEAN) :   \* PongInClosingEither
                 re' = [Quiet EXCEPT !.pings = <<d.data>>, !.pongSent = IF answer THEN <<d.data>> ELSE <<>>]
            /\ UNCHANGED cs
       [] f.op = 10 ->
            /\ UNCHANGED <<failed, cs>>
            /\ re' = [Quiet EXCEPT !.pongs = <<d.data>>]
       [] f.op = 8 ->
            LET hasCode == d.n >= 2
                code == IF hasCode THEN CloseCodeOf(d) ELSE 0
                badCode == hasCode /\ ~CloseCodeLegal(code) /\ ~CloseCodeEither(code)
                okCode == ~hasCode \/ CloseCodeLegal(code)
                reason == IF d.n > 2 THEN SubSeq(d.data, 3, d.n) ELSE <<>>
                badUtf8 == Feed("acc", reason, 1).st # "acc"
            IN \* a close frame with an illegal code / reason is itself the peer's close frame: dropping at once is allowed
               \/ /\ ~okCode                               \* CloseCodeEither: 1012..1014 may be treated as illegal
                  /\ Fail(1002)
               \/ /\ ~badCode /\ badUtf8
                  /\ Fail(1007)
               \/ /\ ~badCode /\ ~badUtf8
                  /\ UNCHANGED failed
                  \* valid close: reply once if we have not sent one (1000, or the peer's code when echoing; 1 = no code);
                  \* the server drops the TCP connection
                  /\ \E rc \in (IF cs = "OPEN" THEN {1000} \cup (IF hasCode THEN {code} ELSE {1}) ELSE {0}) :
                       re' = [Quiet EXCEPT !.closeSent = rc, !.drop = (ctx.role = "server")]
                  /\ cs' = IF ctx.role = "server" THEN "CLOSED" ELSE "CLOSING"

CompleteData(f, d) ==
  LET first == f.op # 0
      k     == IF first THEN (IF f.op = 1 THEN "text" ELSE "binary") ELSE kind
      c     == IF first THEN f.rsv = 4 ELSE cmp
      st0   == IF first THEN "acc" ELSE u8
      st1   == IF k = "text" /\ ~c THEN TextStep(st0, d) ELSE st0
      ml    == (IF first THEN 0 ELSE msgLen) + f.len
      badU  == k = "text" /\ ~c /\ (st1 = "rej" \/ (f.fin /\ st1 # "acc"))
  IN /\ cur' = NoFrame
     /\ IF badU
        THEN /\ Fail(1007)
             /\ UNCHANGED <<inside, kind, u8, msgLen, cmp>>
        ELSE /\ UNCHANGED <<failed, cs>>
             /\ inside' = ~f.fin
             /\ kind' = IF f.fin THEN "none" ELSE k
             /\ u8' = st1 /\ msgLen' = ml /\ cmp' = c
             /\ re' = IF f.fin
                      THEN [Quiet EXCEPT !.msgs = <<[bin |-> k = "binary", len |-> IF c THEN d.dlen ELSE ml, same |-> TRUE]>>]
                      ELSE Quiet

Complete(f, d) == IF f.op >= 8 THEN CompleteControl(f, d) ELSE CompleteData(f, d)

\* dl = length of the decompressed message a zero-length final frame completes (compressed messages only)
Empty(dl) == [n |-> 0, data |-> <<>>, ascii |-> FALSE, dlen |-> dl]

\* ---------------------------------------------------------------- the two actions
Header(h, dl) ==
  /\ cs # "CLOSED" /\ ~failed /\ cur = NoFrame
  /\ UNCHANGED ctx
  /\ LET V == Violations(ctx, inside, h)
         f == [fin |-> Fin(h), rsv |-> Rsv(h), op |-> Opcode(h), len |-> PLen(h).v]
     IN IF V # {}
        THEN Fail(1002)
             /\ UNCHANGED <<inside, kind, u8, msgLen, cmp, cur>>
        ELSE IF SizeViolation(ctx, IF Opcode(h) = 0 THEN msgLen ELSE 0, h)
        THEN Fail(1009) /\ UNCHANGED <<inside, kind, u8, msgLen, cmp, cur>>
        ELSE IF f.len = 0
        THEN Complete(f, Empty(dl))
        ELSE /\ cur' = f /\ re' = Quiet
             /\ UNCHANGED <<cs, failed, inside, kind, u8, msgLen, cmp>>

Payload(d) ==
  /\ cs # "CLOSED" /\ ~failed /\ cur # NoFrame
  /\ d.n = cur.len
  /\ UNCHANGED ctx
  /\ Complete(cur, d)

\* After this endpoint failed the connection by starting the closing handshake it keeps reading (to see the peer's
\* close frame) but must deliver nothing and send no further close frame; it may drop at any time.
AfterFailure ==
  /\ failed /\ cs = "CLOSING"
  /\ UNCHANGED <<ctx, failed, inside, kind, u8, msgLen, cmp, cur>>
  /\ \E d \in BOOLEAN : /\ re' = [Quiet EXCEPT !.drop = d]
                        /\ cs' = IF d THEN "CLOSED" ELSE "CLOSING"

\* After the transport was dropped nothing received has any effect.
AfterClosed ==
  /\ cs = "CLOSED"
  /\ re' = Quiet
  /\ UNCHANGED <<ctx, cs, failed, inside, kind, u8, msgLen, cmp, cur>>

\* Local close request while OPEN (sendClose): a close frame goes out, we keep receiving.
\* c = status code of the close frame (1 = close frame without a code)
LocalClose(c) ==
  /\ cs = "OPEN" /\ cur = NoFrame
  /\ c = 1 \/ c = 1000 \/ c \in 3000..4999
  /\ cs' = "CLOSING"
  /\ re' = [Quiet EXCEPT !.closeSent = c]
  /\ UNCHANGED <<ctx, failed, inside, kind, u8, msgLen, cmp, cur>>

\* ---------------------------------------------------------------- exhaustive model
CONSTANTS Contexts, Headers, Payloads

Init == /\ ctx \in Contexts
        /\ cs = "OPEN" /\ failed = FALSE /\ inside = FALSE /\ kind = "none" /\ u8 = "acc"
        /\ msgLen = 0 /\ cmp = FALSE /\ cur = NoFrame /\ re = Quiet

Next == \/ \E h \in Headers : Header(h, 0)
        \/ \E d \in Payloads : Payload(d)
        \/ AfterFailure \/ AfterClosed \/ (\E c \in {1, 1000, 3000} : LocalClose(c))

Spec == Init /\ [][Next]_vars

\* ---------------------------------------------------------------- properties of the design
NoDeliveryOnceFailed == failed => re.msgs = <<>> /\ re.pings = <<>> /\ re.pongs = <<>>
NothingAfterClosed == [][cs = "CLOSED" => re' = Quiet /\ cs' = "CLOSED"]_vars
ForwardOnly == [][(cs = "CLOSING" => cs' # "OPEN") /\ (cs = "CLOSED" => cs' = "CLOSED")]_vars
FailCodes == re.closeSent \in {0, 1} \cup 1000..1014 \cup 3000..4999
DropMeansClosed == re.drop => cs = "CLOSED"
FailByDropNeverSendsClose == [][(ctx.failByDrop /\ failed') => re'.closeSent = 0]_vars
PongEchoesPing == re.pongSent # <<>> => re.pongSent = re.pings
\* a delivered text message is well-formed UTF-8 (its machine ended in acc), never over a limit
DeliveredWithinLimits == \A i \in 1..Len(re.msgs) : ctx.maxMsg > 0 /\ ~cmp => re.msgs[i].len <= ctx.maxMsg
AtMostOneCloseFrame == [][(re'.closeSent # 0) => cs = "OPEN"]_vars
=============================================================================
