SPECIFICATION Spec
CONSTANTS
  MaxEvents = 8
  MaxReq = 2
  SubIds = {1}
  RegIds = {1}
  Handlers = {1, 2}
INVARIANT FreshSequentialIds
INVARIANT ExactlyOnce
INVARIANT OnlyOwnReply
INVARIANT UnknownReplyIsViolation
INVARIANT NothingPendingWithoutSession
INVARIANT GoodbyeAtMostOncePerSession
INVARIANT CallbackOrder
INVARIANT JoinedImpliesTransport
INVARIANT ApiFailsFastAfterEnd
INVARIANT AcksOnlyWhenAnnounced
INVARIANT AtMostOneTerminal
INVARIANT TerminalOnlyForInvoked
INVARIANT ExactlyOneTerminalWhileUp
INVARIANT ProgressOnlyWhileRunning
PROPERTY HandlersWereCurrent
INVARIANT CancelSentOnce
PROPERTY NothingPendingAfterSessionEnd
CHECK_DEADLOCK FALSE
