SPECIFICATION Spec
INVARIANT InvResponseWithinOffer
INVARIANT InvDirectionCompatible
INVARIANT InvInvalidAcceptsExist
CHECK_DEADLOCK FALSE
