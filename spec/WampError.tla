------------------------------ MODULE WampError ------------------------------
(***************************************************************************)
(* How an exception raised by a remote procedure travels (C18):            *)
(* callee side   _message_from_exception : exception -> ERROR              *)
(* caller side   _exception_from_message : ERROR -> exception              *)
(*                                                                         *)
(* Exception kinds at the callee:                                          *)
(*   "app"        ApplicationError(uri, *args, **kwargs)                   *)
(*   "decorated"  class decorated with @wamp.error(uri), defined on the    *)
(*                session                                                  *)
(*   "decorated2" class decorated with two URIs: both ends use the same one  *)
(*   "defined"    plain class made known with session.define(cls, uri)     *)
(*   "undefined"  any other exception class                                *)
(*   "definedsub" a subclass of a defined class, itself defined with its   *)
(*                own URI (after the base class)                           *)
(*   "undefsub"   a subclass of a defined class that is NOT defined: the   *)
(*                registration of a class does not extend to subclasses    *)
(*   "appsub"     a subclass of ApplicationError that IS defined on the    *)
(*                session but raised with another, more specific URI: an   *)
(*                application error always travels with the URI it carries *)
(*   "appsubundef" the same subclass, not defined                          *)
(*   "redefined"  a plain class defined twice with different URIs: the     *)
(*                later definition is the registered one                   *)
(*   "appfixed"   an ApplicationError subclass that supplies its URI       *)
(*                itself (constructor takes the arguments only): carried   *)
(*                like any application error; a caller that registered the *)
(*                class for that URI gets it back built from the arguments *)
(* Caller side registry for the URI: "same" (the class is defined there    *)
(* too and accepts the arguments), "badctor" (a class is defined whose     *)
(* constructor rejects the arguments / raises), "none".                    *)
(***************************************************************************)
EXTENDS Naturals, TLC

Kinds == {"app", "decorated", "decorated2", "defined", "undefined", "definedsub", "undefsub", "appsub", "appsubundef", "redefined", "appfixed"}
Registry == {"same", "badctor", "none"}

\* which URI the ERROR carries: "carried" (the application error's own), "registered", "runtime" (wamp.error.runtime_error)
WireUri(kind) == CASE kind \in {"app", "appsub", "appsubundef", "appfixed"} -> "carried" [] kind \in {"decorated", "decorated2", "defined", "definedsub", "redefined"} -> "registered" [] OTHER -> "runtime"

\* what the caller's call fails with: the registered class if there is one that can be constructed, else the generic error
CallerClass(reg) == IF reg = "same" THEN "registered" ELSE "generic"

\* ---- exhaustive table (TLC enumerates it; every cell is executed with every payload shape and serializer)
VARIABLES kind, reg, tb
vars == <<kind, reg, tb>>
Init == kind \in Kinds /\ reg \in Registry /\ tb \in BOOLEAN
Next == UNCHANGED vars
Spec == Init /\ [][Next]_vars
\* NeverLost: whatever the registry, the caller gets an error that carries the URI
TableTotal == WireUri(kind) \in {"carried", "registered", "runtime"} /\ CallerClass(reg) \in {"registered", "generic"}
=============================================================================
