----------------------------- MODULE WsChannel -----------------------------
(***************************************************************************)
(* One direction of an open WebSocket connection, from the send API of one *)
(* endpoint to onMessage of the other.                                     *)
(*                                                                         *)
(* Sender side (code anchors in websocket/protocol.py):                    *)
(*   SendMessage   sendMessage(): size check, optional fragmentation loop  *)
(*                 (exact `j > n` end condition: a payload that is a       *)
(*                 multiple of the fragment size ends with an EMPTY final  *)
(*                 continuation frame), every frame through sendFrame ->   *)
(*                 sendData(raw, sync, chopsize)                           *)
(*   BeginMessage / BeginFrame / FrameData / EndMessage   streaming API    *)
(*   SendData      sendData(): chopped -> pieces queued + _trigger;        *)
(*                 sync or queue non-empty -> queued + _trigger; else      *)
(*                 written directly                                        *)
(*   Pump          one _send() step of the send queue                      *)
(* Receiver side:                                                          *)
(*   Recv          one piece of the byte stream is consumed; frames are    *)
(*                 reassembled and a message is delivered when its FIN     *)
(*                 frame is complete                                       *)
(*                                                                         *)
(* The wire carries "pieces": [mid, fr, last] = a contiguous part of frame *)
(* fr of message mid (last = it completes the frame).  Read segmentation   *)
(* is covered because Recv consumes the stream piece by piece and nothing  *)
(* in the receiver depends on piece boundaries.                            *)
(*                                                                         *)
(* The framing grammar (RFC 6455 5.2-5.4) is the operator Framing, shared  *)
(* by the model invariant WireWellFormed and by WsChannelTrace, which runs *)
(* it over the real header octets.                                         *)
(***************************************************************************)
EXTENDS Integers, Sequences, SequencesExt, FiniteSets, TLC

CONSTANTS MaxMsgs,   \* messages sent in the exhaustive model
          Lens,      \* payload lengths (in abstract payload units)
          Frags,     \* fragment sizes, 0 = unfragmented
          Chops,     \* chop sizes (pieces per frame = ceil((1+len)/chop)), 0 = no chopping
          Limit      \* maxMessagePayloadSize of the sender, 0 = none

(***************************************************************************)
(* Framing grammar.  fs = [inside, mid, acc] : inside a fragmented message *)
(* mid, acc payload units so far.  A frame is [mid, op, fin, len, ctl].    *)
(* Returns the next framing state or Bad.                                *)
(***************************************************************************)
Ground == [inside |-> FALSE, mid |-> 0, acc |-> 0]
Bad == [inside |-> FALSE, mid |-> 0, acc |-> 999999]   \* the framing error state

Framing(fs, f) ==
  IF fs = Bad THEN Bad
  ELSE IF f.ctl THEN (IF f.fin /\ f.len <= 125 THEN fs ELSE Bad)   \* control frames may interleave, never fragmented
  ELSE IF ~fs.inside
       THEN IF f.op \in {1, 2}
            THEN (IF f.fin THEN Ground ELSE [inside |-> TRUE, mid |-> f.mid, acc |-> f.len])
            ELSE Bad                                               \* continuation without a started message
       ELSE IF f.op = 0 /\ f.mid = fs.mid
            THEN (IF f.fin THEN Ground ELSE [fs EXCEPT !.acc = fs.acc + f.len])
            ELSE Bad                                               \* new message inside a fragmented one

VARIABLES
  sent,       \* messages accepted by the send API, in order: [id, bin, len]
  refused,    \* ids of sends refused locally (over the limit)
  sstate,     \* streaming API state: "ground" | "msg" | "frame"
  scur,       \* message being streamed: [id, bin, len, left (units not yet framed), fr (frames so far), fleft (units left in frame)]
  queue,      \* send queue: pieces not yet written
  triggered,  \* a _send() step is scheduled
  wire,       \* pieces written to the transport, in order
  rpos,       \* pieces consumed by the receiver
  rfs,        \* receiver framing state
  rcur,       \* receiver: units of the current frame consumed so far / frame record
  delivered,  \* messages delivered to onMessage: [id, bin, len]
  frames,     \* history: frame records in the order the sender produced them [mid, op, fin, len, ctl]
  closing     \* the sender has called sendClose(): its close frame went the way of every other frame (sendData); no further sends

vars == <<sent, refused, sstate, scur, queue, triggered, wire, rpos, rfs, rcur, delivered, frames, closing>>

NoMsg == [id |-> 0]

Init == /\ sent = <<>> /\ refused = {} /\ sstate = "ground" /\ scur = NoMsg
        /\ queue = <<>> /\ triggered = FALSE /\ wire = <<>> /\ rpos = 0
        /\ rfs = Ground /\ rcur = 0 /\ delivered = <<>> /\ frames = <<>> /\ closing = FALSE

NextId == Len(sent) + Cardinality(refused) + 1

\* ---- sendData(raw, sync, chop) for one frame, given current (queue, triggered, wire); returns the new triple
Pieces(mid, fr, len, chop) ==
  IF chop = 0 THEN <<[mid |-> mid, fr |-> fr, last |-> TRUE]>>
  ELSE LET n == ((1 + len) + chop - 1) \div chop IN        \* header counts as one unit
       [i \in 1..n |-> [mid |-> mid, fr |-> fr, last |-> (i = n)]]

SendData(q, t, w, pcs, sync, chop) ==
  IF chop > 0 \/ sync \/ Len(q) > 0
  THEN \* queued; _trigger(): if no _send() is scheduled, the first queued entry is written at once
       LET q2 == q \o pcs IN
       IF ~t THEN [q |-> Tail(q2), t |-> TRUE, w |-> Append(w, Head(q2))]
       ELSE [q |-> q2, t |-> t, w |-> w]
  ELSE [q |-> q, t |-> t, w |-> w \o pcs]

\* frames of sendMessage(len, frag): list of [op, fin, len]
RECURSIVE FragLoop(_, _, _, _)
FragLoop(i, n, frag, first) ==
  LET j == i + frag
      done == j > n
      jj == IF done THEN n ELSE j
      f == [first |-> first, fin |-> done, len |-> jj - i]
  IN IF done THEN <<f>> ELSE <<f>> \o FragLoop(i + frag, n, frag, FALSE)

MsgFrames(len, frag) ==
  IF frag = 0 \/ len <= frag THEN <<[first |-> TRUE, fin |-> TRUE, len |-> len]>>
  ELSE FragLoop(0, len, frag, TRUE)

RECURSIVE PushFrames(_, _, _, _, _, _)
PushFrames(st, mid, fs, k, sync, chop) ==
  IF k > Len(fs) THEN st
  ELSE PushFrames(SendData(st.q, st.t, st.w, Pieces(mid, k, fs[k].len, chop), sync, chop), mid, fs, k + 1, sync, chop)

FrameRecs(mid, bin, fs) ==
  [k \in 1..Len(fs) |-> [mid |-> mid, op |-> IF fs[k].first THEN (IF bin THEN 2 ELSE 1) ELSE 0,
                         fin |-> fs[k].fin, len |-> fs[k].len, ctl |-> FALSE]]

SendMessage(len, bin, frag, sync, chop) ==
  /\ sstate = "ground" /\ NextId <= MaxMsgs /\ ~closing
  /\ IF Limit > 0 /\ len > Limit
     THEN /\ refused' = refused \cup {NextId}            \* PayloadExceededError, nothing written
          /\ UNCHANGED <<sent, queue, triggered, wire, frames>>
     ELSE LET id == NextId
              fs == MsgFrames(len, frag)
              st == PushFrames([q |-> queue, t |-> triggered, w |-> wire], id, fs, 1, sync, chop)
          IN /\ sent' = Append(sent, [id |-> id, bin |-> bin, len |-> len, api |-> "msg"])
             /\ queue' = st.q /\ triggered' = st.t /\ wire' = st.w
             /\ frames' = frames \o FrameRecs(id, bin, fs)
             /\ UNCHANGED refused
  /\ UNCHANGED <<sstate, scur, rpos, rfs, rcur, delivered>> /\ UNCHANGED closing

\* ---- streaming API (frame payload is supplied exactly; header is written by sendData(header), data by sendData(data, sync))
BeginMessage(len, bin) ==
  /\ sstate = "ground" /\ NextId <= MaxMsgs /\ ~closing
  /\ sstate' = "msg"
  /\ scur' = [id |-> NextId, bin |-> bin, len |-> len, left |-> len, fr |-> 0, fleft |-> 0]
  /\ sent' = Append(sent, [id |-> NextId, bin |-> bin, len |-> len, api |-> "stream"])
  /\ UNCHANGED <<refused, queue, triggered, wire, rpos, rfs, rcur, delivered, frames>> /\ UNCHANGED closing

BeginFrame(n) ==
  /\ sstate = "msg" /\ n <= scur.left /\ n > 0
  /\ LET st == SendData(queue, triggered, wire, <<[mid |-> scur.id, fr |-> scur.fr + 1, last |-> FALSE]>>, FALSE, 0)
     IN queue' = st.q /\ triggered' = st.t /\ wire' = st.w
  /\ frames' = Append(frames, [mid |-> scur.id, op |-> IF scur.fr = 0 THEN (IF scur.bin THEN 2 ELSE 1) ELSE 0,
                               fin |-> FALSE, len |-> n, ctl |-> FALSE])
  /\ scur' = [scur EXCEPT !.fr = scur.fr + 1, !.fleft = n, !.left = scur.left - n]
  /\ sstate' = "frame"
  /\ UNCHANGED <<sent, refused, rpos, rfs, rcur, delivered>> /\ UNCHANGED closing

FrameData(k, sync) ==
  /\ sstate = "frame" /\ k >= 1 /\ k <= scur.fleft
  /\ LET st == SendData(queue, triggered, wire, <<[mid |-> scur.id, fr |-> scur.fr, last |-> (k = scur.fleft)]>>, sync, 0)
     IN queue' = st.q /\ triggered' = st.t /\ wire' = st.w
  /\ scur' = [scur EXCEPT !.fleft = scur.fleft - k]
  /\ sstate' = IF k = scur.fleft THEN "msg" ELSE "frame"
  /\ UNCHANGED <<sent, refused, rpos, rfs, rcur, delivered, frames>> /\ UNCHANGED closing

EndMessage ==
  /\ sstate = "msg" /\ scur.left = 0
  /\ LET st == SendData(queue, triggered, wire, <<[mid |-> scur.id, fr |-> scur.fr + 1, last |-> TRUE]>>, FALSE, 0)
     IN queue' = st.q /\ triggered' = st.t /\ wire' = st.w
  \* the final frame: an empty continuation with FIN (the message opcode if no frame was sent before: see DESIGN F17)
  /\ frames' = Append(frames, [mid |-> scur.id, op |-> IF scur.fr = 0 THEN (IF scur.bin THEN 2 ELSE 1) ELSE 0,
                               fin |-> TRUE, len |-> 0, ctl |-> FALSE])
  /\ sstate' = "ground" /\ scur' = NoMsg
  /\ UNCHANGED <<sent, refused, rpos, rfs, rcur, delivered>> /\ UNCHANGED closing

\* ---- sendClose(): the close frame is queued behind whatever is still waiting (sendFrame -> sendData like any frame); the pump
\* keeps writing while the connection is closing (only a CLOSED connection stops it), so everything sent before is delivered
CloseId == MaxMsgs + 1
SendClose ==
  /\ sstate = "ground" /\ ~closing
  /\ closing' = TRUE
  /\ LET st == SendData(queue, triggered, wire, <<[mid |-> CloseId, fr |-> 1, last |-> TRUE]>>, FALSE, 0)
     IN queue' = st.q /\ triggered' = st.t /\ wire' = st.w
  /\ frames' = Append(frames, [mid |-> CloseId, op |-> 8, fin |-> TRUE, len |-> 0, ctl |-> TRUE])
  /\ UNCHANGED <<sent, refused, sstate, scur, rpos, rfs, rcur, delivered>>

\* ---- the send queue pump (_send)
Pump ==
  /\ triggered
  /\ IF Len(queue) > 0
     THEN /\ wire' = Append(wire, Head(queue)) /\ queue' = Tail(queue) /\ UNCHANGED triggered
     ELSE /\ triggered' = FALSE /\ UNCHANGED <<queue, wire>>
  /\ UNCHANGED <<sent, refused, sstate, scur, rpos, rfs, rcur, delivered, frames>> /\ UNCHANGED closing

\* ---- receiver: consume the next piece; a frame is complete with its last piece
FrameOf(p) == SelectSeq(frames, LAMBDA g : g.mid = p.mid)[p.fr]

Recv ==
  /\ rpos < Len(wire)
  /\ rpos' = rpos + 1
  /\ LET p == wire[rpos + 1] IN
     IF ~p.last THEN UNCHANGED <<rfs, rcur, delivered>>
     ELSE LET f == FrameOf(p)
              nfs == Framing(rfs, f)
          IN /\ rfs' = nfs
             /\ rcur' = rcur
             /\ IF nfs # Bad /\ f.fin /\ ~f.ctl
                THEN delivered' = Append(delivered, [id |-> f.mid])
                ELSE UNCHANGED delivered
  /\ UNCHANGED <<sent, refused, sstate, scur, queue, triggered, wire, frames>> /\ UNCHANGED closing

Next ==
  \/ \E len \in Lens, bin \in BOOLEAN, frag \in Frags, sync \in BOOLEAN, chop \in Chops : SendMessage(len, bin, frag, sync, chop)
  \/ \E len \in Lens, bin \in BOOLEAN : BeginMessage(len, bin)
  \/ \E n \in Lens : BeginFrame(n)
  \/ \E k \in Lens, sync \in BOOLEAN : FrameData(k, sync)
  \/ EndMessage
  \/ SendClose
  \/ Pump
  \/ Recv

Spec == Init /\ [][Next]_vars /\ WF_vars(Pump) /\ WF_vars(Recv)

\* ---- properties
Ids(s) == [i \in 1..Len(s) |-> s[i].id]

\* everything ever handed to the transport, followed by what still waits in the queue, is in frame order and contiguous
PieceOrderOk(ps) ==
  \A i \in 1..Len(ps) - 1 :
    LET a == ps[i] b == ps[i + 1] IN
      IF a.last THEN (b.mid > a.mid \/ (b.mid = a.mid /\ b.fr = a.fr + 1))
      ELSE b.mid = a.mid /\ b.fr = a.fr
WirePiecesInOrder == PieceOrderOk(wire \o queue)

\* the frames produced form a well-formed RFC 6455 frame sequence
WireWellFormed == FoldLeft(Framing, Ground, frames) # Bad

InOrderExactlyOnce == IsPrefix(Ids(delivered), Ids(sent))
NothingInvented == \A i \in 1..Len(delivered) : \E j \in 1..Len(sent) : sent[j].id = delivered[i].id
RefusedNeverOnWire == \A i \in 1..Len(wire) : wire[i].mid \notin refused
\* the size check belongs to sendMessage(); the streaming API does not know the total length when it starts
OverLimitRefused == \A i \in 1..Len(sent) : (Limit > 0 /\ sent[i].api = "msg") => sent[i].len <= Limit
ReceiverNeverFails == rfs # Bad
QueueOnlyWhileTriggered == Len(queue) > 0 => triggered

\* liveness: every message whose FIN frame was produced is eventually delivered (fair pump and receiver)
HasFin(id) == \E i \in 1..Len(frames) : frames[i].mid = id /\ frames[i].fin
IsDelivered(id) == \E i \in 1..Len(delivered) : delivered[i].id = id
EventuallyDelivered == \A id \in 1..MaxMsgs : HasFin(id) ~> IsDelivered(id)
\* the close frame is the last thing this sender ever puts on the wire
NothingAfterClose == \A i \in 1..Len(wire) : wire[i].mid = CloseId => i = Len(wire) /\ Len(queue) = 0
AllDeliveredWhenQuiet == (sstate = "ground" /\ ~triggered /\ rpos = Len(wire) /\ Len(queue) = 0) => Ids(delivered) = Ids(sent)
=============================================================================
