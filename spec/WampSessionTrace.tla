-------------------------- MODULE WampSessionTrace --------------------------
(***************************************************************************)
(* Batch validation of recorded executions of a real ApplicationSession    *)
(* (Twisted Deferreds / asyncio Futures) over a recording transport.       *)
(* Every event names the entry point (open, rx, api, lost, resolve,        *)
(* progress), carries the abstract message / arguments, the observed       *)
(* reaction `re` and the projection `obs` of the session tables afterwards *)
(* plus three fidelity flags computed by byte/value comparison in the      *)
(* harness: faithful (request messages carry exactly what the API was      *)
(* given), valuesOk (completions carry exactly the reply's content),       *)
(* argsOk (handlers / endpoints got exactly the payload and only the       *)
(* details they asked for).                                                *)
(***************************************************************************)
EXTENDS WampSession, Json, IOUtils, TLCExt

Traces == JsonDeserialize(IOEnv.TRACE_FILE)
N == Len(Traces)
ASSUME \A i \in 1..N : TLCSet(i, 0)
VARIABLES tid, l
tvars == <<s, re, n, hist, tid, l>>
E == Traces[tid][l]
IsEvent(name) == l <= Len(Traces[tid]) /\ E.ev = name /\ l' = l + 1 /\ UNCHANGED <<tid, n, hist>>
TInit == tid \in 1..N /\ l = 1 /\ s = S0 /\ re = NoRe /\ n = 0 /\ hist = H0

ToSet(q) == {q[i] : i \in 1..Len(q)}
PendOf(o, k) == {[id |-> o.pend[k][i][1], x |-> o.pend[k][i][2]] : i \in 1..Len(o.pend[k])}
StateMatches(x, o) ==
  /\ x.tr = o.tr /\ x.joined = o.joined /\ x.gb = o.gb /\ x.nreq = o.nreq
  /\ \A k \in Kinds : x.pend[k] = PendOf(o, k)
  /\ x.subs = {[sub |-> o.subs[i][1], hs |-> o.subs[i][2]] : i \in 1..Len(o.subs)}
  /\ x.regs = ToSet(o.regs)
  /\ x.invs = {[req |-> o.invs[i][1], rp |-> o.invs[i][2]] : i \in 1..Len(o.invs)}

OutRec(m) == IF m.t \in {"yield", "error"} THEN [t |-> m.t, req |-> m.req, progress |-> m.progress]
             ELSE IF m.t \in Kinds \cup {"cancel"} THEN [t |-> m.t, req |-> m.req] ELSE [t |-> m.t]
ReMatches(x, r) ==
  /\ x.out = [i \in 1..Len(r.out) |-> OutRec(r.out[i])]
  /\ x.cbs = r.cbs
  \* (a failing onChallenge: whether listeners are told 'leave' is not compared)
  /\ x.evs = r.evs \/ (Len(x.cbs) = 2 /\ x.cbs[1] = "onChallenge")
  /\ ToSet(x.done) = {[id |-> r.done[i][1], ok |-> r.done[i][2]] : i \in 1..Len(r.done)} /\ Len(x.done) = Len(r.done)
  /\ x.hcalls = r.hcalls
  /\ x.ecalls = [i \in 1..Len(r.ecalls) |-> [reg |-> r.ecalls[i][1], req |-> r.ecalls[i][2]]]
  /\ x.prog = r.prog
  /\ x.closes = r.closes
  /\ x.exc = r.exc

\* "retry on error": calls issued from inside errbacks that ran during this step (E.re.retry[i] = the call was accepted).
\* Each is one more Call applied to the step's result; its CALL goes out after everything the step itself sent.
RECURSIVE WithRetries(_, _)
WithRetries(r, k) ==
  IF k > Len(E.re.retry) THEN r
  ELSE LET c == Call(r.s, FALSE) IN
       IF (c.re.exc = "") # E.re.retry[k] THEN Mk(r.s, [r.re EXCEPT !.exc = "retry-mismatch"])      \* accepted iff the transport is up
       ELSE WithRetries(Mk(c.s, [r.re EXCEPT !.out = @ \o c.re.out]), k + 1)
\* an in-process transport whose close() tells the session at once that the transport is gone: the step that closes the
\* transport and the loss are one step (callbacks in order; listener events may interleave differently: compared as bags)
WithSyncLost(r) ==
  IF ~E.synclost THEN r
  ELSE IF r.re.closes = 0 THEN Mk(r.s, [r.re EXCEPT !.exc = "unexpected-close"])
  ELSE LET x == Lost(r.s) IN
       Mk(x.s, [r.re EXCEPT !.out = @ \o x.re.out, !.cbs = @ \o x.re.cbs, !.evs = @ \o x.re.evs, !.done = @ \o x.re.done])
Bag(q) == [v \in ToSet(q) |-> Cardinality({i \in 1..Len(q) : q[i] = v})]
Matches(r) == /\ StateMatches(r.s, E.obs) /\ ReMatches([r.re EXCEPT !.evs = IF E.synclost THEN E.re.evs ELSE @], E.re)
              /\ (E.synclost => Bag(r.re.evs) = Bag(E.re.evs))
\* (errbacks - and the calls re-issued from them - run either in the step itself, while the transport is still up, or in the
\* loss that a synchronous close appends to it, never in both: whichever order explains the log)
Accept(r00) == LET r0 == IF E.lraise THEN LeaveRaises(r00) ELSE r00
                  rA == IF E.lraise THEN LeaveRaises(WithSyncLost(WithRetries(r0, 1))) ELSE WithSyncLost(WithRetries(r0, 1))
                  rB == IF E.lraise THEN LeaveRaises(WithRetries(WithSyncLost(r0), 1)) ELSE WithRetries(WithSyncLost(r0), 1)
                  r == IF Matches(rA) THEN rA ELSE rB IN
             /\ s' = r.s /\ re' = r.re
             /\ Matches(r)
             /\ E.faithful /\ E.valuesOk /\ E.argsOk

Msg == E.m
TOpen == IsEvent("open") /\ Accept(Open(s))
TRx == IsEvent("rx") /\ Accept(Rx(s, Msg, [welcome |-> E.u.welcome, challenge |-> E.u.challenge], E.beh))
TLost == IsEvent("lost") /\ Accept(Lost(s))
RECURSIVE SubscribeAll(_, _)
SubscribeAll(r, hs) ==
  IF hs = <<>> THEN r
  ELSE LET x == Subscribe(r.s, Head(hs)) IN SubscribeAll(Mk(x.s, [x.re EXCEPT !.out = r.re.out \o x.re.out]), Tail(hs))
\* a reply delivered by the transport from inside send() (in-process router): the API step and the reply are one step
WithSync(r1) ==
  IF E.sync.t = "none" \/ r1.re.exc # "" THEN r1
  ELSE LET r2 == Rx(r1.s, E.sync, U0, "value") IN
       Mk(r2.s, [r2.re EXCEPT !.out = r1.re.out \o r2.re.out, !.done = r1.re.done \o r2.re.done])
AcceptSync(r0) == Accept(WithSync(r0))
TApi ==
  /\ IsEvent("api")
  /\ AcceptSync(CASE E.name \in {"call", "publish"} /\ E.bad # "" ->
                   RequestFails(s, IF E.bad = "ser" THEN "SerializationError" ELSE "PayloadExceededError")
              [] E.name = "call" -> Call(s, E.progress)
              [] E.name = "cancel" -> CancelCall(s, E.req)
              [] E.name = "publish" -> Publish(s, E.ack)
              [] E.name = "subscribe" -> Subscribe(s, E.h)
              \* subscribe(obj) with decorated methods = one Subscribe step per decorator, in one call
              [] E.name = "subscribe_obj" -> SubscribeAll(Mk(s, NoRe), E.hs)
              [] E.name = "unsubscribe" -> Unsubscribe(s, E.sub, E.h, E.pos)
              [] E.name = "register" -> Register(s)
              [] E.name = "unregister" -> Unregister(s, E.reg)
              [] E.name = "leave" -> IF E.bad = "" THEN Leave(s) ELSE LeaveFails(s, "PayloadExceededError")
              [] E.name = "disconnect" -> Disconnect(s))
TResolve == IsEvent("resolve") /\ Accept(Resolve(s, E.req, E.how))
TProgress == IsEvent("progress") /\ Accept(Progress(s, E.req))

\* One invocation through a real transport (WebSocket / RawSocket, this framework): what arrives at the router.
\* Exactly one terminal reply with the invocation's id, of the kind ReplyOf(beh); a progressive YIELD only before it and
\* only if asked for; the endpoint saw the caller's arguments; the session lives on.
TInvReal ==
  /\ IsEvent("inv") /\ UNCHANGED <<s, re>>
  /\ LET o == E.obs
         term == SelectSeq(o.replies, LAMBDA r : ~r.progress)
         prog == SelectSeq(o.replies, LAMBDA r : r.progress) IN
     /\ o.esc = "" /\ o.alive /\ o.calls = 1 /\ o.argsOk
     /\ o.valuesOk                                   \* the YIELD carries the endpoint's value, the ERROR what was raised
     /\ Len(term) = 1 /\ term[1].t = ReplyOf(E.beh) /\ term[1].req = E.req
     /\ o.replies[Len(o.replies)] = term[1]                              \* nothing after the terminal reply
     /\ Len(prog) = (IF E.rp THEN 1 ELSE 0)
     /\ \A i \in 1..Len(prog) : prog[i].t = "yield" /\ prog[i].req = E.req
\* One session life on a real transport (WebSocket / RawSocket, this framework): joined with a call pending, then the
\* transport is lost (cleanly or not) or the router says GOODBYE and the transport closes.  What the operators Open, Rx(welcome),
\* Call, Rx(goodbye) / Lost produce, seen from outside: callbacks and listener events in the order connect, join, leave,
\* disconnect, each once; the pending call fails; a later call fails at once.
TLifeReal ==
  /\ IsEvent("life") /\ UNCHANGED <<s, re>>
  /\ LET o == E.obs IN
     /\ o.esc = ""
     /\ o.cbs = <<"onConnect", "onJoin", "onLeave", "onDisconnect">>
     /\ o.evs = <<"connect", "join", "leave", "disconnect">>
     /\ o.callDone = "err" /\ o.later = "TransportLost"
     /\ (E.how = "goodbye" => o.dropped)                       \* after GOODBYE the client closes the transport itself
\* A session whose request counter stands at E.base issues E.n requests: the ids on the wire are the next E.n ids (sequential,
\* wrapping from 2^53 to 1, never outside 1..2^53), one request message per call and of its kind, and every request completes
\* exactly once with the reply bearing its id although the replies come in another order.
TIdWrap ==
  /\ IsEvent("idwrap") /\ UNCHANGED <<s, re>>
  /\ Len(E.wires) = E.n /\ E.sameKind /\ E.once /\ E.esc = ""
  /\ \A i \in 1..E.n : E.wires[i] = IdAfter(E.base, i) /\ IdInRange(E.wires[i]) /\ E.own[i]
TNext == TIdWrap \/ TOpen \/ TRx \/ TLost \/ TApi \/ TResolve \/ TProgress \/ TInvReal \/ TLifeReal
TraceSpec == TInit /\ [][TNext]_tvars
Progress_ == TLCSet(tid, IF TLCGet(tid) < l THEN l ELSE TLCGet(tid))
Post ==
  LET rej == {i \in 1..N : TLCGet(i) # Len(Traces[i]) + 1} IN
    /\ \A i \in rej : PrintT(<<"REJECT", i, TLCGet(i)>>)
    /\ PrintT(<<"ACCEPTED", N - Cardinality(rej)>>)
=============================================================================
