SPECIFICATION Spec
CONSTANTS
  MaxMsgs = 3
  Lens = {0, 1, 2}
  Frags = {0, 1, 2}
  Chops = {0, 2}
  Limit = 0
INVARIANT WirePiecesInOrder
INVARIANT WireWellFormed
INVARIANT InOrderExactlyOnce
INVARIANT NothingInvented
INVARIANT ReceiverNeverFails
INVARIANT QueueOnlyWhileTriggered
INVARIANT AllDeliveredWhenQuiet
INVARIANT NothingAfterClose
PROPERTY EventuallyDelivered
CHECK_DEADLOCK FALSE
