-------------------------------- MODULE E2ee --------------------------------
(***************************************************************************)
(* WAMP-cryptobox end-to-end payload encryption (wamp/cryptobox.py and the *)
(* enc_algo branches of ApplicationSession), symbolically: what must       *)
(* happen to an application payload in each of the four payload-carrying   *)
(* directions, for each keyring layout and each fault a router / attacker  *)
(* can inject between the two sessions.                                    *)
(*   dir    "publish" (PUBLISH -> EVENT), "call" (CALL -> INVOCATION),     *)
(*          "result" (YIELD -> RESULT), "error" (ERROR back to the caller) *)
(*          "progress" (progressive YIELD -> RESULT; the fault hits the    *)
(*          progressive message only, the final result arrives untouched)  *)
(*   layout "default" (one default key), "prefix" (a key for the URI       *)
(*          prefix), "split" (originator-only key at the originator,       *)
(*          responder-only key at the responder), "nokey" (no key covers   *)
(*          the URI: the payload legitimately travels in the clear)        *)
(*   fault  "none", "tamper" (one ciphertext octet altered), "wrongkey"    *)
(*          (receiver holds a different key), "uriswap" (ciphertext        *)
(*          delivered under the envelope of another, equally keyed URI -   *)
(*          unrelated, a string prefix or an extension of the right one;   *)
(*          for "result": the genuine result of another procedure handed   *)
(*          to the caller), "unencodable" (the sender's payload holds a    *)
(*          value the serializer inside the box cannot encode although the *)
(*          transport's could: it must not travel in clear instead)        *)
(***************************************************************************)
EXTENDS Naturals, TLC

Dirs == {"publish", "call", "result", "error", "progress"}
Layouts == {"default", "prefix", "split", "nokey"}
Faults == {"none", "tamper", "wrongkey", "uriswap", "unencodable"}

Keyed(layout) == layout # "nokey"

\* encOnWire: the message carries payload + enc_algo and no clear args / kwargs
\* delivered: what the receiving application code (handler / endpoint / caller) sees:
\*            "exact" (identical uri, args, kwargs) | "none" (not invoked / not completed with a payload)
\* call:      outcome of the originator's call: "ok" | "apperror" (the callee's own error, exact) | "encerror"
\*            (wamp.error.encryption.*) | "na" (publish)
Expect(dir, layout, fault) ==
  IF ~Keyed(layout) \/ fault = "none"
  THEN [enc |-> Keyed(layout), delivered |-> "exact",
        call |-> CASE dir = "publish" -> "na" [] dir = "error" -> "apperror" [] OTHER -> "ok"]
  ELSE IF fault = "unencodable"
  THEN [enc |-> TRUE, delivered |-> "none",           \* nothing (or nothing readable) is sent
        call |-> CASE dir = "publish" -> "na"
                   [] dir = "call" -> "refused"        \* call() itself fails, nothing was sent
                   [] OTHER -> "notok"]                \* the callee could not send its result / error: whatever the caller
                                                      \* gets, it is not a successful result
  ELSE [enc |-> TRUE, delivered |-> "none",
        call |-> CASE dir = "publish" -> "na"
                   [] dir = "progress" -> "ok"        \* on_progress is not fired; the untouched final result completes the call
                   [] OTHER -> "encerror"]

\* A keyring that changes while it is in use (same sessions, same URI; a multi-step history): ko / kr = what the originator /
\* the responder hold for the URI's prefix at that moment ("none": no key, "k1", "k2").  What goes out is decided by the keys
\* installed *now*, not by what was looked up earlier.
KeyStates == {"none", "k1", "k2"}
LiveExpect(ko, kr) == [enc |-> ko # "none", delivered |-> IF ko = "none" \/ ko = kr THEN "exact" ELSE "none"]
\* An error is a payload of its own: an error URI that a key covers is encrypted whether or not the call it answers was.
ErrKeyedExpect == [enc |-> TRUE, delivered |-> "exact", call |-> "apperror"]
ASSUME \A ko \in KeyStates, kr \in KeyStates : (ko # "none" => LiveExpect(ko, kr).enc) /\ LiveExpect(ko, kr).delivered \in {"exact", "none"}

VARIABLES dir, layout, fault
vars == <<dir, layout, fault>>
Init == dir \in Dirs /\ layout \in Layouts /\ fault \in Faults
Next == UNCHANGED vars
Spec == Init /\ [][Next]_vars
\* never both: altered payload delivered, or a faulted call reported as success
NeverAltered == Expect(dir, layout, fault).delivered \in {"exact", "none"}
FaultNeverSucceeds == (Keyed(layout) /\ fault \notin {"none", "unencodable"} /\ dir \notin {"publish", "progress"}) => Expect(dir, layout, fault).call = "encerror"
NeverClear == Keyed(layout) => Expect(dir, layout, fault).enc
=============================================================================
