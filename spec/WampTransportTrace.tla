------------------------- MODULE WampTransportTrace -------------------------
(***************************************************************************)
(* Judges logged runs of the real WAMP transports with WampTransport.tla's *)
(* rules.  Events:                                                         *)
(*   rs_hs   role, o[4], sup / req, exp, obs    one RawSocket handshake    *)
(*   ws_neg  cl, sl, obs                        one WebSocket negotiation  *)
(*   link_*  see below                          message phase of a pair    *)
(***************************************************************************)
EXTENDS WampTransportRules, Json, IOUtils, TLCExt, SequencesExt
Traces == JsonDeserialize(IOEnv.TRACE_FILE)
N == Len(Traces)
ASSUME \A i \in 1..N : TLCSet(i, 0)
VARIABLES tid, l, lk
\* lk: link state of the scenario being replayed (see TLink*)
tvars == <<tid, l, lk>>
E == Traces[tid][l]
Ev(name) == l <= Len(Traces[tid]) /\ E.ev = name /\ l' = l + 1 /\ UNCHANGED tid
NoLink == [on |-> FALSE]
TInit == tid \in 1..N /\ l = 1 /\ lk = NoLink

ToSeq4(x) == <<x[1], x[2], x[3], x[4]>>
AttachObs(o, expected_reply, ser_, maxs) ==
  /\ o.attached = 1 /\ o.opens = 1 /\ o.esc = "" /\ ~o.dropped
  /\ o.reply = expected_reply /\ o.ser = ser_ /\ o.maxSend = maxs
  /\ o.closes = 1                                 \* told exactly once when the connection then goes away
RefuseObs(o, server) ==
  /\ o.attached = 0 /\ o.opens = 0 /\ o.closes = 0 /\ o.esc = "" /\ o.dropped
  /\ (server => RsRefuseReplyOK(o.reply)) /\ (~server => o.reply = <<>>)
TRsHs ==
  /\ Ev("rs_hs") /\ UNCHANGED lk
  /\ LET o == ToSeq4(E.o) IN
     IF E.role = "S"
     THEN LET v == RsServerVerdict(o, ToSet(E.sup)) IN
          /\ (v = "attach" => AttachObs(E.obs, RsAcceptReply(o, E.exp), Lo(o[2]), RsMaxSend(o)))
          /\ (v = "refuse" => RefuseObs(E.obs, TRUE))
          /\ (v = "either" => (AttachObs(E.obs, RsAcceptReply(o, E.exp), Lo(o[2]), RsMaxSend(o)) \/ RefuseObs(E.obs, TRUE)))
     ELSE LET v == RsClientVerdict(o, E.req) IN
          /\ E.obs.hello = <<MAGIC, (E.exp - 9) * 16 + E.req, 0, 0>>
          /\ (v = "attach" => AttachObs(E.obs, <<>>, E.req, RsMaxSend(o)))
          /\ (v = "refuse" => RefuseObs(E.obs, FALSE))
          /\ (v = "either" => (AttachObs(E.obs, <<>>, E.req, RsMaxSend(o)) \/ RefuseObs(E.obs, FALSE)))

Binary(s) == s \notin {"json", "json.batched"}
TWsNeg ==
  /\ Ev("ws_neg") /\ UNCHANGED lk
  /\ LET ch == WsChosen(E.cl, ToSet(E.sl)) o == E.obs IN
     /\ o.esc = ""
     /\ IF ch = ""
        THEN /\ o.attachedC = 0 /\ o.attachedS = 0 /\ o.closesC = 0 /\ o.closesS = 0
             /\ o.status # 101 /\ o.droppedC /\ o.droppedS
        ELSE /\ o.attachedC = 1 /\ o.attachedS = 1 /\ o.status = 101
             /\ o.subproto = "wamp.2." \o ch
             /\ o.serC = ch /\ o.serS = ch                       \* both ends use that same serializer
             /\ o.binC = Binary(ch) /\ o.binS = Binary(ch)        \* ... with the matching text / binary framing
             /\ o.rxS /\ o.rxC                                    \* and a message each way arrives intact
             /\ o.closesC = 1 /\ o.closesS = 1

\* a scripted client offering arbitrary subprotocol names to a real server
TWsNegRaw ==
  /\ Ev("ws_neg_raw") /\ UNCHANGED lk
  /\ LET ch == WsChosenRaw(E.offers, ToSet(E.sl)) o == E.obs IN
     /\ o.esc = ""
     /\ IF ch = "" THEN o.attachedS = 0 /\ o.status # 101 /\ o.droppedS /\ o.closesS = 0
        ELSE o.attachedS = 1 /\ o.status = 101 /\ o.subproto = "wamp.2." \o ch /\ o.serS = ch /\ o.binS = Binary(ch) /\ o.closesS = 1

\* ---- message phase, a real RawSocket end against the scripted peer
Half(ms, mr, op) == [on |-> TRUE, t |-> "half", maxSend |-> ms, maxRecv |-> mr, open |-> op]
TLinkOpen ==
  /\ Ev("link_open") /\ ~lk.on
  /\ E.obs.esc = "" /\ E.obs.attached = 1
  /\ E.obs.maxSend = E.maxSend                    \* it will send at most what the peer announced
  \* and announced the smallest power of two (2^9..2^24) that is not below its own configured maximum: what it announces
  \* is what the peer may send, so that - not the configured number - is the limit on incoming frames from here on
  /\ E.obs.announcedExp \in 9..24 /\ 2 ^ E.obs.announcedExp >= E.ownSize
  /\ (E.obs.announcedExp > 9 => 2 ^ (E.obs.announcedExp - 1) < E.ownSize)
  /\ lk' = Half(E.maxSend, 2 ^ E.obs.announcedExp, TRUE)
TLinkSend ==
  /\ Ev("link_send") /\ lk.on /\ lk.t = "half" /\ UNCHANGED lk
  /\ IF ~lk.open \/ E.n > lk.maxSend
     THEN E.obs.err # "" /\ E.obs.wrote = 0       \* the sender gets an error, nothing goes to the peer
     ELSE E.obs.err = "" /\ E.obs.wrote = E.n + 4 /\ E.obs.hdrLen = E.n /\ E.obs.hdrType = 0 /\ E.obs.intact
TLinkRecv ==
  /\ Ev("link_recv") /\ lk.on /\ lk.t = "half"
  /\ IF ~lk.open THEN E.obs.delivered = 0 /\ UNCHANGED lk
     ELSE IF E.n > lk.maxRecv
          THEN /\ E.obs.delivered = 0 /\ E.obs.droppedAtHeader      \* rejected on the header, not buffered
               /\ E.obs.closes = 1 /\ lk' = Half(lk.maxSend, lk.maxRecv, FALSE)
          ELSE /\ E.obs.delivered = 1 /\ E.obs.intact /\ ~E.obs.dropped /\ E.obs.esc = "" /\ E.obs.closes = 0 /\ UNCHANGED lk
TLinkInject ==
  /\ Ev("link_inject") /\ lk.on /\ lk.t = "half"
  /\ E.obs.delivered = 0
  /\ (lk.open => ((E.obs.dropped \/ E.obs.esc # "") /\ E.obs.closes = 1))     \* transport closed, session told
  /\ lk' = Half(lk.maxSend, lk.maxRecv, FALSE)
\* the session's onOpen fails although the transport handshake was fine: no session is attached, the transport is closed,
\* nothing escapes to the framework
TLinkOpenFails == /\ Ev("link_openfails") /\ ~lk.on /\ UNCHANGED lk
                  /\ E.obs.esc = "" /\ E.obs.attached = 0 /\ E.obs.dropped
TLinkEnd == Ev("link_end") /\ lk.on /\ lk.t = "half" /\ E.obs.opens = 1 /\ E.obs.closes = 1 /\ lk' = NoLink

\* ---- message phase, a real client and a real server
Pair(qc, qs, al) == [on |-> TRUE, t |-> "pair", qC |-> qc, qS |-> qs, alive |-> al]
Q(e) == IF e = "C" THEN lk.qC ELSE lk.qS
TPairOpen == Ev("pair_open") /\ ~lk.on /\ E.obs.esc = "" /\ E.obs.attachedC = 1 /\ E.obs.attachedS = 1 /\ lk' = Pair(<<>>, <<>>, TRUE)
TPairSend ==
  /\ Ev("pair_send") /\ lk.on /\ lk.t = "pair"
  /\ IF lk.alive
     THEN /\ E.obs.err = ""
          /\ lk' = IF E.frm = "C" THEN Pair(Append(lk.qC, E.id), lk.qS, TRUE) ELSE Pair(lk.qC, Append(lk.qS, E.id), TRUE)
     ELSE E.obs.err # "" /\ UNCHANGED lk
TPairRx ==
  /\ Ev("pair_rx") /\ lk.on /\ lk.t = "pair"
  /\ LET frm == IF E.to = "C" THEN "S" ELSE "C" q == Q(frm) k == Len(E.ids) IN
     /\ k <= Len(q) /\ \A i \in 1..k : E.ids[i] = q[i]          \* in order, nothing skipped, nothing invented
     /\ E.obs.intact
     /\ (lk.alive => (k = Len(q) /\ E.obs.esc = ""))             \* and complete while both ends live
     /\ lk' = IF frm = "C" THEN Pair(SubSeq(q, k + 1, Len(q)), lk.qS, lk.alive) ELSE Pair(lk.qC, SubSeq(q, k + 1, Len(q)), lk.alive)
\* failures of the session's own code are internal (1011), what the peer sent wrong is a protocol violation (1002); a message
\* that is well-formed but names something that is no URI may be reported as either
WantCodes(kind) == IF kind \in {"sessionraises", "sessionpayload", "sessionser"} THEN {1011}
                   ELSE IF kind = "baduri" THEN {1002, 1011} ELSE {1002}
WantReason(kind) == IF kind = "sessionraises" THEN "internal" ELSE "protocol"
TPairInject ==
  /\ Ev("pair_inject") /\ lk.on /\ lk.t = "pair"
  /\ E.obs.delivered = 0
  /\ IF E.tkind = "rs" THEN (E.obs.dropped \/ E.obs.esc # "")                                \* RawSocket: abort (or the framework drops)
     ELSE IF E.fbd THEN E.obs.dropped                                                         \* WebSocket, fail by drop (no status on the wire)
          ELSE E.obs.code \in WantCodes(E.kind)                                                \* WebSocket, closing handshake
  /\ lk' = Pair(lk.qC, lk.qS, FALSE)
TPairLose == Ev("pair_lose") /\ lk.on /\ lk.t = "pair" /\ lk' = Pair(lk.qC, lk.qS, FALSE)
TPairEnd == /\ Ev("pair_end") /\ lk.on /\ lk.t = "pair" /\ lk' = NoLink
            /\ E.obs.opensC = 1 /\ E.obs.opensS = 1 /\ E.obs.closesC = 1 /\ E.obs.closesS = 1      \* told exactly once

\* a valid handshake followed by valid frames, as one octet stream under some segmentation: everything arrives, in order
TStream == /\ Ev("stream") /\ UNCHANGED lk
           /\ E.obs.esc = "" /\ E.obs.attached = 1 /\ ~E.obs.dropped
           /\ E.obs.delivered = E.count /\ E.obs.intact
           /\ E.obs.opens = 1 /\ E.obs.closes = 1
TScenario == Ev("scenario") /\ UNCHANGED lk          \* the script that produced the following events (for replay files)
TNext == TWsNegRaw \/ TLinkOpenFails \/ TScenario \/ TStream \/ TRsHs \/ TWsNeg \/ TLinkOpen \/ TLinkSend \/ TLinkRecv \/ TLinkInject \/ TLinkEnd
         \/ TPairOpen \/ TPairSend \/ TPairRx \/ TPairInject \/ TPairLose \/ TPairEnd
TraceSpec == TInit /\ [][TNext]_tvars
Progress == TLCSet(tid, IF TLCGet(tid) < l THEN l ELSE TLCGet(tid))
Post ==
  LET rej == {i \in 1..N : TLCGet(i) # Len(Traces[i]) + 1} IN
    /\ \A i \in rej : PrintT(<<"REJECT", i, TLCGet(i)>>)
    /\ PrintT(<<"ACCEPTED", N - Cardinality(rej)>>)
=============================================================================
