SPECIFICATION Spec
CONSTANTS
  Events = {"join", "leave"}
  Handlers = {1, 2}
  MaxOps = 5
INVARIANT ParentStaysAtParent
INVARIANT OwnBeforeParent
PROPERTY ErrorsChangeNothing
PROPERTY OnlyFireCalls
CHECK_DEADLOCK FALSE
