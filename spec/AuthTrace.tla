------------------------------ MODULE AuthTrace ------------------------------
(***************************************************************************)
(* Judges logged authentication exchanges of the real authenticators.  The *)
(* numeric values are computed by the library and, independently, by       *)
(* reference primitives in the harness (hashlib / hmac / argon2.low_level  *)
(* / cryptography's Ed25519 / an in-harness RFC 6238) - the events carry   *)
(* the comparison results; TLC applies the protocol rules of Auth.tla:     *)
(*  scram  kdf, alter, obs=[proofValid, accepted, esc]                     *)
(*         the client accepts WELCOME iff the server signature was computed *)
(*         over exactly the client's own view (alter = "none")             *)
(*  cra    salted, alter, obs=[sigValid, differs]                           *)
(*  totp   step, obs=[codeValid, accepted]     accepted iff |step| <= 1     *)
(*  csign  binding, alter, obs=[verifies, signedDataOk]                     *)
(*  kdf/vec  helper functions against hashlib / the RFC vectors             *)
(***************************************************************************)
EXTENDS Auth, Integers, Sequences, Json, IOUtils, TLCExt
Traces == JsonDeserialize(IOEnv.TRACE_FILE)
N == Len(Traces)
ASSUME \A i \in 1..N : TLCSet(i, 0)
VARIABLES tid, l
tvars == <<phase, cview, sview, proof, ssig, accepted, serverOk, tid, l>>
E == Traces[tid][l]
IsEvent(name) == l <= Len(Traces[tid]) /\ E.ev = name /\ l' = l + 1 /\ UNCHANGED <<tid, phase, cview, sview, proof, ssig, accepted, serverOk>>
TInit == tid \in 1..N /\ l = 1 /\ Init

\* the model's verdict for a server signature computed over a view that differs from the client's in field `alter`
ModelAccepts(alter) ==
  IF alter = "none" THEN TRUE
  ELSE IF alter \in Fields THEN ServerSig(Alter(Honest, alter)) = ServerSig(Honest)     \* FALSE for every bound field
  ELSE FALSE                                                                            \* forged / absent / bit flips

TScram == /\ IsEvent("scram")
          /\ E.obs.esc = "" /\ E.obs.proofValid
          /\ E.obs.accepted = ModelAccepts(E.alter)
TCra == IsEvent("cra") /\ E.obs.esc = "" /\ E.obs.sigValid /\ (E.alter # "none" => E.obs.differs)
TTotp == /\ IsEvent("totp") /\ E.obs.esc = "" /\ E.obs.codeValid
         /\ E.obs.accepted = (E.step \in {-1, 0, 1})
TCsign == /\ IsEvent("csign") /\ E.obs.esc = ""
          /\ E.obs.signedDataOk                         \* challenge XOR channel id iff binding requested
          /\ E.obs.verifies = (E.alter = "none")
TKdf == (IsEvent("kdf") \/ IsEvent("vec")) /\ E.obs.esc = "" /\ E.obs.ok
TNext == TScram \/ TCra \/ TTotp \/ TCsign \/ TKdf
TraceSpec == TInit /\ [][TNext]_tvars
Progress == TLCSet(tid, IF TLCGet(tid) < l THEN l ELSE TLCGet(tid))
Post ==
  LET rej == {i \in 1..N : TLCGet(i) # Len(Traces[i]) + 1} IN
    /\ \A i \in rej : PrintT(<<"REJECT", i, TLCGet(i)>>)
    /\ PrintT(<<"ACCEPTED", N - Cardinality(rej)>>)
=============================================================================
