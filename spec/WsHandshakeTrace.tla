-------------------------- MODULE WsHandshakeTrace --------------------------
(***************************************************************************)
(* Re-judges observed handshake outcomes.  Events (one per trace):         *)
(*  sreq  req (features), cfg, seg, obs = [opened, status, acceptOk,       *)
(*        proto ("" | "listed" | "other"), extsWithinOffer, dropped,       *)
(*        escaped, state]          a real server fed a concretised request *)
(*  cresp resp (features), obs = [opened, dropped, escaped, state]         *)
(*        a real client fed a concretised response                         *)
(*  creq  obs = [hostOk, portOk, resourceOk, keyOk, versionOk]   the       *)
(*        request a real client wrote for a URL                            *)
(*  pair  m = [clientVersionSupported, ...], obs = [opened]   own client   *)
(*        against own server                                               *)
(*  fuzz  kind, obs = [opened, escaped, state]   arbitrary / mutated bytes *)
(***************************************************************************)
EXTENDS WsHandshake, Json, IOUtils, TLCExt

Traces == JsonDeserialize(IOEnv.TRACE_FILE)
N == Len(Traces)
ASSUME \A i \in 1..N : TLCSet(i, 0)
VARIABLES tid, l, lim
\* lim = [max, open]: the connection limit of the factory under test and the number of admitted connections still open
tvars == <<tid, l, lim>>
E == Traces[tid][l]
IsEvent(name) == l <= Len(Traces[tid]) /\ E.ev = name /\ l' = l + 1 /\ UNCHANGED tid
TInit == tid \in 1..N /\ l = 1 /\ lim = [max |-> 0, open |-> 0]

Req(x) == [f \in ReqFeatures |-> x[f]]
Resp(x) == [f \in RespFeatures |-> x[f]]
NoEscape(o) == o.escaped = "" /\ o.state \in {"CONNECTING", "OPEN", "CLOSED"}

TSReq ==
  /\ IsEvent("sreq") /\ UNCHANGED lim
  /\ LET r == Req(E.req) o == E.obs
         cfg == [origins |-> E.cfg.origins, allowNull |-> E.cfg.allowNull, full |-> E.cfg.full, webStatus |-> E.cfg.webStatus]
     IN /\ WellTyped(r)
        /\ NoEscape(o)
        /\ (~EitherExts(r) => o.opened = ServerOpens(r, cfg))
        /\ (EitherExts(r) => (o.opened => ServerOpens([r EXCEPT !.exts = "ok-none"], cfg)))
        /\ o.opened => /\ o.status = 101 /\ o.acceptOk /\ o.state = "OPEN" /\ ~o.dropped
                       /\ o.proto = (IF r.onconn = "ok-listed" THEN "listed" ELSE "")     \* only a subprotocol from the client's list
                       /\ o.extsWithinOffer
                       /\ o.customHdrOk       \* headers the application's onConnect asked for are in the response
        \* refused: an HTTP error (or, for a plain HTTP request with webStatus, a status page / redirect) and the
        \* connection is not left half-open
        \* (o.late: only dropped by the opening-handshake timer - tolerated solely when the *application's* onConnect
        \* returned a subprotocol the client did not list, which is not peer input)
        /\ o.late => /\ ~o.opened
                     /\ (r.onconn = "unlisted" \/ (r.onconn = "ok-listed" /\ r.protos # "ok-list"))
        /\ ~o.opened => /\ o.state = "CLOSED" /\ o.dropped
                        /\ o.status # 101
                        /\ (o.status >= 400 \/ o.late \/ (r.upgrade = "missing" /\ cfg.webStatus /\ o.status \in {200, 303}))

TCResp ==
  /\ IsEvent("cresp") /\ UNCHANGED lim
  /\ LET p == Resp(E.resp) o == E.obs IN
       /\ NoEscape(o)
       /\ o.opened = ClientOpens(p)
       /\ o.opened => o.state = "OPEN" /\ ~o.dropped
       /\ ~o.opened => o.state = "CLOSED" /\ o.dropped

TCReq == /\ IsEvent("creq") /\ UNCHANGED lim
         /\ E.obs.hostOk /\ E.obs.portOk /\ E.obs.resourceOk /\ E.obs.keyOk /\ E.obs.versionOk /\ E.obs.escaped = ""

TPair == /\ IsEvent("pair") /\ UNCHANGED lim
         /\ E.obs.escaped = ""
         /\ E.obs.opened = PairOpens([clientVersionSupported |-> E.m.clientVersionSupported])
         /\ E.obs.opened => E.obs.protoOk /\ E.obs.headersOk

\* arbitrary / mutated octets: never an exception, never a half state; a mutation that destroys a required element
\* never opens
TFuzz == /\ IsEvent("fuzz") /\ UNCHANGED lim
         /\ NoEscape(E.obs)
         /\ E.mustNotOpen => ~E.obs.opened
         /\ E.obs.opened => E.obs.state = "OPEN"

\* ---- the connection limit over a sequence of connections on one factory: a valid request is admitted exactly while fewer
\* than maxConnections admitted connections are open; refused ones get 503 and never count
TLStart == IsEvent("lstart") /\ lim' = [max |-> E.max, open |-> 0]
TLOpen == /\ IsEvent("lopen") /\ E.obs.escaped = ""
          /\ E.obs.admitted = (lim.open < lim.max)
          /\ (E.obs.admitted => E.obs.status = 101) /\ (~E.obs.admitted => (E.obs.status = 503 /\ E.obs.dropped))
          /\ lim' = [lim EXCEPT !.open = IF E.obs.admitted THEN @ + 1 ELSE @]
TLClose == IsEvent("lclose") /\ E.obs.escaped = "" /\ lim.open > 0 /\ lim' = [lim EXCEPT !.open = @ - 1]
TNext == TSReq \/ TCResp \/ TCReq \/ TPair \/ TFuzz \/ TLStart \/ TLOpen \/ TLClose
TraceSpec == TInit /\ [][TNext]_tvars
Progress == TLCSet(tid, IF TLCGet(tid) < l THEN l ELSE TLCGet(tid))
Post ==
  LET rej == {i \in 1..N : TLCGet(i) # Len(Traces[i]) + 1} IN
    /\ \A i \in rej : PrintT(<<"REJECT", i, TLCGet(i)>>)
    /\ PrintT(<<"ACCEPTED", N - Cardinality(rej)>>)
=============================================================================
