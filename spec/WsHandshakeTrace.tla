-------------------------- MODULE WsHandshakeTrace --------------------------
(***************************************************************************)
(* Re-judges observed handshake outcomes.  Events (one per trace):         *)
(*  sreq  req (features), cfg, seg, obs = [opened, status, acceptOk,       *)
(*        proto ("" | "listed" | "other"), extsWithinOffer, dropped,       *)
(*        escaped, state]          a real server fed a concretised request *)
(*  cresp resp (features), obs = [opened, dropped, escaped, state]         *)
(*        a real client fed a concretised response                         *)
(*  creq  obs = [hostOk, portOk, resourceOk, keyOk, versionOk]   the       *)
(*        request a real client wrote for a URL                            *)
(*  pair  m = [clientVersionSupported, ...], obs = [opened]   own client   *)
(*        against own server                                               *)
(*  fuzz  kind, obs = [opened, escaped, state]   arbitrary / mutated bytes *)
(***************************************************************************)
EXTENDS WsHandshake, Json, IOUtils, TLCExt

Traces == JsonDeserialize(IOEnv.TRACE_FILE)
N == Len(Traces)
ASSUME \A i \in 1..N : TLCSet(i, 0)
VARIABLES tid, l
tvars == <<tid, l>>
E == Traces[tid][l]
IsEvent(name) == l <= Len(Traces[tid]) /\ E.ev = name /\ l' = l + 1 /\ UNCHANGED tid
TInit == tid \in 1..N /\ l = 1

Req(x) == [f \in ReqFeatures |-> x[f]]
Resp(x) == [f \in RespFeatures |-> x[f]]
NoEscape(o) == o.escaped = "" /\ o.state \in {"CONNECTING", "OPEN", "CLOSED"}

TSReq ==
  /\ IsEvent("sreq")
  /\ LET r == Req(E.req) o == E.obs
         cfg == [origins |-> E.cfg.origins, allowNull |-> E.cfg.allowNull, full |-> E.cfg.full, webStatus |-> E.cfg.webStatus]
     IN /\ WellTyped(r)
        /\ NoEscape(o)
        /\ o.opened = ServerOpens(r, cfg)
        /\ o.opened => /\ o.status = 101 /\ o.acceptOk /\ o.state = "OPEN" /\ ~o.dropped
                       /\ o.proto = (IF r.onconn = "ok-listed" THEN "listed" ELSE "")     \* only a subprotocol from the client's list
                       /\ o.extsWithinOffer
        \* refused: an HTTP error (or, for a plain HTTP request with webStatus, a status page / redirect) and the
        \* connection is not left half-open
        \* (o.late: only dropped by the opening-handshake timer - tolerated solely when the *application's* onConnect
        \* returned a subprotocol the client did not list, which is not peer input)
        /\ o.late => /\ ~o.opened
                     /\ (r.onconn = "unlisted" \/ (r.onconn = "ok-listed" /\ r.protos # "ok-list"))
        /\ ~o.opened => /\ o.state = "CLOSED" /\ o.dropped
                        /\ o.status # 101
                        /\ (o.status >= 400 \/ o.late \/ (r.upgrade = "missing" /\ cfg.webStatus /\ o.status \in {200, 303}))

TCResp ==
  /\ IsEvent("cresp")
  /\ LET p == Resp(E.resp) o == E.obs IN
       /\ NoEscape(o)
       /\ o.opened = ClientOpens(p)
       /\ o.opened => o.state = "OPEN" /\ ~o.dropped
       /\ ~o.opened => o.state = "CLOSED" /\ o.dropped

TCReq == /\ IsEvent("creq")
         /\ E.obs.hostOk /\ E.obs.portOk /\ E.obs.resourceOk /\ E.obs.keyOk /\ E.obs.versionOk /\ E.obs.escaped = ""

TPair == /\ IsEvent("pair")
         /\ E.obs.escaped = ""
         /\ E.obs.opened = PairOpens([clientVersionSupported |-> E.m.clientVersionSupported])
         /\ E.obs.opened => E.obs.protoOk /\ E.obs.headersOk

\* arbitrary / mutated octets: never an exception, never a half state; a mutation that destroys a required element
\* never opens
TFuzz == /\ IsEvent("fuzz")
         /\ NoEscape(E.obs)
         /\ E.mustNotOpen => ~E.obs.opened
         /\ E.obs.opened => E.obs.state = "OPEN"

TNext == TSReq \/ TCResp \/ TCReq \/ TPair \/ TFuzz
TraceSpec == TInit /\ [][TNext]_tvars
Progress == TLCSet(tid, IF TLCGet(tid) < l THEN l ELSE TLCGet(tid))
Post ==
  LET rej == {i \in 1..N : TLCGet(i) # Len(Traces[i]) + 1} IN
    /\ \A i \in rej : PrintT(<<"REJECT", i, TLCGet(i)>>)
    /\ PrintT(<<"ACCEPTED", N - Cardinality(rej)>>)
=============================================================================
