----------------------------- MODULE WsConnTrace -----------------------------
(***************************************************************************)
(* Batch validation of recorded lifecycles of one real endpoint against    *)
(* WsConn.  Every event names the entry point that was exercised and       *)
(* carries the complete projection of the protocol object afterwards       *)
(* (state, bookkeeping flags, cumulative frames written by kind, transport *)
(* drop, onClose log, due times of the five timers); the spec operator for *)
(* that entry point is applied and the result must equal the projection.   *)
(***************************************************************************)
EXTENDS WsConn, WsFrame, Utf8Def, Json, IOUtils, TLCExt

Traces == JsonDeserialize(IOEnv.TRACE_FILE)
N == Len(Traces)
ASSUME \A i \in 1..N : TLCSet(i, 0)

VARIABLES tid, l
tvars == <<cfg, c, now, nev, tid, l>>

E == Traces[tid][l]
IsEvent(name) == l <= Len(Traces[tid]) /\ E.ev = name /\ l' = l + 1 /\ UNCHANGED <<tid, nev>>

TInit == /\ tid \in 1..N /\ l = 1 /\ nev = 0 /\ now = 0
         /\ cfg = [role |-> "server", failByDrop |-> TRUE, echo |-> FALSE, openTO |-> 0, closeTO |-> 0, dropTO |-> 0,
                   pingInt |-> 0, pingTO |-> 0, restart |-> TRUE]
         /\ c = New(cfg, 0)

Closes(x) == [i \in 1..Len(x.closes) |-> [clean |-> x.closes[i].clean, code |-> x.closes[i].code, reason |-> x.closes[i].reason]]

Matches(x, o) ==
  /\ x.st = o.st /\ x.cbm = o.cbm /\ x.fbm = o.fbm /\ x.dbm = o.dbm /\ x.clean = o.clean
  /\ (x.why = o.why \/ (x.why = "" /\ o.why = "none"))
  /\ x.up = o.up /\ (x.drop = o.drop \/ (x.drop = "either" /\ o.drop \in {"abort", "lose"}))
  /\ x.nclose = o.nclose /\ x.pings = o.pings /\ x.ndata = o.ndata /\ x.npong = o.npong
  /\ Closes(x) = o.closes
  \* (which timers are still pending once the connection is closed is nobody's business - they must have no effect, and that
  \* is judged on everything else after each tick)
  /\ x.st = "CLOSED" \/ (x.tOpen = o.tOpen /\ x.tClose = o.tClose /\ x.tDrop = o.tDrop /\ x.tPs = o.tPs /\ x.tPt = o.tPt)
  /\ x.pend = o.pend
  /\ x.dataAfterClose = o.dac /\ x.lateWrite = o.late      \* judged on the order of frames in the transport's byte stream
  /\ ~o.lated                                               \* no message / ping / pong callback after the close notification

\* E.cf = payload octets of the close frame written during this event (<<>> if none / empty payload)
CfCode == IF Len(E.cf) >= 2 THEN E.cf[1] * 256 + E.cf[2] ELSE 0
CloseFrameLegal ==
  /\ Len(E.cf) # 1 /\ Len(E.cf) <= 125
  /\ Len(E.cf) >= 2 => /\ (CloseCodeLegal(CfCode) \/ CloseCodeEither(CfCode))
                        /\ Feed("acc", SubSeq(E.cf, 3, Len(E.cf)), 1).st = "acc"       \* reason is complete, valid UTF-8

\* an in-process transport reports the loss of the connection from inside loseConnection / abortConnection: the step that
\* drops the connection and the loss are then one step
Adj(next) == IF E.synclost THEN ConnLost(cfg, next) ELSE next
TStep(next0) == LET next == Adj(next0) IN c' = next /\ Matches(next, E.obs) /\ CloseFrameLegal /\ UNCHANGED <<cfg, now>>

TMade == /\ IsEvent("made") /\ l = 1
         /\ cfg' = [role |-> E.cfg.role, failByDrop |-> E.cfg.failByDrop, echo |-> E.cfg.echo, openTO |-> E.cfg.openTO,
                    closeTO |-> E.cfg.closeTO, dropTO |-> E.cfg.dropTO, pingInt |-> E.cfg.pingInt, pingTO |-> E.cfg.pingTO,
                    restart |-> E.cfg.restart]
         /\ now' = E.now
         /\ c' = New(cfg', E.now) /\ Matches(c', E.obs)

TOpened == IsEvent("open") /\ TStep(Opened(cfg, c, now))
\* an explicit HTTP proxy has answered the client's CONNECT: still connecting, the opening-handshake deadline runs on unchanged
TProxied == IsEvent("proxied") /\ TStep(c)
TLClose == /\ IsEvent("lclose") /\ TStep(LocalClose(cfg, c, now))
           /\ c'.nclose > c.nclose => CfCode = E.code          \* the application's code (0 = none) goes out unchanged
TLSend  == IsEvent("lsend") /\ LET r == LocalSend(cfg, c, E.api) IN TStep(r.c) /\ E.exc = r.exc
\* two synchronous (queued) sends directly followed by sendClose() in one reactor turn, then the send queue is pumped
TLBurst == /\ IsEvent("lburst")
           /\ TStep(LocalClose(cfg, LocalSend(cfg, LocalSend(cfg, c, "msg").c, "msg").c, now))
TPClose == /\ IsEvent("pclose") /\ TStep(PeerCloseOk(cfg, c, now, E.rc, E.rr))
           /\ c'.nclose > c.nclose => CfCode = (IF cfg.echo THEN E.rc ELSE 1000)   \* reply: normal closure, or the peer's code when echoing
TPData  == IsEvent("pdata") /\ TStep(PeerData(cfg, c, now))
\* the peer's close frame and more frames in one read: the same as one after the other (a synchronously reported loss happens
\* inside the close step; ConnLost commutes with the no-op that data on a closed connection is)
TPCloseData == /\ IsEvent("pclosedata") /\ TStep(PeerData(cfg, PeerCloseOk(cfg, c, now, E.rc, E.rr), now))
               /\ c'.nclose > c.nclose => CfCode = (IF cfg.echo THEN E.rc ELSE 1000)
TPPing  == IsEvent("pping") /\ TStep(PeerPing(cfg, c))
TPPong  == IsEvent("ppong") /\ TStep(PeerPong(cfg, c, now, E.match))
TPViol  == /\ IsEvent("pviol") /\ TStep(PeerViolation(cfg, c, now))
           /\ c'.nclose > c.nclose => CfCode = 1002
TLost   == IsEvent("lost") /\ TStep(ConnLost(cfg, c))
TAdv    == /\ IsEvent("adv")
           /\ now' = now + 1
           /\ \E order \in Perms(Due(c, now + 1)) :
                 LET nx == Adj(FireAll(cfg, c, now + 1, order)) IN c' = nx /\ Matches(nx, E.obs) /\ CloseFrameLegal
           /\ UNCHANGED cfg

\* the layer above fails the connection itself (as the WAMP transports do): same as a peer violation, whatever its reason text
TLFail == /\ IsEvent("lfail") /\ TStep(PeerViolation(cfg, c, now))
TNext == TProxied \/ TPCloseData \/ TLFail \/ TMade \/ TOpened \/ TLClose \/ TLBurst \/ TLSend \/ TPClose \/ TPData \/ TPPing \/ TPPong \/ TPViol \/ TLost \/ TAdv
TraceSpec == TInit /\ [][TNext]_tvars

Progress == TLCSet(tid, IF TLCGet(tid) < l THEN l ELSE TLCGet(tid))
Post ==
  LET rej == {i \in 1..N : TLCGet(i) # Len(Traces[i]) + 1} IN
    /\ \A i \in rej : PrintT(<<"REJECT", i, TLCGet(i)>>)
    /\ PrintT(<<"ACCEPTED", N - Cardinality(rej)>>)
=============================================================================
