------------------------------- MODULE WampMsg -------------------------------
(***************************************************************************)
(* The WAMP message grammar as data: for each of the 25 message types the  *)
(* type code, the positional fields with their FIELD KIND, the number of   *)
(* mandatory positions, and the interpreted option / detail keys with      *)
(* their kinds (from the WAMP specification; code anchor wamp/message.py   *)
(* <Class>.parse / marshal).  A concrete element is abstracted to a VALUE  *)
(* CLASS; Verdict(kind, class) says what a conforming parser must do with  *)
(* it: "accept", "reject" (ProtocolError / InvalidUriError), or "either"   *)
(* where the WAMP grammar and a documented library mode disagree.          *)
(*                                                                         *)
(* The exhaustive "model" is the case table: for every type the valid base *)
(* message, and every single-position / single-option substitution by      *)
(* every value class (Cases), plus wrong element counts and unknown type   *)
(* codes.  TLC enumerates and exports it; every case is executed against   *)
(* the real parse() and all serializers; WampMsgTrace re-judges.           *)
(***************************************************************************)
EXTENDS Integers, Sequences, FiniteSets, TLC

Classes == {"int0", "int1", "int53", "int53p", "intneg", "float", "true", "false", "null",
            "str_uri", "str_loose", "str_emptycomp", "str_lastempty", "str_baduri", "str_empty", "str_enum", "bytes",
            "list_empty", "list_ints", "list_strs", "list_mixed", "dict_empty", "dict_str", "dict_intkey", "ff_ok", "ff_bad"}
IntC == {"int0", "int1", "int53", "int53p", "intneg"}
StrC == {"str_uri", "str_loose", "str_emptycomp", "str_lastempty", "str_baduri", "str_empty", "str_enum"}
ListC == {"list_empty", "list_ints", "list_strs", "list_mixed", "ff_ok", "ff_bad"}
DictC == {"dict_empty", "dict_str", "dict_intkey"}

Kinds == {"code", "id", "optid", "cond", "uri", "uri_empty", "uri_pattern", "uri_null", "dict", "str", "int", "bool", "args", "kwargs",
          "strlist", "idlist", "enum", "ff", "anydict", "reqtype"}

\* three-valued verdict
Verdict(kind, c) ==
  CASE kind = "id" -> IF c \in {"int0", "int1", "int53"} THEN "accept" ELSE "reject"
    \* ids inside options / details (session ids of publisher / caller / callee ...): the type is checked; the 0..2^53 range
    \* is demanded by the property for the positional id fields
    [] kind = "optid" -> IF c \in {"int0", "int1", "int53"} THEN "accept" ELSE IF c \in {"int53p", "intneg"} THEN "either" ELSE "reject"
    [] kind = "reqtype" -> "either"                          \* (only substituted through the dedicated cases below)
    [] kind = "uri" -> IF c \in {"str_uri", "str_loose", "str_enum"} THEN "accept" ELSE "reject"
    [] kind = "uri_empty" ->     \* SUBSCRIBE topic: empty components are legal (wildcard matching)
         IF c \in {"str_uri", "str_loose", "str_enum", "str_emptycomp"} THEN "accept"
         ELSE IF c \in {"str_lastempty", "str_empty"} THEN "either" ELSE "reject"
    [] kind = "uri_pattern" ->   \* REGISTER procedure: pattern-based registration decides by the match option
         IF c \in {"str_uri", "str_loose", "str_enum"} THEN "accept"
         ELSE IF c \in {"str_emptycomp", "str_lastempty", "str_empty"} THEN "either" ELSE "reject"
    [] kind = "uri_null" -> IF c \in {"str_uri", "str_loose", "str_enum", "null"} THEN "accept" ELSE "reject"
    [] kind = "dict" ->          \* options / details: unknown keys are ignored
         IF c = "dict_empty" THEN "accept" ELSE IF c \in {"dict_str", "dict_intkey"} THEN "either" ELSE "reject"
    [] kind = "anydict" -> IF c \in {"dict_empty", "dict_str"} THEN "accept" ELSE IF c = "dict_intkey" THEN "either" ELSE "reject"
    [] kind = "str" -> IF c = "str_empty" THEN "either" ELSE IF c \in StrC THEN "accept" ELSE "reject"
    [] kind = "int" -> IF c \in {"int1"} THEN "accept" ELSE IF c \in {"int0", "int53", "int53p"} THEN "either" ELSE "reject"
    [] kind = "bool" -> IF c \in {"true", "false"} THEN "accept" ELSE "reject"
    [] kind = "args" ->          \* a list; a str/bytes is admitted deliberately (router pass-through of serialized payload)
         IF c \in {"list_empty", "list_ints", "list_strs", "list_mixed", "ff_ok", "ff_bad"} THEN "accept"
         ELSE IF c \in StrC \cup {"bytes", "null"} THEN "either" ELSE "reject"
    [] kind = "kwargs" -> IF c \in {"dict_empty", "dict_str"} THEN "accept"          \* keyword argument names are strings, every one of them
                          ELSE IF c \in StrC \cup {"bytes", "null"} THEN "either" ELSE "reject"
    [] kind = "strlist" -> IF c \in {"list_strs"} THEN "accept" ELSE IF c \in {"list_empty"} THEN "either" ELSE "reject"
    [] kind = "idlist" -> IF c \in {"list_ints"} THEN "accept" ELSE IF c \in {"list_empty"} THEN "either" ELSE "reject"
    [] kind = "enum" -> IF c = "str_enum" THEN "accept" ELSE "reject"
    [] kind = "ff" -> IF c = "ff_ok" THEN "accept" ELSE IF c = "list_empty" THEN "either" ELSE "reject"
    [] OTHER -> "either"

(***************************************************************************)
(* The table.  pos = kinds of the elements after the type code; minlen =   *)
(* number of mandatory elements (incl. the code); optpos = index (in pos)  *)
(* of the options/details dict (0 = none); keys = interpreted keys.        *)
(***************************************************************************)
K(k, kind) == [k |-> k, kind |-> kind]
PAYLOAD == <<"args", "kwargs">>
Types ==
  [ hello        |-> [code |-> 1,   pos |-> <<"uri_null", "dict">>, minlen |-> 3, optpos |-> 2,
                      keys |-> {K("authmethods", "strlist"), K("authid", "str"), K("authrole", "str"), K("authextra", "anydict"), K("resumable", "bool")}],
    welcome      |-> [code |-> 2,   pos |-> <<"id", "dict">>, minlen |-> 3, optpos |-> 2,
                      keys |-> {K("realm", "str"), K("authid", "str"), K("authrole", "str"), K("authmethod", "str"), K("authprovider", "str"),
                                K("authextra", "anydict"), K("resumed", "bool"), K("resumable", "cond"), K("resume_token", "str")}],   \* (resumable needs resume_token)
    abort        |-> [code |-> 3,   pos |-> <<"dict", "uri">>, minlen |-> 3, optpos |-> 1, keys |-> {K("message", "str")}],
    challenge    |-> [code |-> 4,   pos |-> <<"str", "anydict">>, minlen |-> 3, optpos |-> 0, keys |-> {}],
    authenticate |-> [code |-> 5,   pos |-> <<"str", "anydict">>, minlen |-> 3, optpos |-> 0, keys |-> {}],
    goodbye      |-> [code |-> 6,   pos |-> <<"dict", "uri">>, minlen |-> 3, optpos |-> 1, keys |-> {K("message", "str"), K("resumable", "bool")}],
    error        |-> [code |-> 8,   pos |-> <<"reqtype", "id", "dict", "uri">> \o PAYLOAD, minlen |-> 5, optpos |-> 3,
                      keys |-> {K("callee", "optid"), K("callee_authid", "str"), K("callee_authrole", "str"), K("forward_for", "ff")}],
    publish      |-> [code |-> 16,  pos |-> <<"id", "dict", "uri">> \o PAYLOAD, minlen |-> 4, optpos |-> 2,
                      keys |-> {K("acknowledge", "bool"), K("exclude_me", "bool"), K("exclude", "idlist"), K("exclude_authid", "strlist"),
                                K("exclude_authrole", "strlist"), K("eligible", "idlist"), K("eligible_authid", "strlist"),
                                K("eligible_authrole", "strlist"), K("retain", "bool"), K("transaction_hash", "str"), K("forward_for", "ff")}],
    published    |-> [code |-> 17,  pos |-> <<"id", "id">>, minlen |-> 3, optpos |-> 0, keys |-> {}],
    subscribe    |-> [code |-> 32,  pos |-> <<"id", "dict", "uri_empty">>, minlen |-> 4, optpos |-> 2,
                      keys |-> {K("match", "enum"), K("get_retained", "bool"), K("forward_for", "ff")}],
    subscribed   |-> [code |-> 33,  pos |-> <<"id", "id">>, minlen |-> 3, optpos |-> 0, keys |-> {}],
    unsubscribe  |-> [code |-> 34,  pos |-> <<"id", "id", "dict">>, minlen |-> 3, optpos |-> 3, keys |-> {K("forward_for", "ff")}],
    unsubscribed |-> [code |-> 35,  pos |-> <<"id", "dict">>, minlen |-> 2, optpos |-> 2, keys |-> {K("subscription", "cond"), K("reason", "cond")}],
    event        |-> [code |-> 36,  pos |-> <<"id", "id", "dict">> \o PAYLOAD, minlen |-> 4, optpos |-> 3,
                      keys |-> {K("publisher", "optid"), K("publisher_authid", "str"), K("publisher_authrole", "str"), K("topic", "uri"),
                                K("retained", "bool"), K("transaction_hash", "str"), K("x_acknowledged_delivery", "bool"), K("forward_for", "ff")}],
    event_received |-> [code |-> 337, pos |-> <<"id">>, minlen |-> 2, optpos |-> 0, keys |-> {}],
    call         |-> [code |-> 48,  pos |-> <<"id", "dict", "uri">> \o PAYLOAD, minlen |-> 4, optpos |-> 2,
                      keys |-> {K("timeout", "int"), K("receive_progress", "bool"), K("transaction_hash", "str"), K("caller", "optid"),
                                K("caller_authid", "str"), K("caller_authrole", "str"), K("forward_for", "ff")}],
    cancel       |-> [code |-> 49,  pos |-> <<"id", "dict">>, minlen |-> 3, optpos |-> 2, keys |-> {K("mode", "enum"), K("forward_for", "ff")}],
    result       |-> [code |-> 50,  pos |-> <<"id", "dict">> \o PAYLOAD, minlen |-> 3, optpos |-> 2,
                      keys |-> {K("progress", "bool"), K("callee", "optid"), K("callee_authid", "str"), K("callee_authrole", "str"), K("forward_for", "ff")}],
    register     |-> [code |-> 64,  pos |-> <<"id", "dict", "uri_pattern">>, minlen |-> 4, optpos |-> 2,
                      keys |-> {K("match", "enum"), K("invoke", "enum"), K("concurrency", "int"), K("force_reregister", "bool"), K("forward_for", "ff")}],
    registered   |-> [code |-> 65,  pos |-> <<"id", "id">>, minlen |-> 3, optpos |-> 0, keys |-> {}],
    unregister   |-> [code |-> 66,  pos |-> <<"id", "id", "dict">>, minlen |-> 3, optpos |-> 3, keys |-> {K("forward_for", "ff")}],
    unregistered |-> [code |-> 67,  pos |-> <<"id", "dict">>, minlen |-> 2, optpos |-> 2, keys |-> {K("registration", "cond"), K("reason", "cond")}],
    invocation   |-> [code |-> 68,  pos |-> <<"id", "id", "dict">> \o PAYLOAD, minlen |-> 4, optpos |-> 3,
                      keys |-> {K("timeout", "int"), K("receive_progress", "bool"), K("caller", "optid"), K("caller_authid", "str"),
                                K("caller_authrole", "str"), K("procedure", "uri"), K("transaction_hash", "str"), K("forward_for", "ff")}],
    interrupt    |-> [code |-> 69,  pos |-> <<"id", "dict">>, minlen |-> 3, optpos |-> 2,
                      keys |-> {K("mode", "enum"), K("reason", "uri"), K("forward_for", "ff")}],
    yield        |-> [code |-> 70,  pos |-> <<"id", "dict">> \o PAYLOAD, minlen |-> 3, optpos |-> 2,
                      keys |-> {K("progress", "bool"), K("callee", "optid"), K("callee_authid", "str"), K("callee_authrole", "str"), K("forward_for", "ff")}] ]

TypeNames == DOMAIN Types
Codes == {Types[t].code : t \in TypeNames}

\* ---- the case table
\* substitute position i (1-based in pos) of type t by class c; all other elements keep their valid example value
\* (HELLO / WELCOME details must contain roles: an empty dict is not a valid details value there)
\* (UNSUBSCRIBED / UNREGISTERED with request 0 mean "revoked by the router" and then need the id in the details)
PosVerdict(t, i, c) == IF t \in {"hello", "welcome"} /\ Types[t].pos[i] = "dict" /\ c \in DictC THEN "either"
                       ELSE IF t \in {"unsubscribed", "unregistered"} /\ i = 1 /\ c = "int0" THEN "either"
                       ELSE Verdict(Types[t].pos[i], c)
PosCasesOk == UNION {{[t |-> t, what |-> "pos", i |-> i, key |-> "", c |-> c, kind |-> Types[t].pos[i],
                        verdict |-> PosVerdict(t, i, c)] : i \in 1..Len(Types[t].pos), c \in Classes} : t \in TypeNames}
\* (a null option value is the same as an absent option: either)
KeyVerdict(kind, c) == IF c = "null" THEN "either" ELSE Verdict(kind, c)
KeyCases == UNION {{[t |-> t, what |-> "key", i |-> Types[t].optpos, key |-> k.k, c |-> c, kind |-> k.kind,
                     verdict |-> KeyVerdict(k.kind, c)] : k \in Types[t].keys, c \in Classes} : t \in TypeNames}
\* wrong element counts: fewer than minlen or more than Len(pos)+1 elements must be rejected
LenCases == {[t |-> t, what |-> "len", i |-> n, key |-> "", c |-> "", kind |-> "", verdict |-> "reject"] :
               t \in TypeNames, n \in 1..8}
LenCasesOk == {x \in LenCases : x.i < Types[x.t].minlen \/ x.i > Len(Types[x.t].pos) + 1}
BaseCases == {[t |-> t, what |-> "base", i |-> 0, key |-> "", c |-> "", kind |-> "", verdict |-> "accept"] : t \in TypeNames}
\* role features announced in HELLO / WELCOME details.roles.<role>.features are all booleans; the driver expands each of
\* these cases over every (role, feature) pair the library knows for that message type
FeatureCases == {[t |-> t, what |-> "feature", i |-> 0, key |-> "", c |-> c, kind |-> "bool", verdict |-> KeyVerdict("bool", c)] :
                   t \in {"hello", "welcome"}, c \in Classes}
\* ERROR answers exactly the seven request types; every other code (incl. the codes of all other messages) is refused
ReqTypes == {16, 32, 34, 48, 64, 66, 68}      \* PUBLISH SUBSCRIBE UNSUBSCRIBE CALL REGISTER UNREGISTER INVOCATION
ReqTypeVerdict(code) == IF code \in ReqTypes THEN "accept" ELSE "reject"
ReqTypeCases == {[t |-> "error", what |-> "reqtype", i |-> code, key |-> "", c |-> "", kind |-> "reqtype", verdict |-> ReqTypeVerdict(code)] :
                   code \in 0..80}
\* several role features at once (expanded by the driver over every role and neighbouring feature pairs / all features)
FeatureSetCases == {[t |-> t, what |-> "features", i |-> 0, key |-> "", c |-> "true", kind |-> "bool", verdict |-> "accept"] : t \in {"hello", "welcome"}}
\* role names in details.roles: HELLO announces client roles, WELCOME router roles, each with a dict as value.  A role of the
\* other side or an unknown one may be refused or ignored (either) - but whatever the value, only the library's own errors
RoleNames == {"subscriber", "publisher", "caller", "callee", "broker", "dealer", "bogus_role"}
RolesOf(t) == IF t = "hello" THEN {"subscriber", "publisher", "caller", "callee"} ELSE {"broker", "dealer"}
RoleValueClasses == {"dict_empty", "null", "str_uri", "list_empty", "int1", "true"}
RoleVerdict(t, r, c) == IF r \in RolesOf(t) THEN (IF c = "dict_empty" THEN "accept" ELSE "reject") ELSE "either"
RoleCases == {[t |-> t, what |-> "role", i |-> 0, key |-> r, c |-> c, kind |-> "role", verdict |-> RoleVerdict(t, r, c)] :
                t \in {"hello", "welcome"}, r \in RoleNames, c \in RoleValueClasses}
\* payload-transparency form: the element at the args position is one opaque binary payload, described by the option / detail
\* enc_algo (a string).  Nothing may follow it (wrong element count), and an enc_algo that is not a string is a wrongly typed option.
PtTypes == {t \in TypeNames : \E i \in 1..Len(Types[t].pos) : Types[t].pos[i] = "args"}
PtForms == {"ok", "extra_dict", "extra_list", "algo_true", "algo_int", "algo_list", "algo_bytes"}
\* (payload followed by a dict: also readable as pass-through args + empty kwargs, see Verdict("args", "bytes"): either)
PtVerdict(f) == IF f = "ok" THEN "accept" ELSE IF f = "extra_dict" THEN "either" ELSE "reject"
PtCases == {[t |-> t, what |-> "pt", i |-> 0, key |-> f, c |-> "", kind |-> "pt", verdict |-> PtVerdict(f)] : t \in PtTypes, f \in PtForms}
Cases == PtCases \cup RoleCases \cup BaseCases \cup PosCasesOk \cup KeyCases \cup LenCasesOk \cup FeatureCases \cup ReqTypeCases \cup FeatureSetCases

TableSane ==
  /\ Cardinality(TypeNames) = 25 /\ Cardinality(Codes) = 25
  /\ \A t \in TypeNames : Types[t].minlen <= Len(Types[t].pos) + 1 /\ Types[t].optpos <= Len(Types[t].pos)
  /\ \A k \in Kinds, c \in Classes : Verdict(k, c) \in {"accept", "reject", "either"}
  /\ \A t \in TypeNames : \A k \in Types[t].keys : k.kind \in Kinds
=============================================================================
