SPECIFICATION Spec
CONSTANTS
  Sers <- MCSers
  Exps <- MCExps
  Lens <- MCLens
  MaxQ = 2
CONSTRAINT Bound
INVARIANT AttachOnlyIfValid
INVARIANT SameSerializer
INVARIANT InOrderIntact
INVARIANT NeverOverLimit
INVARIANT ToldOnce
INVARIANT NoDeliveryUnlessOpen
INVARIANT RefusedNeverOpens
CHECK_DEADLOCK FALSE
