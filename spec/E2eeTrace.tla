------------------------------ MODULE E2eeTrace ------------------------------
(* one event per executed cell: e2e dir, layout, fault, pos, obs = [encOnWire, clearOnWire, delivered, call, alive, esc] *)
EXTENDS E2ee, Sequences, FiniteSets, Json, IOUtils, TLCExt
Traces == JsonDeserialize(IOEnv.TRACE_FILE)
N == Len(Traces)
ASSUME \A i \in 1..N : TLCSet(i, 0)
VARIABLES tid, l
tvars == <<dir, layout, fault, tid, l>>
E == Traces[tid][l]
TInit == tid \in 1..N /\ l = 1 /\ dir = "publish" /\ layout = "default" /\ fault = "none"
TE2e ==
  /\ l <= Len(Traces[tid]) /\ E.ev = "e2e" /\ l' = l + 1 /\ UNCHANGED tid
  /\ dir' = E.dir /\ layout' = E.layout /\ fault' = E.fault
  /\ E.dir \in Dirs /\ E.layout \in Layouts /\ E.fault \in Faults
  /\ LET x == Expect(E.dir, E.layout, E.fault) o == E.obs IN
       /\ o.esc = ""
       /\ o.alive                                  \* the sessions survive every fault
       /\ o.encOnWire = x.enc
       /\ o.clearOnWire = ~x.enc                   \* the clear payload never travels next to / instead of the ciphertext
       /\ o.delivered = x.delivered                \* never "altered"
       /\ IF x.call = "notok" THEN o.call \in {"failed", "pending"} ELSE o.call = x.call
\* a live keyring: one publication per step, the keys installed at that moment decide
TLive ==
  /\ l <= Len(Traces[tid]) /\ E.ev = "live" /\ l' = l + 1 /\ UNCHANGED <<tid, dir, layout, fault>>
  /\ E.esc = ""
  /\ \A i \in 1..Len(E.steps) :
       LET st == E.steps[i] x == LiveExpect(st.ko, st.kr) IN
         /\ st.ko \in KeyStates /\ st.kr \in KeyStates
         /\ st.encOnWire = x.enc /\ st.clearOnWire = ~x.enc /\ st.delivered = x.delivered
\* an application error under a keyed URI raised by a procedure that was called in clear
TErrKeyed ==
  /\ l <= Len(Traces[tid]) /\ E.ev = "errkeyed" /\ l' = l + 1 /\ UNCHANGED <<tid, dir, layout, fault>>
  /\ E.obs.esc = "" /\ E.obs.alive
  /\ E.obs.encOnWire = ErrKeyedExpect.enc /\ E.obs.clearOnWire = ~ErrKeyedExpect.enc
  /\ E.obs.delivered = ErrKeyedExpect.delivered /\ E.obs.call = ErrKeyedExpect.call
TraceSpec == TInit /\ [][TE2e \/ TLive \/ TErrKeyed]_tvars
Progress == TLCSet(tid, IF TLCGet(tid) < l THEN l ELSE TLCGet(tid))
Post ==
  LET rej == {i \in 1..N : TLCGet(i) # Len(Traces[i]) + 1} IN
    /\ \A i \in rej : PrintT(<<"REJECT", i, TLCGet(i)>>)
    /\ PrintT(<<"ACCEPTED", N - Cardinality(rej)>>)
=============================================================================
