------------------------------ MODULE Observable ------------------------------
(***************************************************************************)
(* autobahn.util.ObservableMixin: listeners on an object, optional list of *)
(* valid events, optional parent to which fired events bubble (sessions    *)
(* bubble to their Component).  One operator per method, returning the     *)
(* next listener table and what is observable: the handler calls in order, *)
(* or the error.  Objects: "child" (parent = "parent") and "parent".       *)
(***************************************************************************)
EXTENDS Integers, Sequences, FiniteSets, TLC

CONSTANTS Events,      \* valid event names
          Handlers,    \* handler identities
          MaxOps
Invalid == "no-such-event"
AllEvents == Events \cup {Invalid}
Objs == {"child", "parent"}

\* L[o][e] = sequence of handlers registered on object o for event e (duplicates allowed: a handler added twice runs twice)
\* L[o].init = the object's listener table exists (created by the first on(), or by off() without arguments).
\* DEVIATION kept as the code has it (recorded as an observation in DESIGN 13.3, not a listed property): an object whose
\* table was never created fires nothing at all - not even its parent's listeners - and off(event) on it checks nothing.
Empty == [o \in Objs |-> [e \in Events \cup {"init"} |-> IF e = "init" THEN FALSE ELSE <<>>]]
Res(L, calls, err) == [L |-> L, calls |-> calls, err |-> err]

On(L, o, e, h) ==
  IF e \notin Events THEN Res(L, <<>>, "RuntimeError")
  ELSE Res([L EXCEPT ![o][e] = Append(@, h), ![o]["init"] = TRUE], <<>>, "")

RemoveFirst(s, h) ==
  IF \E i \in 1..Len(s) : s[i] = h
  THEN LET i == CHOOSE i \in 1..Len(s) : s[i] = h /\ \A j \in 1..(i-1) : s[j] # h IN SubSeq(s, 1, i-1) \o SubSeq(s, i+1, Len(s))
  ELSE s
\* off(): all listeners; off(e): all of e; off(e, h): the first registration of h for e; off(None, h) is an error
Off(L, o, e, h) ==
  IF e = "" THEN IF h # 0 THEN Res(L, <<>>, "RuntimeError")
                 ELSE Res([L EXCEPT ![o] = [x \in Events \cup {"init"} |-> IF x = "init" THEN TRUE ELSE <<>>]], <<>>, "")
  ELSE IF ~L[o]["init"] THEN Res(L, <<>>, "")
  ELSE IF e \notin Events THEN Res(L, <<>>, "RuntimeError")
  ELSE IF h = 0 THEN Res([L EXCEPT ![o][e] = <<>>], <<>>, "")
  ELSE Res([L EXCEPT ![o][e] = RemoveFirst(@, h)], <<>>, "")

\* fire(): own handlers in registration order, then (child only) the parent's
Fire(L, o, e) ==
  IF ~L[o]["init"] THEN Res(L, <<>>, "")
  ELSE IF e \notin Events THEN Res(L, <<>>, "RuntimeError")
  ELSE Res(L, [i \in 1..Len(L[o][e]) |-> [o |-> o, h |-> L[o][e][i]]]
              \o (IF o = "child" THEN [i \in 1..Len(L["parent"][e]) |-> [o |-> "parent", h |-> L["parent"][e][i]]] ELSE <<>>), "")

VARIABLES L, last, n
vars == <<L, last, n>>
Init == L = Empty /\ last = Res(Empty, <<>>, "") /\ n = 0
Do(r) == n < MaxOps /\ n' = n + 1 /\ L' = r.L /\ last' = r
Next == \E o \in Objs :
          \/ \E e \in AllEvents, h \in Handlers : Do(On(L, o, e, h))
          \/ \E e \in AllEvents \cup {""}, h \in Handlers \cup {0} : Do(Off(L, o, e, h))
          \/ \E e \in AllEvents : Do(Fire(L, o, e))
Spec == Init /\ [][Next]_vars

\* an error changes nothing and calls nothing
ErrorsChangeNothing == [][(last'.err # "") => (L' = L /\ last'.calls = <<>>)]_vars
\* only fire() calls handlers; a parent's fire never reaches the child's listeners
OnlyFireCalls == [][(last'.calls # <<>>) => (L' = L)]_vars
ParentStaysAtParent == \A i \in 1..Len(last.calls) : (last.calls[1].o = "parent") => last.calls[i].o = "parent"
\* own listeners run before the parent's
OwnBeforeParent == \A i, j \in 1..Len(last.calls) : (i < j /\ last.calls[i].o = "parent") => last.calls[j].o = "parent"
=============================================================================
