--------------------------- MODULE ObservableTrace ---------------------------
(* Validates logged operation sequences on real ObservableMixin objects (a child whose _parent is a second object)        *)
(* against Observable.tla: every on / off / fire applies the operator and must reproduce the handler calls, the error and *)
(* the listener tables of both objects.                                                                                 *)
EXTENDS Observable, Json, IOUtils, TLCExt
Traces == JsonDeserialize(IOEnv.TRACE_FILE)
N == Len(Traces)
ASSUME \A i \in 1..N : TLCSet(i, 0)
VARIABLES tid, l
tvars == <<vars, tid, l>>
E == Traces[tid][l]
TInit == tid \in 1..N /\ l = 1 /\ Init
Table(t) == [o \in Objs |-> [e \in Events \cup {"init"} |-> t[o][e]]]
Accept(r) ==
  /\ l <= Len(Traces[tid]) /\ l' = l + 1 /\ UNCHANGED <<tid, n>>
  /\ L' = r.L /\ last' = r
  /\ E.obs.err = r.err
  /\ E.obs.calls = [i \in 1..Len(r.calls) |-> <<r.calls[i].o, r.calls[i].h>>]
  /\ Table(E.obs.table) = r.L
TOp == /\ l <= Len(Traces[tid])
       /\ Accept(CASE E.ev = "on" -> On(L, E.o, E.e, E.h)
                   [] E.ev = "off" -> Off(L, E.o, E.e, E.h)
                   [] E.ev = "fire" -> Fire(L, E.o, E.e))
TraceSpec == TInit /\ [][TOp]_tvars
Progress == TLCSet(tid, IF TLCGet(tid) < l THEN l ELSE TLCGet(tid))
Post ==
  LET rej == {i \in 1..N : TLCGet(i) # Len(Traces[i]) + 1} IN
    /\ \A i \in rej : PrintT(<<"REJECT", i, TLCGet(i)>>)
    /\ PrintT(<<"ACCEPTED", N - Cardinality(rej)>>)
=============================================================================
