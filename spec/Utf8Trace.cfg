SPECIFICATION TraceSpec
CONSTANTS
  Alphabet = {0}
  MaxLen = 0
CONSTRAINT Progress
POSTCONDITION Post
CHECK_DEADLOCK FALSE
