-------------------------- MODULE WsHandshakeExport --------------------------
EXTENDS WsHandshake, Json, IOUtils, SequencesExt
ASSUME TablesSane
ASSUME JsonSerialize(IOEnv.OUT_FILE, [req |-> SetToSeq(ReqTable), resp |-> SetToSeq(RespTable)])
=============================================================================
