----------------------------- MODULE UriPattern -----------------------------
(***************************************************************************)
(* autobahn.wamp.uri.Pattern - the URI patterns behind @wamp.register /    *)
(* @wamp.subscribe / @wamp.error - as a function on dot-separated          *)
(* components.  A pattern component is                                     *)
(*   lit    a literal URI component          "product"                     *)
(*   named  a named wildcard                 "<id>"                        *)
(*   typed  a named, converted wildcard      "<id:int>" (str, string, int, *)
(*          suffix; anything else is refused)                              *)
(*   empty  an anonymous wildcard            ""     (as in "a..b")         *)
(*   bad    anything else                    "Product", "<1x>", "a b"      *)
(* Construct: refused (TypeError) iff a component is bad, a type is        *)
(* unknown, "suffix" is not last, or a name repeats; wildcard iff any      *)
(* component is not a literal, else exact.                                 *)
(* Match: an exact pattern yields no arguments for *every* URI (the code   *)
(* does not compare; named deviation ExactMatchesAll); a wildcard pattern  *)
(* matches URIs with the same number of components whose literals agree    *)
(* and whose wildcard positions hold one non-empty component without "#"   *)
(* or whitespace; named values come back as keyword arguments (int-typed   *)
(* ones converted; not a number = no match), anonymous ones keyed by their *)
(* group index.  "suffix" matches ONE component like "str" (named          *)
(* deviation SuffixIsOneComponent).                                        *)
(***************************************************************************)
EXTENDS Integers, Sequences, FiniteSets

Types == {"str", "string", "int", "suffix"}
\* the URI components the generated cases use, and what the spec needs to know about them
NumVal == [x \in {"12", "-5", "007"} |-> CASE x = "12" -> 12 [] x = "-5" -> -5 [] OTHER -> 7]
IsNum(c) == c \in DOMAIN NumVal
GroupOk(c) == c \notin {"", "x#y", "a b"}           \* [^\s\.#]+

NameOf(c) == IF c.k \in {"named", "typed"} THEN c.v ELSE ""
Names(p) == {i \in 1..Len(p) : p[i].k \in {"named", "typed"}}
Refused(p) ==
  \/ \E i \in 1..Len(p) : p[i].k = "bad"
  \/ \E i \in 1..Len(p) : p[i].k = "typed" /\ p[i].t \notin Types
  \/ \E i \in 1..Len(p) : p[i].k = "typed" /\ p[i].t = "suffix" /\ i # Len(p)
  \/ \E i, j \in Names(p) : i # j /\ p[i].v = p[j].v
Wild(p) == \E i \in 1..Len(p) : p[i].k # "lit"
Construct(p) == IF Refused(p) THEN "refused" ELSE IF Wild(p) THEN "wildcard" ELSE "exact"

\* index of the regex group of position i = number of wildcard positions up to and including i
GroupIdx(p, i) == Cardinality({j \in 1..i : p[j].k # "lit"})
Matches(p, u) ==
  /\ Len(u) = Len(p)
  /\ \A i \in 1..Len(p) : IF p[i].k = "lit" THEN u[i] = p[i].v ELSE GroupOk(u[i])
  /\ \A i \in 1..Len(p) : (p[i].k = "typed" /\ p[i].t = "int") => IsNum(u[i])
\* keyword arguments as a set of <<key, kind, value>>: kind "int" (value an integer) or "str"; anonymous groups are keyed "#n"
Digits == <<"1", "2", "3", "4", "5", "6", "7", "8", "9">>
Kw(p, u) ==
  {IF p[i].k = "empty" THEN <<"#" \o Digits[GroupIdx(p, i)], "str", u[i]>>
   ELSE IF p[i].k = "typed" /\ p[i].t = "int" THEN <<p[i].v, "int", NumVal[u[i]]>>
   ELSE <<p[i].v, "str", u[i]>> : i \in {j \in 1..Len(p) : p[j].k # "lit"}}
Match(p, u) ==
  IF Construct(p) = "exact" THEN [ok |-> TRUE, kw |-> {}]
  ELSE IF Matches(p, u) THEN [ok |-> TRUE, kw |-> Kw(p, u)] ELSE [ok |-> FALSE, kw |-> {}]

(* a small exhaustive instance for TLC: sanity of the operators themselves *)
CONSTANTS PC, UC, MaxLen
VARIABLES p, u
vars == <<p, u>>
SeqsUpTo(S, n) == UNION {[1..k -> S] : k \in 1..n}
Init == p \in SeqsUpTo(PC, MaxLen) /\ u \in SeqsUpTo(UC, MaxLen)
Next == UNCHANGED vars
Spec == Init /\ [][Next]_vars
\* a match binds every wildcard position exactly once and nothing else
BindsEachOnce == (Construct(p) = "wildcard" /\ Match(p, u).ok) =>
                   Cardinality(Match(p, u).kw) = Cardinality({i \in 1..Len(p) : p[i].k # "lit"})
\* literal components are never bound, and a URI of another length never matches a wildcard pattern
LengthMatters == (Construct(p) = "wildcard" /\ Len(u) # Len(p)) => ~Match(p, u).ok
RefusedIsFinal == Construct(p) = "refused" => Refused(p)
=============================================================================
