SPECIFICATION Spec
INVARIANT TableTotal
CHECK_DEADLOCK FALSE
