SPECIFICATION Spec
INVARIANT OnlySuccessProceeds
CHECK_DEADLOCK FALSE
