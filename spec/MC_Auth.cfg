SPECIFICATION Spec
INVARIANT AcceptOnlyIfServerSigValid
INVARIANT AnyAlterationDetected
INVARIANT HonestRunSucceeds
CHECK_DEADLOCK FALSE
