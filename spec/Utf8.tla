------------------------------- MODULE Utf8 -------------------------------
(***************************************************************************)
(* Exhaustive model over spec/Utf8Def.tla (the RFC 3629 ABNF and the       *)
(* incremental step machine): TLC checks that the machine computes the     *)
(* ABNF on every string up to MaxLen over Alphabet, whole and chunked.     *)
(***************************************************************************)
EXTENDS Utf8Def

CONSTANTS Alphabet,   \* subset of 0..255 explored by the exhaustive model
          MaxLen      \* maximum string length explored

(***************************************************************************)
(* Exhaustive model: grow a string byte by byte, run the machine along.    *)
(***************************************************************************)
VARIABLES s, st
vars == <<s, st>>

Init == s = <<>> /\ st = "acc"

Extend(b) == /\ Len(s) < MaxLen
             /\ s' = Append(s, b)
             /\ st' = Step(st, b)

Next == \E b \in Alphabet : Extend(b)

Spec == Init /\ [][Next]_vars

TypeOK == st \in States /\ s \in Seq(Byte)

AcceptIffWellFormed == (st = "acc") <=> WellFormed(s)
RejectIffNotPrefix  == (st = "rej") <=> ~ValidPrefix(s)

\* whole-string validation reports the first offending byte
WholeVerdict ==
  LET r == Validate(V0, s) IN
    /\ r.valid = ValidPrefix(s)
    /\ r.eoc = WellFormed(s)
    /\ r.ti = FirstBad(s)
    /\ r.ci = FirstBad(s)

\* any split into two or three chunks gives the same final verdict and total index
ChunkIndependent ==
  \A i \in 0..Len(s) : \A j \in i..Len(s) :
    LET a == Validate(V0, SubSeq(s, 1, i))
        b == Validate(a, SubSeq(s, i + 1, j))
        c == Validate(b, SubSeq(s, j + 1, Len(s)))
        w == Validate(V0, s)
    IN /\ c.st = w.st /\ c.total = w.total
       /\ c.valid = w.valid /\ c.eoc = w.eoc /\ c.ti = w.ti
       \* the chunk that contains the offending byte reports it relative to its start
       /\ (~w.valid /\ w.ti >= j) => c.ci = w.ti - j

=============================================================================
