SPECIFICATION TraceSpec
CONSTANTS
  PC = {}
  UC = {}
  MaxLen = 0
CONSTRAINT Progress
POSTCONDITION Post
CHECK_DEADLOCK FALSE
