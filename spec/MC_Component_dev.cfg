SPECIFICATION Spec
CONSTANTS
  MaxT = 3
  MRS <- MCMRS
  Dev <- WithF26
CONSTRAINT Bound
INVARIANT TypeOK
INVARIANT Budget
PROPERTY NoAttemptAfterFatal
PROPERTY PermIsForever
PROPERTY RoundRobin
PROPERTY FirstImmediate
PROPERTY RetryWhileBudgetLeft
PROPERTY ExhaustedMeansError
PROPERTY DoneOnce
PROPERTY DoneOkOnlyBy
PROPERTY DoneErrOnlyBy
CHECK_DEADLOCK FALSE
