-------------------------------- MODULE Pmce --------------------------------
(***************************************************************************)
(* permessage-deflate negotiation (RFC 7692 section 7) as the library      *)
(* exposes it: the client's Offer, the server application's OfferAccept    *)
(* (what it requests from the client plus local overrides), the Response   *)
(* put on the wire, the client application's ResponseAccept (local         *)
(* overrides), and the effective per-direction parameters each end then    *)
(* runs its compressor / decompressor with.                                *)
(*                                                                         *)
(* Code anchor: websocket/compress_deflate.py PerMessageDeflateOffer /     *)
(* OfferAccept / Response / ResponseAccept / PerMessageDeflate.            *)
(* create_from_offer_accept / create_from_response_accept.                 *)
(* Window 0 = "not specified" (15 is then used); override "none" = no      *)
(* local override.                                                         *)
(***************************************************************************)
EXTENDS Integers, FiniteSets, TLC

Windows == 9..15
W0 == {0} \cup Windows
Tri == {"none", "yes", "no"}

Offers == [acceptNCT : BOOLEAN, acceptMWB : BOOLEAN, reqNCT : BOOLEAN, reqMWB : W0]
Accepts == [reqNCT : BOOLEAN, reqMWB : W0, nct : Tri, wbits : W0]
CAccepts == [nct : Tri, wbits : W0]

\* ---- server application accepts an offer: may only request what the client said it accepts, and its local overrides
\* must not contradict what the client requested for the server-to-client direction
\* (client_no_context_takeover in an offer is only a hint: RFC 7692 7.1.1.2 lets a server request it in any case)
AcceptValid(o, a) ==
  /\ a.reqMWB # 0 => o.acceptMWB
  /\ a.nct = "no" => ~o.reqNCT
  /\ (a.wbits # 0 /\ o.reqMWB # 0) => a.wbits <= o.reqMWB

\* ---- what goes on the wire in the 101 response
Response(o, a) == [serverNCT |-> o.reqNCT, serverMWB |-> o.reqMWB, clientNCT |-> a.reqNCT, clientMWB |-> a.reqMWB]

\* ---- client application accepts the response (local overrides must not contradict the server's requests)
CAcceptValid(r, ca) ==
  /\ ca.nct = "no" => ~r.clientNCT
  /\ (ca.wbits # 0 /\ r.clientMWB # 0) => ca.wbits <= r.clientMWB

Eff(w) == IF w = 0 THEN 15 ELSE w
Ovr(tri, dflt) == IF tri = "none" THEN dflt ELSE tri = "yes"

\* effective parameters [s2cW, s2cNCT, c2sW, c2sNCT] at each end
SrvEff(o, a) == [s2cW |-> Eff(IF a.wbits # 0 THEN a.wbits ELSE o.reqMWB), s2cNCT |-> Ovr(a.nct, o.reqNCT),
                 c2sW |-> Eff(a.reqMWB), c2sNCT |-> a.reqNCT]
CliEff(r, ca) == [s2cW |-> Eff(r.serverMWB), s2cNCT |-> r.serverNCT,
                  c2sW |-> Eff(IF ca.wbits # 0 THEN ca.wbits ELSE r.clientMWB), c2sNCT |-> Ovr(ca.nct, r.clientNCT)]

(***************************************************************************)
(* Soundness                                                               *)
(***************************************************************************)
\* the response only contains what the offer allows (RFC 7692 7.1.2.2: client_max_window_bits only if offered; the
\* server parameters are the ones the client asked for)
ResponseWithinOffer(o, a) ==
  LET r == Response(o, a) IN
    /\ r.clientMWB # 0 => o.acceptMWB
    /\ r.serverMWB = o.reqMWB /\ r.serverNCT = o.reqNCT

\* per direction: the decompressor can decode what the compressor produces - its window is at least as large, and it
\* only resets per message if the compressor does; without local overrides both ends use identical parameters
DirectionCompatible(o, a, ca) ==
  LET s == SrvEff(o, a) c == CliEff(Response(o, a), ca) IN
    /\ c.s2cW >= s.s2cW /\ (c.s2cNCT => s.s2cNCT)          \* server compresses, client decompresses
    /\ s.c2sW >= c.c2sW /\ (s.c2sNCT => c.c2sNCT)          \* client compresses, server decompresses
    /\ (a.nct = "none" /\ a.wbits = 0) => (c.s2cW = s.s2cW /\ c.s2cNCT = s.s2cNCT)
    /\ (ca.nct = "none" /\ ca.wbits = 0) => (s.c2sW = c.c2sW /\ s.c2sNCT = c.c2sNCT)

\* ---- exhaustive model: walk the lattice
VARIABLES o, a, ca, stage
vars == <<o, a, ca, stage>>
NoneA == [reqNCT |-> FALSE, reqMWB |-> 0, nct |-> "none", wbits |-> 0]
NoneC == [nct |-> "none", wbits |-> 0]
Init == o \in Offers /\ a = NoneA /\ ca = NoneC /\ stage = "offered"
ChooseAccept == stage = "offered" /\ a' \in {x \in Accepts : AcceptValid(o, x)} /\ stage' = "accepted" /\ UNCHANGED <<o, ca>>
ChooseCAccept == stage = "accepted" /\ ca' \in {x \in CAccepts : CAcceptValid(Response(o, a), x)} /\ stage' = "done" /\ UNCHANGED <<o, a>>
Next == ChooseAccept \/ ChooseCAccept
Spec == Init /\ [][Next]_vars

InvResponseWithinOffer == stage # "offered" => ResponseWithinOffer(o, a)
InvDirectionCompatible == stage = "done" => DirectionCompatible(o, a, ca)
\* an accept that contradicts the offer is exactly what AcceptValid excludes (the constructor must raise)
InvInvalidAcceptsExist == Cardinality({x \in Accepts : ~AcceptValid([acceptNCT |-> FALSE, acceptMWB |-> FALSE, reqNCT |-> TRUE, reqMWB |-> 9], x)}) > 0

(***************************************************************************)
(* Client side verdict on the extension part of a 101 response             *)
(***************************************************************************)
RespFaults == {"none", "no-extension", "unknown-extension", "pmce-twice", "two-different-pmce", "unknown-param", "dup-param",
               "window-out-of-range", "window-not-int", "param-with-unexpected-value", "declined-by-policy"}
\* "no-extension": the server simply did not accept compression - the handshake succeeds uncompressed
ClientOpens(f) == f \in {"none", "no-extension"}
ClientCompresses(f) == f = "none"
=============================================================================
