--------------------------- MODULE ComponentTrace ---------------------------
(***************************************************************************)
(* Validates logged runs of the real Component against Component.tla.      *)
(* Events (one per line, in the order the driver applied / observed them): *)
(*   start   n, mr[], hasMain, maxdelay_ms[]                               *)
(*   attempt tr, delay_ms      the endpoint saw a connection attempt       *)
(*   fail    kind, fatal       "connectfailure" fired (kind = scripted     *)
(*                             cause; fatal = the classifier's verdict)    *)
(*   joined                    WELCOME is being delivered                  *)
(*   left                      the router's GOODBYE reply is being delivered*)
(*   stop    point             stop() is being called                      *)
(*   lost    k                 the driver takes attempt k's connection away*)
(*   done    how               the start() result was seen completed       *)
(*   end     obs               final observations                          *)
(* transport_check (Check) is not observable by itself: it is a silent     *)
(* step, taken when the next logged event needs it.                        *)
(***************************************************************************)
EXTENDS Component, Json, IOUtils, TLC, TLCExt, SequencesExt
Traces == JsonDeserialize(IOEnv.TRACE_FILE)
N == Len(Traces)
ASSUME \A i \in 1..N : TLCSet(i, 0)
VARIABLES tid, l, maxd, hist, owed
\* hist: per connection attempt, what became of it: "open" | "refused" | "hsfail" | "abort" | "joined" | "ended"
\* owed: the transport of the attempt in flight was just lost while start() is pending: the next event must be its failure
tvars == <<vars, tid, l, maxd, hist, owed>>
E == Traces[tid][l]
Ev(name) == l <= Len(Traces[tid]) /\ E.ev = name /\ l' = l + 1 /\ UNCHANGED tid
Same == UNCHANGED <<maxd, hist, owed>>

TInit == /\ tid \in 1..N /\ l = 1 /\ maxd = <<>> /\ hist = <<>> /\ owed = FALSE
         /\ T = Traces[tid][1].n /\ MaxRetries = Traces[tid][1].mr /\ HasMain = Traces[tid][1].hasMain
         /\ attempts = [t \in 1..T |-> 0] /\ perm = [t \in 1..T |-> FALSE] /\ cursor = 1 /\ phase = "init"
         /\ cand = 0 /\ first = FALSE /\ done = "pending" /\ stopping = FALSE /\ total = 0 /\ stale = FALSE

TStart == Ev("start") /\ Start /\ maxd' = E.maxdelay_ms /\ UNCHANGED <<hist, owed>>
TCheck == Check /\ UNCHANGED <<tid, l>> /\ Same /\ l <= Len(Traces[tid]) /\ E.ev \in {"attempt", "done", "end", "stop"}
TAttempt == /\ Ev("attempt") /\ Fire /\ cand = E.tr
            /\ (first => E.delay_ms = 0)                 \* first use since the last join: without delay
            /\ E.delay_ms <= maxd[E.tr]                  \* never longer than max_retry_delay
            /\ E.att = attempts'                        \* the implementation's connect_attempts counters
            /\ hist' = Append(hist, "open") /\ UNCHANGED <<maxd, owed>> /\ ~owed
Cur == Len(hist)
TFail == /\ Ev("fail") /\ Cur > 0
         /\ E.argOk                                    \* the fatal-error classifier was handed the exception itself
         /\ IF E.kind = "main_raises" THEN MainFails(E.fatal) /\ hist[Cur] = "joined"
            ELSE /\ Fail(E.fatal)
                 /\ CASE E.kind = "joined_lost" -> hist[Cur] = "joined"
                      [] OTHER -> hist[Cur] = "open"
         /\ hist' = [hist EXCEPT ![Cur] = IF hist[Cur] = "joined" THEN "ended" ELSE E.kind] /\ UNCHANGED maxd /\ owed' = FALSE
TJoined == Ev("joined") /\ Join /\ Cur > 0 /\ hist[Cur] = "open" /\ hist' = [hist EXCEPT ![Cur] = "joined"] /\ UNCHANGED <<maxd, owed>> /\ ~owed
\* When stop() was called while a connection was being established, start()'s result is already complete (and cleared) by
\* the time that session leaves: the code's session_done then raises on the cleared future and the loop carries on as after
\* a failure (a "fail" event follows).  The property does not speak about attempts after stop(), so both continuations are
\* admitted here: the loop ends with the leave, or the leave is left to the following "fail" event.
TLeft == /\ Ev("left") /\ Cur > 0 /\ hist[Cur] = "joined"
         /\ ~owed /\ UNCHANGED owed
         /\ \/ Leave /\ hist' = [hist EXCEPT ![Cur] = "ended"] /\ UNCHANGED maxd
            \/ done # "pending" /\ UNCHANGED vars /\ UNCHANGED <<maxd, hist>>
TStop == Ev("stop") /\ Stop /\ Same /\ ~owed
\* the driver takes the TCP connection of attempt E.k away.  If that attempt is the one in flight, has not failed or ended
\* yet and start() is still pending, the component must notice: its failure is owed as the very next event.
TLostStim == /\ Ev("lost") /\ UNCHANGED vars /\ UNCHANGED <<maxd, hist>> /\ ~owed
             /\ owed' = (E.k + 1 = Cur /\ hist[Cur] \in {"open", "joined"} /\ done = "pending" /\ phase \in {"connecting", "joined"})
TDone == Ev("done") /\ done = E.how /\ UNCHANGED vars /\ Same
\* listeners: every session the component created saw connect .. disconnect, each once
Expected(h) == CASE h = "abort" -> {"connect", "leave", "disconnect"}
                 [] h = "prelost" -> {"connect", "disconnect"}           \* attached, never joined: no "leave"
                 [] h \in {"ended", "joined"} -> {"connect", "join", "ready", "leave", "disconnect"}
                 [] OTHER -> {}
Sessions == SelectSeq(hist, LAMBDA h : Expected(h) # {})
TEnd == /\ Ev("end") /\ UNCHANGED vars /\ Same /\ ~owed
        /\ E.obs.esc = ""
        /\ E.obs.done = done
        /\ E.obs.doneCount = (IF done = "pending" THEN 0 ELSE 1)
        /\ E.obs.attempts = attempts /\ E.obs.perm = perm      \* counters and permanent-failure flags agree with the model
        /\ Len(E.obs.listeners) = Len(Sessions)
        /\ \A i \in 1..Len(Sessions) : /\ ToSet(E.obs.listeners[i]) = Expected(Sessions[i])
                                       /\ Len(E.obs.listeners[i]) = Cardinality(Expected(Sessions[i]))
        /\ (done = "pending" => (phase \in {"delay", "connecting", "joined", "check"}))
        \* a component whose start() is still pending has a timer running or a connection in flight: it never just stops
        /\ ~E.obs.idle
TNext == TLostStim \/ TStart \/ TCheck \/ TAttempt \/ TFail \/ TJoined \/ TLeft \/ TStop \/ TDone \/ TEnd
TraceSpec == TInit /\ [][TNext]_tvars
Progress == TLCSet(tid, IF TLCGet(tid) < l THEN l ELSE TLCGet(tid))
Post ==
  LET rej == {i \in 1..N : TLCGet(i) # Len(Traces[i]) + 1} IN
    /\ \A i \in rej : PrintT(<<"REJECT", i, TLCGet(i)>>)
    /\ PrintT(<<"ACCEPTED", N - Cardinality(rej)>>)
=============================================================================
