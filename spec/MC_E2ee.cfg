SPECIFICATION Spec
INVARIANT NeverAltered
INVARIANT FaultNeverSucceeds
CHECK_DEADLOCK FALSE
