SPECIFICATION Spec
INVARIANT NeverAltered
INVARIANT FaultNeverSucceeds
INVARIANT NeverClear
CHECK_DEADLOCK FALSE
