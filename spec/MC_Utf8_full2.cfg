\* every byte value, all strings of length <= 2 (65 793 strings)
SPECIFICATION Spec
CONSTANTS
  MaxLen = 2
CONSTANT Alphabet <- AllBytes
INVARIANT TypeOK
INVARIANT AcceptIffWellFormed
INVARIANT RejectIffNotPrefix
INVARIANT WholeVerdict
INVARIANT ChunkIndependent
CHECK_DEADLOCK FALSE
