--------------------------- MODULE UriPatternTrace ---------------------------
(* one event per case: pat = [p (components), u (URI components), obs = [construct, ok, kw]] from the real uri.Pattern *)
EXTENDS UriPattern, TLC, Json, IOUtils, TLCExt
Traces == JsonDeserialize(IOEnv.TRACE_FILE)
N == Len(Traces)
ASSUME \A i \in 1..N : TLCSet(i, 0)
VARIABLES tid, l
tvars == <<p, u, tid, l>>
E == Traces[tid][l]
TInit == tid \in 1..N /\ l = 1 /\ p = <<>> /\ u = <<>>
ToSet(s) == {s[i] : i \in 1..Len(s)}
TPat ==
  /\ l <= Len(Traces[tid]) /\ E.ev = "pat" /\ l' = l + 1 /\ UNCHANGED tid
  /\ p' = E.p /\ u' = E.u
  /\ E.obs.esc = ""
  /\ E.obs.construct = Construct(E.p)
  /\ Construct(E.p) # "refused" =>
       LET m == Match(E.p, E.u) IN
         /\ E.obs.ok = m.ok
         /\ m.ok => (ToSet(E.obs.kw) = m.kw /\ Len(E.obs.kw) = Cardinality(m.kw) /\ E.obs.args = 0)
TraceSpec == TInit /\ [][TPat]_tvars
Progress == TLCSet(tid, IF TLCGet(tid) < l THEN l ELSE TLCGet(tid))
Post ==
  LET rej == {i \in 1..N : TLCGet(i) # Len(Traces[i]) + 1} IN
    /\ \A i \in rej : PrintT(<<"REJECT", i, TLCGet(i)>>)
    /\ PrintT(<<"ACCEPTED", N - Cardinality(rej)>>)
=============================================================================
