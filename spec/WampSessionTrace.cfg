SPECIFICATION TraceSpec
CONSTANTS
  MaxEvents = 0
  MaxReq = 0
  SubIds = {}
  RegIds = {}
  Handlers = {}
CONSTRAINT Progress_
POSTCONDITION Post
CHECK_DEADLOCK FALSE
