#!/usr/bin/env python3
"""Generates /verif/MANIFEST.json from the table below (one source of truth)."""
import json, os
V = os.path.dirname(os.path.dirname(os.path.abspath(__file__)))
CHECKS = {}
NA = {}
def chk(pid, text, note, technique, ref):
    CHECKS[pid] = dict(property_id=pid, quick_cmd="./check %s --tier quick" % pid, thorough_cmd="./check %s --tier thorough" % pid,
        evidence_file="/verif/evidence/%s.json" % pid, replay_cmd_template="./check %s --replay {path}" % pid, engine="tlc+replay",
        level_claimed=dict(category="model_checking", text=text, design_ref=ref), level_note=note, technique=technique)

chk("C09",
    "TLC proves on all strings <=2 over all bytes and <=4 over 24 range-boundary bytes that the 9-state step machine of spec/Utf8.tla computes the RFC 3629 ABNF (verdict, code-point boundary, first offending index, chunk independence); the exported transition relation drives a W-method conformance suite against the pure-Python, NVX-table and NVX-unrolled validators rebuilt from /repo (complete for implementations with <=9+k states), all strings <=2/<=3 exhaustively, and TLC validates the recorded validate() traces (Utf8Trace.tla).",
    "Trusted: TLC, the ~25-line table-fold oracle in harness/drivers/utf8_drv.py, cffi/gcc rebuild. W-method completeness assumes a deterministic implementation with <=9+k states.",
    "TLA+ spec (Utf8.tla) model-checked with TLC; W-method conformance from the exported transition relation; TLC batch trace validation of recorded validate() calls", "5/C09")

chk("C15",
    "TLC checks RunningXor/PointerCounts/Involution of spec/XorMask.tla over all chunkings of small payloads; every masker implementation (pure-Python simple/shifted/factory; NVX scalar/SSE2 through the wrapper and through lib.nvx_xormask_process at all 16 buffer alignments, rebuilt from /repo) is driven over all lengths 0..300 x offsets 0..3 x alignments, splits at every (quick: boundary) position, random 3-way splits, reset, involution and 64KiB-1MiB payloads; TLC (XorMaskTrace.tla) recomputes every output octet from inputs defined in the spec.",
    "Trusted: TLC and CommunityModules Bitwise, cffi/gcc rebuild. Alignment reached through the cffi lib call (the wrapper always allocates an aligned buffer).",
    "TLA+ spec (XorMask.tla) model-checked with TLC; TLC batch trace validation recomputing every XOR of recorded process() calls for all implementations", "5/C15")

chk("C02",
    "spec/WsRecv.tla is the RFC 6455 receiver (header rule cascade, fragmentation automaton, control frames, close payload rules, UTF-8 fail-fast, fail policy) written from the RFC with two actions per frame (header complete / payload complete); TLC checks its safety properties over all Header/Payload sequences of a 704-header x 14-payload alphabet; every one of the 65 536 first-two-octet values is executed against a fresh real endpoint per receiver context (role x failByDrop x compression x open/closing/inside; 3 contexts quick, all 24 on both frameworks thorough) plus generated near-valid frame sequences, each in 2-4 read segmentations, and TLC (WsRecvTrace.tla) recomputes the verdict for every recorded step, decoding written frame headers itself.",
    "Trusted: TLC; the structural frame splitter of the harness; zlib for minimal deflate completions. Drop timing after a close frame was sent, pong replies while CLOSING and close codes 1012-1014 are left open by the spec (RFC silent).",
    "TLA+ spec (WsRecv.tla) model-checked with TLC; exhaustive decision-table execution against the real protocol classes with TLC batch trace validation (WsRecvTrace.tla)", "5/C02")

NA_ALL = ["C%02d" % i for i in range(1, 21)]
for p in NA_ALL:
    if p not in CHECKS:
        NA[p] = "not built yet in this round: specification and conformance harness under construction (see DESIGN.md section 5/%s); not claimed until exhaustive config, replay and trace validation all run green" % p

m = dict(version=1,
    setup_cmd="sh tools/setup.sh",
    hooks=dict(guard="AUTOBAHN_VERIF", enable="no source hooks are needed: every observation point is a public callback/attribute or a harness-supplied transport; checks export AUTOBAHN_VERIF=1 for uniformity and import autobahn from /repo/src (editable install), rebuilding the NVX C modules from /repo sources per run",
        baseline_off_cmd="sh /verif/tools/baseline.sh", source_commits=[], add_only=True),
    engines=[dict(name="tlc+replay", path="/verif/check", serves_properties=sorted(CHECKS), kind_free_text="TLA+ specs in /verif/spec checked by TLC; TLC-exported relations/behaviours replayed into the real code; recorded implementation traces validated by TLC trace specs")],
    checks=[CHECKS[k] for k in sorted(CHECKS)],
    notes="See DESIGN.md. known_findings.json lists recorded/fixed defects.",
    not_applicable=[dict(property_id=k, reason=NA[k]) for k in sorted(NA)])
json.dump(m, open(os.path.join(V, "MANIFEST.json"), "w"), indent=1)
print("checks:", sorted(CHECKS), "na:", sorted(NA))
