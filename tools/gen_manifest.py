#!/usr/bin/env python3
"""Generates /verif/MANIFEST.json from the table below (one source of truth)."""
import json, os
V = os.path.dirname(os.path.dirname(os.path.abspath(__file__)))
CHECKS = {}
NA = {}
def chk(pid, text, note, technique, ref):
    CHECKS[pid] = dict(property_id=pid, quick_cmd="./check %s --tier quick" % pid, thorough_cmd="./check %s --tier thorough" % pid,
        evidence_file="/verif/evidence/%s.json" % pid, replay_cmd_template="./check %s --replay {path}" % pid, engine="tlc+replay",
        level_claimed=dict(category="model_checking", text=text, design_ref=ref), level_note=note, technique=technique)

chk("C09",
    "TLC proves on all strings <=2 over all bytes and <=4 over 24 range-boundary bytes that the 9-state step machine of spec/Utf8.tla computes the RFC 3629 ABNF (verdict, code-point boundary, first offending index, chunk independence); the exported transition relation drives a W-method conformance suite against the pure-Python, NVX-table and NVX-unrolled validators rebuilt from /repo (complete for implementations with <=9+k states), all strings <=2/<=3 exhaustively, and TLC validates the recorded validate() traces (Utf8Trace.tla).",
    "Trusted: TLC, the ~25-line table-fold oracle in harness/drivers/utf8_drv.py, cffi/gcc rebuild. W-method completeness assumes a deterministic implementation with <=9+k states.",
    "TLA+ spec (Utf8.tla) model-checked with TLC; W-method conformance from the exported transition relation; TLC batch trace validation of recorded validate() calls", "5/C09")

chk("C15",
    "TLC checks RunningXor/PointerCounts/Involution of spec/XorMask.tla over all chunkings of small payloads; every masker implementation (pure-Python simple/shifted/factory; NVX scalar/SSE2 through the wrapper and through lib.nvx_xormask_process at all 16 buffer alignments, rebuilt from /repo) is driven over all lengths 0..300 x offsets 0..3 x alignments, splits at every (quick: boundary) position, random 3-way splits, reset, involution and 64KiB-1MiB payloads; TLC (XorMaskTrace.tla) recomputes every output octet from inputs defined in the spec.",
    "Trusted: TLC and CommunityModules Bitwise, cffi/gcc rebuild. Alignment reached through the cffi lib call (the wrapper always allocates an aligned buffer).",
    "TLA+ spec (XorMask.tla) model-checked with TLC; TLC batch trace validation recomputing every XOR of recorded process() calls for all implementations", "5/C15")

chk("C02",
    "spec/WsRecv.tla is the RFC 6455 receiver (header rule cascade, fragmentation automaton, control frames, close payload rules, UTF-8 fail-fast, fail policy) written from the RFC with two actions per frame (header complete / payload complete); TLC checks its safety properties over all Header/Payload sequences of a 704-header x 14-payload alphabet; every one of the 65 536 first-two-octet values is executed against a fresh real endpoint per receiver context (role x failByDrop x compression x open/closing/inside; 3 contexts quick, all 24 on both frameworks thorough) plus generated near-valid frame sequences, each in 2-4 read segmentations, and TLC (WsRecvTrace.tla) recomputes the verdict for every recorded step, decoding written frame headers itself.",
    "Trusted: TLC; the structural frame splitter of the harness; zlib for minimal deflate completions. Drop timing after a close frame was sent, pong replies while CLOSING and close codes 1012-1014 are left open by the spec (RFC silent).",
    "TLA+ spec (WsRecv.tla) model-checked with TLC; exhaustive decision-table execution against the real protocol classes with TLC batch trace validation (WsRecvTrace.tla)", "5/C02")

chk("C01",
    "spec/WsChannel.tla models one direction of a connection at the grain of the code (sendMessage with its exact fragmentation loop, streaming API, sendData's queueing discipline, the _send pump, a piece-wise receiver); TLC checks WirePiecesInOrder, WireWellFormed, InOrderExactlyOnce, NothingInvented, ReceiverNeverFails, AllDeliveredWhenQuiet and the liveness property EventuallyDelivered (fair Pump/Recv) for all interleavings of 2-3 messages x fragment x chop x sync settings; seeded random scenarios over all four send APIs, option grids, boundary payload lengths and boundary-aware read cuts run on a real client/server pair (Twisted and asyncio) and WsChannelTrace.tla validates every recorded trace: each written header is decoded in TLC and run through the same Framing grammar, each delivery must be the next fully written message of the peer with identical type/length/bytes, and everything accepted must be delivered at the end.",
    "Trusted: TLC; structural frame splitter; byte comparison of payloads in the harness. Lengths >= 2^31 not executed. Option pairs compatible as documented.",
    "TLA+ spec (WsChannel.tla) model-checked with TLC incl. liveness; TLC batch trace validation (WsChannelTrace.tla) of executions of a real client/server pair", "5/C01")
chk("C16",
    "Receive side: WsRecv.tla fails with 1009 in the Header action (before any payload step) and TLC checks DeliveredWithinLimits; real endpoints are fed messages of size limit-1/limit/limit+1/x100 for limits {1,125,126,65535,65536} spread over 1-4 fragments with the offending payload withheld in part of the cases, and WsRecvTrace demands the failure in the header event. Send side and decompression limit: WsChannel.tla (OverLimitRefused, RefusedNeverOnWire) and pair scenarios validated by WsChannelTrace (PayloadExceededError iff over the limit, nothing written, later messages intact; an over-decompression-limit message is delivered identical or refused with 1009, never altered). Two recorded defects (F16, F10) are matched by named deviation actions of the trace spec in a second validation pass and reported as KNOWN-FINDING.",
    "Trusted: TLC, harness frame splitter, zlib for constructing exact-size deflate streams. With compression the receive limits are compared with wire sizes.",
    "TLA+ specs (WsRecv.tla, WsChannel.tla) model-checked with TLC; TLC batch trace validation (WsRecvTrace, WsChannelTrace with deviation actions for known findings)", "5/C16")

chk("C05",
    "spec/WsConn.tla models one endpoint's lifecycle with one pure operator per entry point of the code (handshake done, sendClose, send APIs, onCloseFrame, data/ping/pong, protocol violation, the five timeout handlers, connectionLost) on a discrete clock; TLC checks ForwardOnly, onClose exactly once and only after the transport is gone, nothing written after onClose, at most one close frame, no data frame after it, clean only if close frames travelled both ways with the peer's code, unclean = 1006, ClosingIsGuarded and BoundedClose over all event sequences up to the bound for both roles x failByDrop x timeout and auto-ping settings; WsConnTrace.tla validates seeded random lifecycles of real endpoints (both roles, Twisted and asyncio, virtual time) by applying the spec operator of each event and demanding equality with the complete recorded projection, and checks every close frame written (legal code, valid UTF-8 reason <= 123 octets, application / peer code as required).",
    "Trusted: TLC; the projection reads bookkeeping attributes and pending delayed calls of the protocol object. A peer sends at most one close frame; invalid peer close payloads are C02's business.",
    "TLA+ spec (WsConn.tla) model-checked with TLC; TLC batch trace validation (WsConnTrace.tla) with full state projection after every event", "5/C05")
chk("C17",
    "The same WsConn.tla with discrete time (half seconds) and txaio's batched-timer quantisation: TLC checks OpenHandshakeDeadline, BoundedClose, PongDeadline, PingLoopAlive, PingTimeoutGuardsPending, NoTimerEffectAfterClosed, TimeoutReasonMatchesState and the arithmetic lemma that a batched timer fires < 1 s early and never late; time-heavy lifecycles of real endpoints over timeout / auto-ping grids (scenarios starting on whole and half seconds) are validated by WsConnTrace.tla, which compares the due time of each of the five timers after every event and the tick at which a timeout drops the connection.",
    "Trusted: TLC; virtual clocks (twisted Clock / VLoop) standing in for the reactor; projection of pending delayed calls.",
    "TLA+ spec (WsConn.tla) with explicit discrete time model-checked with TLC; TLC batch trace validation comparing timer due times (WsConnTrace.tla)", "5/C17")

chk("C12",
    "spec/Pmce.tla is the permessage-deflate negotiation (offer, accept with local overrides, response, response-accept, effective per-direction parameters); TLC checks InvResponseWithinOffer and InvDirectionCompatible on the complete lattice (117k states); every lattice point (quick: every 6th (offer, accept) pair with all 24 response-accepts) is replayed through the real classes and the real extension header strings and PmceTrace.tla compares raises/response/effective parameters of both PerMessageDeflate objects; the client handshake is executed on responses with every extension fault; message-level losslessness is validated on real client/server pairs (deflate parameter grid, bzip2, brotli, doNotCompress, all send APIs, fragmentation, boundary cuts) by WsChannelTrace.tla (RSV1 exactly on the first frame of a compressed message; identical delivery). Compressed control frames / RSV1 on continuation are cells of C02's table.",
    "Trusted: TLC; zlib/bz2/brotli; harness byte comparison. snappy is not installed and not exercised.",
    "TLA+ spec (Pmce.tla) model-checked exhaustively with TLC; lattice replay into the real classes validated by TLC (PmceTrace.tla); TLC trace validation of compressed pair traffic (WsChannelTrace.tla)", "5/C12")

chk("C07",
    "spec/WsHandshake.tla states the RFC 6455 section 4 validation of requests (server) and responses (client) as decision procedures over features of the header block with fault domains; TLC enumerates every case with at most two faulty features (718 requests, 135 responses), checks the tables' sanity and exports them; every case is concretised into octets (name case, whitespace, order, benign variants) and executed against a real server (4 configurations) or client in 2-3 read segmentations, and WsHandshakeTrace.tla re-judges state, status code, accept digest, subprotocol, extensions, drop and escaping exceptions; client request construction, the own-client x own-server option matrix and arbitrary / mutated octet strings (NoEscape, no half state) are validated the same way.",
    "Trusted: hashlib SHA-1 for the digest, the concretisation tables. Application misuse of onConnect (unlisted subprotocol) may be ended by the opening-handshake timer.",
    "TLA+ decision tables (WsHandshake.tla) enumerated and exported by TLC; every cell executed against the real handshake code; TLC batch trace validation (WsHandshakeTrace.tla)", "5/C07")

NA_ALL = ["C%02d" % i for i in range(1, 21)]
for p in NA_ALL:
    if p not in CHECKS:
        NA[p] = "not built yet in this round: specification and conformance harness under construction (see DESIGN.md section 5/%s); not claimed until exhaustive config, replay and trace validation all run green" % p

m = dict(version=1,
    setup_cmd="sh tools/setup.sh",
    hooks=dict(guard="AUTOBAHN_VERIF", enable="no source hooks are needed: every observation point is a public callback/attribute or a harness-supplied transport; checks export AUTOBAHN_VERIF=1 for uniformity and import autobahn from /repo/src (editable install), rebuilding the NVX C modules from /repo sources per run",
        baseline_off_cmd="sh /verif/tools/baseline.sh", source_commits=[], add_only=True),
    engines=[dict(name="tlc+replay", path="/verif/check", serves_properties=sorted(CHECKS), kind_free_text="TLA+ specs in /verif/spec checked by TLC; TLC-exported relations/behaviours replayed into the real code; recorded implementation traces validated by TLC trace specs")],
    checks=[CHECKS[k] for k in sorted(CHECKS)],
    notes="See DESIGN.md. known_findings.json lists recorded/fixed defects.",
    not_applicable=[dict(property_id=k, reason=NA[k]) for k in sorted(NA)])
json.dump(m, open(os.path.join(V, "MANIFEST.json"), "w"), indent=1)
print("checks:", sorted(CHECKS), "na:", sorted(NA))
