#!/bin/sh
# after a sub-agent finished in /tmp/<prefix>_<PID>: confirm its changes, store them as seeded/<PID>-(offset+k), run the
# property's quick check against each, remove the scratch worktree.    usage: seed_round.sh <prefix> <PID> <offset>
pfx=$1; pid=$2; off=$3
cd /verif
/venv/bin/python tools/seed_verify.py $pid /tmp/${pfx}_$pid $off 2>&1 | grep -E "baseline|mutant"
for k in 1 2 3; do
  n=$((off + k))
  [ -f seeded/$pid-$n/patch.diff ] && /venv/bin/python tools/seed_run.py $pid-$n 2>&1 | grep -E "DETECTED|MISSED|rror"
done
git -C /repo worktree remove --force /tmp/${pfx}_$pid
