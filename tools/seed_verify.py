#!/usr/bin/env python3
"""Confirm a sub-agent's seeded change in its scratch worktree and store it under /verif/seeded/<id>/.
usage: seed_verify.py <PID> <worktree>       (expects <worktree>/OUT/mutant_k.diff, demo_k.py, meta_k.json)"""
import json, os, shutil, subprocess, sys, re

pid, wt = sys.argv[1], sys.argv[2]
offset = int(sys.argv[3]) if len(sys.argv) > 3 else 0
env = dict(os.environ, PYTHONPATH=wt + "/src", PYTHONHASHSEED="0")
env.pop("AUTOBAHN_VERIF", None)

def sh(cmd, **kw):
    return subprocess.run(cmd, shell=True, cwd=wt, env=env, stdout=subprocess.PIPE, stderr=subprocess.STDOUT, text=True, **kw)

def tests():
    """number of BASELINE stable_pass tests passing now (pinned command, junit)"""
    import xml.etree.ElementTree as ET
    j = os.path.join(wt, "OUT", "junit.xml")
    sh("/venv/bin/python -m pytest -ra -q -p no:cacheprovider --timeout=900 --continue-on-collection-errors --junitxml=%s >/dev/null 2>&1" % j)
    want = set(json.load(open("/root/.vp/BASELINE.json"))["stable_pass"])
    got = set()
    try:
        for tc in ET.parse(j).getroot().iter("testcase"):
            if not any(ch.tag in ("failure", "error", "skipped") for ch in tc):
                got.add(tc.get("classname") + "::" + tc.get("name"))
    except Exception:
        return -1
    os.unlink(j)
    return len(want & got)

def demo(k):
    r = sh("/venv/bin/python OUT/demo_%d.py" % k, timeout=300)
    return r.returncode, r.stdout[-600:]

sh("git checkout -- . ")
base = tests()
print("baseline passed:", base)
for k in (1, 2, 3):
    d = os.path.join(wt, "OUT", "mutant_%d.diff" % k)
    if not os.path.exists(d):
        continue
    rc0, out0 = demo(k)
    a = sh("git apply OUT/mutant_%d.diff" % k)
    if a.returncode != 0:
        print(k, "patch does not apply", a.stdout[-300:]); sh("git checkout -- ."); continue
    t = tests()
    rc1, out1 = demo(k)
    sh("git checkout -- .")
    ok = (rc0 == 0 and rc1 != 0 and t >= base)
    print("mutant %d: demo clean rc=%d, demo mutated rc=%d, tests %d/%d -> %s" % (k, rc0, rc1, t, base, "CONFIRMED" if ok else "REJECTED"))
    if ok:
        dest = "/verif/seeded/%s-%d" % (pid, k + offset)
        os.makedirs(dest, exist_ok=True)
        shutil.copy(d, dest + "/patch.diff")
        shutil.copy(os.path.join(wt, "OUT", "demo_%d.py" % k), dest + "/demo.py")
        meta = json.load(open(os.path.join(wt, "OUT", "meta_%d.json" % k)))
        meta.update(property=pid, confirmed=dict(tests_passed_with_change=t, baseline_passed=base, demo_rc_clean=rc0, demo_rc_changed=rc1,
                    ran="tools/seed_verify.py: git apply in scratch worktree, pinned pytest command with PYTHONPATH=<wt>/src, demo before/after"),
                    demo_tail_changed=out1[-300:])
        json.dump(meta, open(dest + "/meta.json", "w"), indent=1)
