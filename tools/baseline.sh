#!/bin/sh
# Runs the repository's pinned test suite with the verification guard OFF and compares with /root/.vp/BASELINE.json
unset AUTOBAHN_VERIF
OUT=${1:-/verif/.work/baseline.junit.xml}
mkdir -p "$(dirname "$OUT")"
cd /repo && /venv/bin/python -m pytest -ra -q -p no:cacheprovider --timeout=900 --continue-on-collection-errors --junitxml="$OUT" >/verif/.work/baseline.log 2>&1
/venv/bin/python - "$OUT" <<'PY'
import json, sys, xml.etree.ElementTree as ET
base = json.load(open('/root/.vp/BASELINE.json'))
want = set(base['stable_pass'])
got = set()
for tc in ET.parse(sys.argv[1]).getroot().iter('testcase'):
    if not any(ch.tag in ('failure', 'error', 'skipped') for ch in tc):
        got.add(tc.get('classname') + '::' + tc.get('name'))
missing = sorted(want - got)
print('baseline: %d expected passing, %d passing now, %d missing' % (len(want), len(got & want), len(missing)))
for m in missing[:20]:
    print('  MISSING', m)
sys.exit(1 if missing else 0)
PY
