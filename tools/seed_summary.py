#!/usr/bin/env python3
"""seeded/SUMMARY.txt from the stored result files (one line per stored change: which checks report it)."""
import glob, json, os
rows = []
for d in sorted(glob.glob("/verif/seeded/C*-*"), key=lambda p: (os.path.basename(p).split("-")[0], int(os.path.basename(p).split("-")[1]))):
    sid = os.path.basename(d)
    meta = json.load(open(d + "/meta.json"))
    res = [json.load(open(f)) for f in sorted(glob.glob(d + "/result_*.json"))]
    det = [r["check"] for r in res if r.get("detected")]
    note = ""
    if meta.get("obsolete_since"):
        note = " (obsolete: the property holds on the changed tree since a later fix)"
    elif meta.get("equivalent_under_statement"):
        note = " (equivalent under the statement)"
    rows.append("%s %s%s" % (sid, ("DETECTED by " + ",".join(det)) if det else "NOT DETECTED", note))
open("/verif/seeded/SUMMARY.txt", "w").write("\n".join(rows) + "\n")
print(len(rows), "changes;", sum(1 for r in rows if "NOT DETECTED" in r), "not detected")
