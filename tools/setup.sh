#!/bin/sh
# Offline setup: syntax-check all specs with SANY and byte-compile the harness.  Nothing is fetched.
cd "$(dirname "$0")/.." || exit 2
mkdir -p .work evidence replays
rc=0
cd spec
for f in *.tla; do
  out=$(java -cp /opt/veriftools/tla/tla2tools.jar:/opt/veriftools/tla/CommunityModules-deps.jar tla2sany.SANY "$f" 2>&1)
  if echo "$out" | grep -q -e "Semantic errors" -e "Parse Error" -e "Fatal errors" -e "\*\*\* Errors"; then echo "SANY FAILED: $f"; echo "$out" | tail -20; rc=1; fi
done
cd ..
/venv/bin/python -m compileall -q harness >/dev/null || rc=1
/venv/bin/python -c "import autobahn, twisted, txaio" || rc=1
exit $rc
