#!/usr/bin/env python3
"""Prepare scratch worktrees for a seeding round: seed_prep.py <prefix> <PID>...   -> /tmp/<prefix>_<PID> with OUT/property.json and
OUT/already_done.txt (one-line summaries of the changes stored so far, so that the agent does not repeat them)."""
import json, os, subprocess, sys, glob
prefix, pids = sys.argv[1], sys.argv[2:]
props = {json.loads(l)["id"]: json.loads(l) for l in open("/verif/properties.jsonl")}
for pid in pids:
    wt = "/tmp/%s_%s" % (prefix, pid)
    subprocess.run("git -C /repo worktree remove --force %s" % wt, shell=True, stdout=subprocess.DEVNULL, stderr=subprocess.DEVNULL)
    subprocess.check_call("git -C /repo worktree add -q --detach %s HEAD" % wt, shell=True)
    os.makedirs(wt + "/OUT", exist_ok=True)
    json.dump(props[pid], open(wt + "/OUT/property.json", "w"), indent=1)
    with open(wt + "/OUT/already_done.txt", "w") as f:
        for d in sorted(glob.glob("/verif/seeded/%s-*/meta.json" % pid), key=lambda p: int(p.split("-")[-1].split("/")[0])):
            m = json.load(open(d))
            f.write("- " + " ".join(m.get("summary", "").split())[:260] + "\n")
    print(wt)
