#!/bin/sh
# run every registered thorough check once, one after the other; one summary line per check (used with `vp run`)
cd "$(dirname "$0")/.." || exit 2
for c in ${CHECKS:-C01 C02 C03 C04 C05 C06 C07 C08 C09 C10 C11 C12 C13 C14 C15 C16 C17 C18 C19 C20}; do
  t0=$(date +%s)
  ./check $c --tier thorough > .work_thorough_$c.log 2>&1
  rc=$?
  echo "THOROUGH $c exit=$rc wall=$(( $(date +%s) - t0 ))s $(grep -c '^VIOLATION' .work_thorough_$c.log) violations"
  grep -E '^(VIOLATION|KNOWN-FINDING)' .work_thorough_$c.log | sort | uniq -c | head -5
done
