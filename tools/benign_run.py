#!/usr/bin/env python3
"""Run the quick checks of some properties against a scratch worktree with a *behaviour-preserving* change applied: none may alarm.
usage: benign_run.py <benign-id> <check-pid>...     (expects /verif/benign/<benign-id>/patch.diff)   writes result.json there"""
import json, os, subprocess, sys, time, shutil
bid, pids = sys.argv[1], sys.argv[2:]
wt = "/tmp/bt_%s" % bid
subprocess.run("git -C /repo worktree remove --force %s" % wt, shell=True, stdout=subprocess.DEVNULL, stderr=subprocess.DEVNULL)
subprocess.check_call("git -C /repo worktree add -q %s HEAD" % wt, shell=True)
res = {}
try:
    subprocess.check_call("git -C %s apply /verif/benign/%s/patch.diff" % (wt, bid), shell=True)
    for pid in pids:
        out = "/verif/.work/ben/%s_%s" % (bid, pid)
        shutil.rmtree(out, ignore_errors=True); os.makedirs(out)
        env = dict(os.environ, VERIF_REPO=wt, VERIF_REPO_SRC=wt + "/src", VERIF_OUT_DIR=out)
        t0 = time.time()
        p = subprocess.run(["/verif/check", pid, "--tier", "quick"], cwd="/verif", env=env, stdout=subprocess.PIPE, stderr=subprocess.STDOUT, text=True)
        lines = p.stdout.splitlines()
        what = [l.strip() for l in lines if l.strip().startswith("what:")]
        res[pid] = dict(exit=p.returncode, violations=len([l for l in lines if l.startswith("VIOLATION")]), first=what[:3], wall_s=round(time.time() - t0, 1), tail=lines[-4:])
        print(bid, pid, "exit", p.returncode, "QUIET" if p.returncode == 0 else ("ALARM" if p.returncode == 1 else "MACHINERY"), what[:2], flush=True)
        if p.returncode != 0:
            keep = "/verif/.work/ben_keep/%s_%s" % (bid, pid)
            shutil.rmtree(keep, ignore_errors=True); shutil.copytree(out, keep)
            open(keep + "/stdout.txt", "w").write(p.stdout[-20000:])
        shutil.rmtree(out, ignore_errors=True)
    json.dump(res, open("/verif/benign/%s/result.json" % bid, "w"), indent=1)
finally:
    subprocess.run("git -C /repo worktree remove --force %s" % wt, shell=True)
