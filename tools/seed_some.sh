#!/bin/sh
# re-run the stored seeded changes of some properties: seed_some.sh <log> <P> <id>...   (ids like C05 or C07-15)
cd /verif; log=$1; par=$2; shift 2
: > $log
for x in "$@"; do case $x in *-*) echo $x;; *) ls seeded | grep -E "^$x-[0-9]+$";; esac; done | \
  xargs -P $par -I{} sh -c '/venv/bin/python tools/seed_run.py {} 2>&1 | grep -E "DETECTED|MISSED" >> '$log
echo finished >> $log
