#!/bin/sh
# every registered quick check once, one after the other (rewrites evidence/*.json); one summary line per check
cd "$(dirname "$0")/.." || exit 2
for c in C01 C02 C03 C04 C05 C06 C07 C08 C09 C10 C11 C12 C13 C14 C15 C16 C17 C18 C19 C20; do
  ./check $c --tier quick > .work/quick_$c.log 2>&1; rc=$?
  echo "QUICK $c exit=$rc $(grep -c '^VIOLATION' .work/quick_$c.log) violations $(tail -1 .work/quick_$c.log | grep -o 'wall=[0-9.]*s')"
done
echo finished
