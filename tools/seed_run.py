#!/usr/bin/env python3
"""Run the registered quick check of a seeded change's property against a scratch worktree with the change applied.
usage: seed_run.py <seed-id> [<check-pid>]   e.g. seed_run.py C02-1      writes /verif/seeded/<seed-id>/result.json"""
import json, os, subprocess, sys, time, shutil
sid = sys.argv[1]
pid = sys.argv[2] if len(sys.argv) > 2 else sid.split("-")[0]
wt = "/tmp/mt_%s_%s" % (sid, pid)
out = "/verif/.work/mut/%s_%s" % (sid, pid)
subprocess.run("git -C /repo worktree remove --force %s" % wt, shell=True, stdout=subprocess.DEVNULL, stderr=subprocess.DEVNULL)
subprocess.check_call("git -C /repo worktree add -q %s HEAD" % wt, shell=True)
try:
    subprocess.check_call("git -C %s apply /verif/seeded/%s/patch.diff" % (wt, sid), shell=True)
    shutil.rmtree(out, ignore_errors=True); os.makedirs(out)
    env = dict(os.environ, VERIF_REPO=wt, VERIF_REPO_SRC=wt + "/src", VERIF_OUT_DIR=out)
    t0 = time.time()
    p = subprocess.run(["/verif/check", pid, "--tier", os.environ.get("SEED_TIER", "quick")], cwd="/verif", env=env, stdout=subprocess.PIPE, stderr=subprocess.STDOUT, text=True)
    lines = p.stdout.splitlines()
    viol = [l for l in lines if l.startswith("VIOLATION")]
    what = [l.strip() for l in lines if l.strip().startswith("what:")]
    res = dict(seed=sid, check=pid, exit=p.returncode, detected=(p.returncode == 1 and bool(viol)), violations=len(viol),
               first=what[:3], wall_s=round(time.time() - t0, 1), tail=lines[-3:])
    rp = "/verif/seeded/%s/result_%s.json" % (sid, pid)
    json.dump(res, open(rp, "w"), indent=1)
    print(sid, pid, "exit", p.returncode, "DETECTED" if res["detected"] else "MISSED", what[:2])
finally:
    subprocess.run("git -C /repo worktree remove --force %s" % wt, shell=True)
    shutil.rmtree(out, ignore_errors=True)
