#!/bin/sh
# re-run every stored seeded change against the check of its property (and C05-1 against C02); summary in seeded/SUMMARY.txt
cd /verif
: > .work/seed_all.log
ls seeded | grep -E '^C[0-9]+-[0-9]+$' | xargs -P 6 -I{} sh -c '/venv/bin/python tools/seed_run.py {} 2>&1 | grep -E "DETECTED|MISSED|Error|error" | head -2 >> .work/seed_all.log'
/venv/bin/python tools/seed_run.py C05-1 C02 2>&1 | grep -E "DETECTED|MISSED" >> .work/seed_all.log
sort .work/seed_all.log > seeded/SUMMARY.txt
echo finished >> .work/seed_all.log
