#!/bin/sh
# diagnostic: line coverage of /repo/src/autobahn reached by the drivers of the given quick checks
# usage: tools/coverage_gap.sh C04 C06 ...   -> .work/cov/report.txt, .work/cov/annotate/*,cover
cd "$(dirname "$0")/.." || exit 2
D=$PWD/.work/cov; rm -rf "$D"; mkdir -p "$D"
for c in "$@"; do VERIF_COVERAGE_DIR=$D ./check $c --tier quick | tail -2; done
cd "$D" && /venv/bin/python -m coverage combine -q --data-file=.coverage . >/dev/null 2>&1
/venv/bin/python -m coverage report --data-file=.coverage --skip-empty -m > report.txt 2>/dev/null
/venv/bin/python -m coverage annotate --data-file=.coverage -d annotate >/dev/null 2>&1
grep -E "protocol|rawsocket|websocket|component|auth|cryptosign|message|serializer|utf8|xormask|compress|TOTAL" report.txt | cut -c1-160
