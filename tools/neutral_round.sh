#!/bin/sh
# after a "property-neutral changes" agent finished in /tmp/nt_<G>: store benign/<G>-k (patch.diff, meta.json) and run the quick
# checks of the properties each change touches against it (none may alarm); remove the worktree.  usage: neutral_round.sh <G>
g=$1; wt=/tmp/nt_$g
cd /verif
for k in 1 2 3 4 5; do
  [ -f $wt/OUT/neutral_$k.diff ] || continue
  d=benign/$g-$k; mkdir -p $d
  cp $wt/OUT/neutral_$k.diff $d/patch.diff; cp $wt/OUT/nmeta_$k.json $d/meta.json
  pids=$(jq -r '.properties_touched | join(" ")' $d/meta.json)
  /venv/bin/python tools/benign_run.py $g-$k $pids 2>&1 | grep -E "QUIET|ALARM|MACHINERY|rror"
done
git -C /repo worktree remove --force $wt
